#!/usr/bin/env python3
"""Development tool (not a registered check): for every `fixed` entry of known_findings.json revert that one
commit in a scratch worktree and make sure the property's quick check reports a VIOLATION again.

A fixed entry suppresses nothing; this shows that the rule which found the defect is still armed.
Usage: tools/check_fix_reverts.py            (scratch worktree under /tmp, removed afterwards)
"""
import json
import os
import subprocess
import sys

HERE = os.path.dirname(os.path.dirname(os.path.abspath(__file__)))
WT = "/tmp/fixrev_wt"


def sh(*a, **k):
    return subprocess.run(a, stdout=subprocess.PIPE, stderr=subprocess.STDOUT, text=True, **k)


def main():
    kf = json.load(open(os.path.join(HERE, "known_findings.json")))
    sh("git", "-C", "/repo", "worktree", "remove", "--force", WT)
    r = sh("git", "-C", "/repo", "worktree", "add", "--detach", WT, "HEAD")
    if r.returncode:
        print(r.stdout)
        return 2
    bad = 0
    try:
        for e in kf["fixed"]:
            c, prop = e["commit"], e["property"]
            r = sh("git", "-C", WT, "revert", "--no-commit", c)
            if r.returncode:
                print("%-8s %s revert does not apply cleanly: %s" % (c, prop, r.stdout.strip().splitlines()[-1]))
                sh("git", "-C", WT, "revert", "--abort")
                sh("git", "-C", WT, "reset", "--hard", "-q")
                bad += 1
                continue
            r = sh("/venv/bin/python", os.path.join(HERE, "sa/run.py"), prop, "--tier", "quick", "--repo", WT, "--quiet",
                   env=dict(os.environ, VERIF_NO_EVIDENCE="1"))
            rules = sorted({ln.split()[1] for ln in r.stdout.splitlines() if ln.startswith("  VIOLATED")}) or \
                [ln for ln in r.stdout.splitlines() if "VIOLATION" in ln][:1]
            ok = r.returncode == 1
            print("%-8s %s rc=%d %s  %s" % (c, prop, r.returncode, "re-detected" if ok else "NOT DETECTED", e["what"][:70]))
            if not ok:
                bad += 1
                print(r.stdout[-600:])
            sh("git", "-C", WT, "revert", "--abort")
            sh("git", "-C", WT, "reset", "--hard", "-q")
    finally:
        sh("git", "-C", "/repo", "worktree", "remove", "--force", WT)
        sh("git", "-C", "/repo", "worktree", "prune")
    return 1 if bad else 0


if __name__ == "__main__":
    sys.exit(main())
