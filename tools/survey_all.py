#!/usr/bin/env python3
"""Development driver: survey (sa/survey.py) + related-tests filter (tools/survivor_tests.py) per property group.
Output under /tmp/surv/ (scratch; nothing registered depends on it).
usage: survey_all.py [group ...]     groups: see GROUPS
"""
import os
import subprocess
import sys

T = "mpf/tests/test_%s.py"
GROUPS = {
    "C01+C02": "EventManager Delay QueueEventPlayer BlockingEvents Modes Game SwitchController EventPlayer BallDevice",
    "C03": "SwitchController TimedSwitch SwitchPlayer ComboSwitches Shots BallDevice Flippers",
    "C04+C05": "BallDevice BallDeviceSwitchConfirmation BallDeviceManualWithTarget BallDeviceAutoManualPlunger "
               "BallDeviceJamSwitch TroughEntranceSwitch BallDevicePlayfieldLock MultiBall BallSave Playfield BallController "
               "BallDeviceEventConfirmation BallDeviceRouting BallDeviceHoldCoil BallDeviceEnableCoil BallDevicePulseEject "
               "BallDeviceSingle BallDevice_SmartVirtual System11Trough GottliebTrough BallDeviceTriggerEvents "
               "BallDeviceNoPlungerSwitch BallDeviceModernTroughPlungerSetup TooLongExitCountDelay BallHold MultiballLock",
    "C06": "Game Attract ExtraBall Tilt BallSave MultiBall Bonus HighScoreMode BallController",
    "C07": "Modes ModesConfigValidation ConfigPlayers EventPlayer LightPlayer Shows ShotGroups Achievement ComboSwitches "
           "Timer LogicBlocks VariablePlayer QueueEventPlayer CoilPlayer RandomEventPlayer Shots DeviceManager",
    "C08": "DeviceDriver CoilPlayer DualWoundCoil DigitalOutput Flippers FlippersHoldNoEos FlippersSoftwareEosRepulse "
           "Autofire Kickback BallDevicePulseEject BallDeviceHoldCoil BallDeviceEnableCoil Platform Virtual DeviceFlasher "
           "Diverter Magnet DropTargets",
    "C09": "DeviceLight LightPlayer DeviceMatrixLight LightGroups Shows Openpixel Fadecandy DeviceGI DeviceFlasher "
           "Blinkenlight Fast_Exp",
    "C10": "Flippers FlippersHoldNoEos FlippersSoftwareEosRepulse Autofire Kickback Tilt BallSearch ServiceMode Platform",
    "C11": "PlayerVars LogicBlocks Shots ShotGroups Achievement Timer StateMachine ExtraBall VariablePlayer Game Bonus",
    "C12": "Config ConfigErrors ConfigPlayers Utility_Functions ConfigLoader ConfigProcessor ModesConfigValidation "
           "DeviceManager Shows DeviceDriver",
    "C13": "Delay Clock Timer Modes",
    "C14": "Fast Fast_Audio Fast_Dmd Fast_Exp Fast_Nano Fast_Neuron Fast_Retro Fast_Seg OPP PKONE Lisy",
    "C15": "DataManager MachineVariables YamlInterface Auditor HighScoreMode Settings CreditsMode",
    "C16": "PlaceholderManager EventManager EventPlayer VariablePlayer ConfigPlayers DeviceDriver LogicBlocks Settings",
    "C17": "Shows ShowPools LightPlayer CoilPlayer",
    "C18": "LogicBlocks",
    "C19": "BcpSocketClient BcpInterface BcpServer BcpMc",
    "C20": "CreditsMode ServiceMode",
}


def anchor_modules(group):
    import json
    here = os.path.dirname(os.path.dirname(os.path.abspath(__file__)))
    files = []
    for ln in open(os.path.join(here, "properties.jsonl")):
        p = json.loads(ln)
        if p["id"] in group.split("+"):
            files += [f for f in p["anchors"]["files"] if f.endswith(".py")]
    return sorted(set(files))


def main():
    args = sys.argv[1:]
    modules = "--modules" in args
    args = [a for a in args if a != "--modules"]
    groups = args or list(GROUPS)
    os.makedirs("/tmp/surv", exist_ok=True)
    here = os.path.dirname(os.path.dirname(os.path.abspath(__file__)))
    for g0 in groups:
        g = g0 + ("m" if modules else "")
        sj = "/tmp/surv/%s.survey.json" % g
        extra = (["--funcs"] + anchor_modules(g0)) if modules else []
        with open("/tmp/surv/%s.survey.txt" % g, "w") as fh:
            subprocess.run(["/venv/bin/python", os.path.join(here, "sa/survey.py"), g0, "--out", sj] + extra, stdout=fh,
                           stderr=subprocess.STDOUT)
        tests = [T % t for t in GROUPS[g0].split()]
        with open("/tmp/surv/%s.tests.txt" % g, "w") as fh:
            subprocess.run(["python3", os.path.join(here, "tools/survivor_tests.py"), sj, "--jobs",
                            os.environ.get("SURV_JOBS", "8"), "--out", "/tmp/surv/%s.tests.json" % g, "--tests"] + tests,
                           stdout=fh, stderr=subprocess.STDOUT)
        print("done", g, flush=True)


if __name__ == "__main__":
    main()
