#!/usr/bin/env python3
"""Independently confirm a seeded change in a scratch worktree and, if it
holds up, keep it under /verif/seeded/<name>/.

usage: verify_seed.py <seed_out_dir> <name>      e.g. /tmp/seed/C03/out/a C03a

Checks: (1) patch applies to /repo HEAD; (2) demo passes on the clean tree;
(3) demo fails with the patch; (4) the pinned suite (stable_pass list of
BASELINE.json) still passes with the patch.  The scratch worktree is removed
afterwards."""
import json, os, shutil, subprocess, sys, time

src_dir = os.path.abspath(sys.argv[1]); name = sys.argv[2]
wt = "/tmp/vseed/%s" % name
meta = json.load(open(os.path.join(src_dir, "meta.json")))
demo_cmd = meta.get("demo_cmd", "")
out_rel = os.path.relpath(src_dir, os.path.dirname(os.path.dirname(src_dir)))   # out/a
res = {"name": name, "property": meta.get("property"), "verified_at": time.strftime("%Y-%m-%dT%H:%M:%S")}


def sh(cmd, cwd=None, timeout=3600):
    r = subprocess.run(cmd, shell=True, cwd=cwd, capture_output=True, text=True, timeout=timeout)
    return r.returncode, (r.stdout + r.stderr)

os.makedirs("/tmp/vseed", exist_ok=True)
sh("git -C /repo worktree remove --force %s" % wt)
rc, o = sh("git -C /repo worktree add --detach %s HEAD" % wt)
if rc:
    print("worktree failed", o); sys.exit(2)
try:
    shutil.copytree(src_dir, os.path.join(wt, out_rel))
    # normalise the demo command: run from the worktree root
    cmd = demo_cmd.replace("/tmp/seed/%s/" % meta.get("property", "XXX"), "")
    if "cd " in cmd and "&&" in cmd:
        cmd = cmd.split("&&", 1)[1].strip()
    import re
    m_ = re.search(r"(/venv/bin/python\s+(?:-m\s+pytest\s+)?[^()]*?\.py)", cmd)
    if m_:
        cmd = m_.group(1)
    res["demo_cmd"] = cmd
    rc_clean, o_clean = sh(cmd, cwd=wt)
    res["demo_clean_rc"] = rc_clean
    res["demo_clean_tail"] = o_clean.strip().splitlines()[-3:]
    rc, o = sh("git apply %s" % os.path.join(src_dir, "patch.diff"), cwd=wt)
    res["patch_applies"] = rc == 0
    if rc:
        res["apply_error"] = o[-500:]
    else:
        rc_p, o_p = sh(cmd, cwd=wt)
        res["demo_patched_rc"] = rc_p
        res["demo_patched_tail"] = o_p.strip().splitlines()[-3:]
        prev = None
        if os.environ.get("REUSE_SUITE") and os.path.isfile("/tmp/vseed_%s.log" % name):
            try:
                txt = open("/tmp/vseed_%s.log" % name).read()
                prev = json.loads(txt[txt.index("{"):txt.rindex("}") + 1])
            except Exception:
                prev = None
        if prev and prev.get("suite_rc") == 0 and prev.get("patch_applies"):
            res["suite_rc"] = 0
            res["suite_summary"] = prev.get("suite_summary", []) + ["(suite result reused from the first verification run of the same patch)"]
        else:
            rc_s, o_s = sh("python3 /verif/tools/suite_vs_baseline.py %s" % wt, timeout=7200)
            res["suite_rc"] = rc_s
            res["suite_summary"] = o_s.strip().splitlines()[-6:]
    ok = res.get("patch_applies") and res.get("demo_clean_rc") == 0 and res.get("demo_patched_rc", 0) != 0 and res.get("suite_rc") == 0
    res["confirmed"] = bool(ok)
finally:
    sh("git -C /repo worktree remove --force %s" % wt)
print(json.dumps(res, indent=1))
if res.get("confirmed"):
    dst = "/verif/seeded/%s" % name
    if os.path.isdir(dst):
        shutil.rmtree(dst)
    os.makedirs(dst)
    for fn in os.listdir(src_dir):
        p = os.path.join(src_dir, fn)
        if fn.startswith("suite_") or fn.startswith("demo_clean") or fn.startswith("demo_patched"):
            continue
        if os.path.isdir(p):
            shutil.copytree(p, os.path.join(dst, fn))
        else:
            shutil.copy(p, dst)
    meta["verification"] = res
    meta["what_was_run"] = ["git apply patch.diff in a scratch worktree of /repo HEAD", cmd + " (clean: pass, patched: fail)",
                            "python3 /verif/tools/suite_vs_baseline.py <worktree> (all 858 stable tests pass with the patch)"]
    json.dump(meta, open(os.path.join(dst, "meta.json"), "w"), indent=1)
    sys.exit(0)
sys.exit(1)
