#!/usr/bin/env python3
"""Run the pinned suite (xdist) in REPO (default /repo) and compare with BASELINE.json stable_pass.
usage: suite_vs_baseline.py [repo_dir] [pytest extra args...]"""
import json, subprocess, sys, tempfile, os, xml.etree.ElementTree as ET
repo = sys.argv[1] if len(sys.argv) > 1 else '/repo'
extra = sys.argv[2:]
base = json.load(open('/root/.vp/BASELINE.json'))
stable = set(base['stable_pass'])
fd, out = tempfile.mkstemp(suffix='.xml'); os.close(fd)
cmd = ['/venv/bin/python', '-m', 'pytest', '-q', '-p', 'no:cacheprovider', '--timeout=900',
       '--continue-on-collection-errors', '-n', '16', '--junitxml=' + out] + extra
subprocess.run(cmd, cwd=repo, stdout=subprocess.DEVNULL, stderr=subprocess.DEVNULL)
passed = set(); bad = {}
for tc in ET.parse(out).getroot().iter('testcase'):
    name = tc.get('classname', '') + '::' + tc.get('name', '')
    fails = [c.tag for c in tc if c.tag in ('failure', 'error', 'skipped')]
    if fails: bad[name] = fails
    else: passed.add(name)
os.unlink(out)
missing = sorted(stable - passed)
print('stable_pass=%d passed_now=%d missing_from_stable=%d' % (len(stable), len(passed), len(missing)))
for m in missing[:40]: print('  NOT PASSING:', m, bad.get(m))
sys.exit(1 if missing else 0)
