#!/usr/bin/env python3
"""List, per property, the functions of the property's anchor files that no rule analysed (chk.analysed).
A review aid: the seeded rounds showed that most misses sit in functions of anchored files no rule had looked at.
usage: tools/uncovered.py C17 [C11 ...]"""
import sys, json, importlib, ast
sys.path.insert(0, "/verif")
from sa.model import Repo
from sa.report import Check, run_rules

props = {json.loads(l)["id"]: json.loads(l) for l in open("/verif/properties.jsonl")}
repo = Repo("/repo")
for pid in sys.argv[1:]:
    mod = importlib.import_module("sa.rules.%s" % pid.lower())
    base = Check(pid, "quick", repo, quiet=True)
    run_rules(mod, base)
    an = set(base.funcs_analysed)
    files = props[pid]["anchors"]["files"]
    print("== %s: %d analysed; anchor files %s" % (pid, len(an), files))
    for rel in files:
        if rel not in repo.modules:
            print("   (no module %s)" % rel)
            continue
        m = repo.modules[rel]
        for fn in m.all_funcs():
            if fn.ident in an:
                continue
            n = (fn.node.end_lineno or fn.node.lineno) - fn.node.lineno + 1
            body = [s for s in fn.node.body if not (isinstance(s, ast.Expr) and isinstance(s.value, ast.Constant))]
            if len(body) <= 1 and n < 6:
                continue
            print("   %-70s %4d lines @%d" % (fn.ident.replace(rel + "::", rel.split("/")[-1] + "::"), n, fn.node.lineno))
