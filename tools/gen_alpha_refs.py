#!/usr/bin/env python3
"""Record the reference shapes (statement hashes with locals masked + local names in visiting order) of every function in
the files the rules look at, from /repo's committed HEAD.  Output: sa/alpha_refs.json (committed).  Re-run after a
`fix:` commit in /repo or when a rule starts to look at a new file."""
import ast
import json
import os
import re
import subprocess
import sys

HERE = os.path.dirname(os.path.dirname(os.path.abspath(__file__)))
sys.path.insert(0, HERE)
from sa import alpha  # noqa: E402


def files():
    out = set()
    for ln in open(os.path.join(HERE, "properties.jsonl")):
        out |= {f for f in json.loads(ln)["anchors"]["files"] if f.endswith(".py")}
    for fn in os.listdir(os.path.join(HERE, "sa", "rules")):
        if fn.endswith(".py"):
            out |= set(re.findall(r'"(mpf/[A-Za-z0-9_/]+\.py)"', open(os.path.join(HERE, "sa", "rules", fn)).read()))
    # every device / config player / core module: sibling rules walk them
    ls = subprocess.run(["git", "-C", "/repo", "ls-files", "mpf/core", "mpf/devices", "mpf/config_players", "mpf/modes", "mpf/assets",
                         "mpf/platforms/interfaces", "mpf/platforms/fast/communicators", "mpf/platforms/opp", "mpf/platforms/pkone",
                         "mpf/file_interfaces"], capture_output=True, text=True).stdout.split()
    out |= {f for f in ls if f.endswith(".py")}
    return sorted(out)


def main():
    refs = {}
    n = 0
    for rel in files():
        r = subprocess.run(["git", "-C", "/repo", "show", "HEAD:" + rel], capture_output=True, text=True)
        if r.returncode:
            continue
        try:
            tree = ast.parse(r.stdout)
            from sa import normal
            normal.normalise(tree)
        except SyntaxError:
            continue
        rec = {}
        mhash = {}

        def visit(body, prefix):
            for st in body:
                if isinstance(st, ast.ClassDef):
                    visit(st.body, prefix + st.name + ".")
                elif isinstance(st, (ast.FunctionDef, ast.AsyncFunctionDef)):
                    if st.name.startswith("_") and not st.name.startswith("__"):
                        mhash[prefix + st.name] = alpha.method_hash(st)
                    # functions without locals are recorded too (empty name lists): a local that appears later is known to be new
                    rec[prefix + st.name] = alpha.shape_record(st) if alpha.local_names(st) else []
        visit(tree.body, "")
        # names bound at module level: a module constant that appears later is known to be new
        rec["<module>"] = [[0, sorted(alpha.module_level_names(tree))]]
        rec["<methods>"] = [[0, mhash]]
        if rec:
            refs[rel] = rec
            n += len(rec)
    with open(alpha.REFS_FILE, "w") as fh:
        json.dump(refs, fh, separators=(",", ":"), sort_keys=True)
    print("%d files, %d functions, %d bytes" % (len(refs), n, os.path.getsize(alpha.REFS_FILE)))


if __name__ == "__main__":
    main()
