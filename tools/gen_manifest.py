#!/usr/bin/env python3
"""Regenerate /verif/MANIFEST.json from sa/claims.py (+ NOT_APPLICABLE below)."""
import json, os, sys
HERE = os.path.dirname(os.path.dirname(os.path.abspath(__file__)))
sys.path.insert(0, HERE)
from sa.claims import CLAIMS, NOTE
try:
    from sa.claims import NOT_APPLICABLE
except ImportError:
    NOT_APPLICABLE = {}
ALL = ["C%02d" % i for i in range(1, 21)]
GENERIC = (" Generic obligations of every check: (RANGE-0): no loop or comprehension of a function the rules analyse iterates a bounded slice of a "
           "collection, so what the rules state for every item is done for all of them; (TRUTHY-0) no enumerate / range index is tested by truthiness; "
           "(NAME-0) every delay name an analysed class cancels, checks or runs is a name it arms; (ROUND-0) no value is scaled up by a constant after "
           "it was truncated; (LOOP-0) every for loop of an analysed function can reach its second item; "
           "(SWAP-0) no parameter of an analysed / anchored function lands in another parameter's slot of its callee; (DROP-0) a pass-through hands on every "
           "parameter its callee also takes; (REARM-0) a callback that renews its own one-shot subscription renews it on every returning path after evaluating; "
           "(MEMO-0) a function memoised by argument value neither answers from changeable state nor hands out a mutable object it built; (CONFIG-0) no validated configuration entry is edited in place, "
           "directly or through an alias; (ITERMUT-0) no for loop changes the container it walks; (SHARED-0) no method fills a class-level container; "
           "(LASTONLY-0) a per-trip object is registered on every trip; (BRACKET-0) a phase flag set and cleared by one function is cleared on every returning path; "
           "(EVPRIO-0) an override of a control-event handler whose base declares @event_handler(n) declares a priority too; (STALE-0) a local tested inside a waiting loop "
           "is sampled from live state inside the loop, not once before it; (TRIP-0) a value a loop body computes from its item and hands to a call is computed on "
           "every path of the trip.")
checks = []
for p in ALL:
    if p not in CLAIMS:
        continue
    c = CLAIMS[p]
    checks.append({
        "property_id": p,
        "quick_cmd": "/venv/bin/python sa/run.py %s --tier quick" % p,
        "thorough_cmd": "/venv/bin/python sa/run.py %s --tier thorough" % p,
        "evidence_file": "/verif/evidence/%s.json" % p,
        "replay_cmd_template": "/venv/bin/python sa/run.py %s --replay {path}" % p,
        "engine": "sa",
        "level_claimed": {"category": "other", "text": c["text"] + GENERIC, "design_ref": "DESIGN.md section " + c["ref"]},
        "level_note": c.get("note", NOTE),
        "technique": "static analysis: " + c["technique"],
    })
na = []
for p in ALL:
    if p not in CLAIMS:
        na.append({"property_id": p, "reason": NOT_APPLICABLE.get(p, "no static check built yet for this property (work in progress); nothing is claimed")})
m = {
    "version": 1,
    "setup_cmd": "/venv/bin/python -c \"import sys, ast; print('python', sys.version.split()[0])\" && /venv/bin/python -m compileall -q sa",
    "hooks": {"guard": "MPF_VERIF", "enable": "no hooks: the checks read /repo's sources and never run them",
              "baseline_off_cmd": "cd /repo && /venv/bin/python -m pytest -ra -q -p no:cacheprovider --timeout=900 --continue-on-collection-errors",
              "source_commits": [], "add_only": True},
    "engines": [{"name": "sa", "path": "/verif/sa", "serves_properties": [c["property_id"] for c in checks],
                 "kind_free_text": "repository-specific static analyser: AST model + MRO, statement CFG (dominators, must-pass, facts, feasible paths), whole-repo use index (who-may-call / who-may-write), unit inference, table oracles; in-memory mutant/twin sensitivity battery in the thorough tier"}],
    "checks": checks,
    "notes": "Static analysis only. exit 0 = all obligations hold; exit 1 = VIOLATION; exit 2 = ANALYSIS-ERROR (checker could not run: vanished anchor / instance floor). Known findings: /verif/known_findings.json.",
    "not_applicable": na,
}
json.dump(m, open(os.path.join(HERE, "MANIFEST.json"), "w"), indent=1)
print("checks:", len(checks), "not_applicable:", len(na))
