#!/usr/bin/env python3
"""Write the prompt for one fresh seeding sub-agent per property (given only the property text and its own scratch
worktree; nothing from /verif except the one-line titles of earlier seeded changes, so that it looks elsewhere).
usage: gen_seed_prompts.py <round dir, e.g. /tmp/seed5> [extra dirs with earlier out/*/meta.json ...]
Creates <round dir>/Cnn.prompt.txt and a detached worktree <round dir>/Cnn of /repo HEAD."""
import json, os, sys, glob, subprocess

rd = sys.argv[1]
extra = sys.argv[2:]
os.makedirs(rd, exist_ok=True)
props = [json.loads(l) for l in open("/verif/properties.jsonl")]
T = open("/verif/tools/seed_prompt_template.txt").read()
for p in props:
    pid = p["id"]
    wt = "%s/%s" % (rd, pid)
    earlier = []
    for d in sorted(glob.glob("/verif/seeded/%s?/meta.json" % pid)) + [m for e in extra for m in sorted(glob.glob("%s/%s/out/*/meta.json" % (e, pid)))]:
        try:
            m = json.load(open(d))
        except Exception:
            continue
        files = m.get("files") or ["?"]
        line = "  - %s: %s" % (files[0] if isinstance(files, list) else files, (m.get("title") or "")[:200])
        if line not in earlier:
            earlier.append(line)
    a = p["anchors"]
    text = ("PROPERTY %s: %s\n\nStatement: %s\n\nQuantifier (%s): %s\n\nWhy the existing tests cannot settle it: %s\n\nAnchor files: %s\nMechanism: %s\n" %
            (pid, p["title"], p["statement"], ", ".join(p["quantifier"]["over"]), p["quantifier"]["text"], p["why_tests_cant"], ", ".join(a["files"]),
             [{"name": m["name"], "where": m["where"]} for m in a.get("mechanism", [])]))
    out = T.replace("@WT@", wt).replace("@PID@", pid).replace("@PROPERTY@", text).replace("@N@", str(len(earlier))).replace("@EARLIER@", "\n".join(earlier))
    open("%s/%s.prompt.txt" % (rd, pid), "w").write(out)
    if not os.path.isdir(wt):
        subprocess.run("git -C /repo worktree add --detach %s HEAD" % wt, shell=True, capture_output=True)
    os.makedirs(wt + "/out", exist_ok=True)
print("prompts in", rd)
