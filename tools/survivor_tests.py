#!/usr/bin/env python3
"""Development tool (not a registered check, runs repository tests): take the mutants a survey (sa/survey.py --out)
left unnoticed and run the *related* test files against each, in private scratch copies of /repo/mpf under /tmp.
Mutants the tests kill are not realistic seeded changes; the rest (unnoticed by the rules AND by the related tests)
is the list to read: each is either irrelevant to the property, equivalent, or a blind spot that needs a rule.

usage: survivor_tests.py survey.json --tests mpf/tests/test_A.py mpf/tests/test_B.py [--jobs 8] [--out x.json]
                         [--status silent analysis-error] [--func substr]
"""
import argparse
import json
import multiprocessing as mp
import os
import shutil
import subprocess
import sys

BASE = "/tmp/mw_%d" % os.getpid()


def _worker_dir(k):
    d = os.path.join(BASE, "w%d" % k)
    if not os.path.isdir(d):
        os.makedirs(d)
        subprocess.run(["rsync", "-a", "--exclude", "__pycache__", "/repo/mpf", d + "/"], check=True)
    return d


def _run(args):
    i, row, tests, timeout, deselect = args
    k = mp.current_process()._identity[0] if mp.current_process()._identity else 0
    d = _worker_dir(k)
    rel = row["rel"]
    src = os.path.join("/repo", rel)
    dst = os.path.join(d, rel)
    b = open(src, "rb").read()
    new = b[:row["start"]] + row["new"].encode() + b[row["end"]:]
    try:
        with open(dst, "wb") as fh:
            fh.write(new)
        try:
            r = subprocess.run(["/venv/bin/python", "-m", "pytest", "-x", "-q", "-p", "no:cacheprovider",
                                "--timeout=120"] + deselect + tests, cwd=d, stdout=subprocess.PIPE, stderr=subprocess.STDOUT,
                               text=True, timeout=timeout)
            tail = r.stdout.strip().splitlines()[-1] if r.stdout.strip() else ""
            res = "tests-pass" if r.returncode == 0 else "tests-fail"
        except subprocess.TimeoutExpired:
            res, tail = "tests-timeout", ""
    finally:
        shutil.copyfile(src, dst)
    return i, res, tail


def main():
    ap = argparse.ArgumentParser()
    ap.add_argument("survey")
    ap.add_argument("--tests", nargs="+", required=True)
    ap.add_argument("--jobs", type=int, default=8)
    ap.add_argument("--out")
    ap.add_argument("--status", nargs="*", default=["silent", "analysis-error", "crash"])
    ap.add_argument("--func", nargs="*")
    ap.add_argument("--kinds", nargs="*")
    ap.add_argument("--timeout", type=int, default=600)
    a = ap.parse_args()
    d = json.load(open(a.survey))
    rows = [r for r in d["rows"] if r["status"] in a.status]
    if a.func:
        rows = [r for r in rows if any(f in r["func"] for f in a.func)]
    if a.kinds:
        rows = [r for r in rows if r["kind"] in a.kinds]
    print("%d mutants to test with %s" % (len(rows), a.tests), flush=True)
    os.makedirs(BASE, exist_ok=True)
    # baseline: tests that fail / error on the unchanged tree are deselected
    r = subprocess.run(["/venv/bin/python", "-m", "pytest", "-q", "-p", "no:cacheprovider", "--timeout=120", "-rfE"] + a.tests,
                       cwd="/repo", stdout=subprocess.PIPE, stderr=subprocess.STDOUT, text=True)
    deselect = []
    for ln in r.stdout.splitlines():
        if ln.startswith(("FAILED ", "ERROR ")):
            deselect += ["--deselect", ln.split()[1]]
    print("baseline: %s; deselected %d" % (r.stdout.strip().splitlines()[-1], len(deselect) // 2), flush=True)
    try:
        with mp.get_context("fork").Pool(a.jobs) as pool:
            res = pool.map(_run, [(i, r, a.tests, a.timeout, deselect) for i, r in enumerate(rows)], chunksize=1)
    finally:
        shutil.rmtree(BASE, ignore_errors=True)
    tot = {}
    for i, st, tail in res:
        rows[i]["tests"] = st
        rows[i]["tests_tail"] = tail
        tot[st] = tot.get(st, 0) + 1
    print(tot)
    for r in rows:
        if r["tests"] != "tests-fail":
            print("%-4s %-3s %s:%d [%s] %s %s" % (r["tests"][6:10], r["status"][:3], r["func"].split("::")[1], r["line"],
                                                  r["kind"], r["desc"], r["info"][:60]))
    if a.out:
        json.dump({"tests": a.tests, "totals": tot, "rows": rows}, open(a.out, "w"), indent=1)


if __name__ == "__main__":
    sys.exit(main())
