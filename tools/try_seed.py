#!/usr/bin/env python3
"""Apply a seeded patch to /repo, run the property's quick check, undo.
usage: try_seed.py <patch.diff> <Cnn> [more props...]"""
import subprocess, sys, os
patch = os.path.abspath(sys.argv[1]); props = sys.argv[2:]
st = subprocess.run(["git", "-C", "/repo", "status", "--porcelain", "--untracked-files=no"], capture_output=True, text=True).stdout.strip()
if st:
    print("refusing: /repo has local modifications:\n" + st); sys.exit(3)
r = subprocess.run(["git", "-C", "/repo", "apply", patch], capture_output=True, text=True)
if r.returncode:
    print("patch does not apply:", r.stderr); sys.exit(3)
try:
    for p in props:
        r = subprocess.run(["/venv/bin/python", "sa/run.py", p, "--tier", "quick"], cwd="/verif", capture_output=True, text=True, env=dict(os.environ, VERIF_SCRATCH_EVIDENCE="1"))
        lines = [l for l in r.stdout.splitlines() if not l.startswith("  rule ")]
        print("== %s rc=%d" % (p, r.returncode))
        print("\n".join(lines[-25:]))
        if r.stderr.strip():
            print(r.stderr[-2000:])
finally:
    subprocess.run(["git", "-C", "/repo", "checkout", "--", "."], check=True)
