"""F16 probe: LightPlatformDirectFade.set_fade does not cancel a running software fade when an instant
(or short) colour follows; the old fade keeps writing and its end value is what the hardware shows last.
Run: PYTHONPATH=/repo /venv/bin/python /verif/findings/probes/probe_f16_directfade_task.py"""
import asyncio
from mpf.platforms.interfaces.light_platform_interface import LightPlatformSoftwareFade


class L(LightPlatformSoftwareFade):
    def __init__(self, loop):
        super().__init__("1", loop, 10)
        self.vals = []

    def set_brightness(self, brightness):
        self.vals.append(round(brightness, 3))

    def get_board_name(self):
        return "probe"


async def main():
    loop = asyncio.get_event_loop()
    light = L(loop)
    t = loop.time()
    light.set_fade(0.0, t, 1.0, t + 0.3)      # 300 ms fade 0 -> 1 (runs as a task)
    await asyncio.sleep(0.1)
    light.set_fade(0.5, -1, 0.5, -1)          # instant colour 0.5 (what Light sends for fade_ms=0)
    await asyncio.sleep(0.5)
    print("last brightness commanded:", light.vals[-1], "(expected 0.5)")
    light.stop()

asyncio.run(main())
