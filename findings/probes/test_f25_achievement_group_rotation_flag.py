"""F25 (C11): AchievementGroup.rotate_right marks a rotation as in progress and returns without clearing the mark when there is nothing to
rotate to (every member completed / disabled).  From then on `_process_current_member_state` aborts for ever ("Rotation in progress"): the
group never again selects a member, for any player, until the machine restarts.
Run: cd /repo && /venv/bin/python -m pytest -q -p no:cacheprovider <this file>"""
from mpf.tests.MpfFakeGameTestCase import MpfFakeGameTestCase


class TestRotationFlag(MpfFakeGameTestCase):

    def get_config_file(self):
        return 'config.yaml'

    def get_machine_path(self):
        return 'tests/machine_files/achievement/'

    def test_group_selects_again_after_an_empty_rotation(self):
        self.start_game()
        g1 = self.machine.achievement_groups['group3']
        members = list(g1.config['achievements'])
        for a in members:
            a.start()
            self.advance_time_and_run(.1)
            a.complete()
            self.advance_time_and_run(.1)
        # nothing left to select: a rotate request finds nothing to rotate to
        self.assertFalse([x for x in members if x.can_be_selected_for_start])
        self.assertTrue(g1.enabled)
        g1.rotate_right()
        self.advance_time_and_run(.1)
        self.assertFalse(g1._rotation_in_progress, "the rotation that found nothing is still marked as in progress")
