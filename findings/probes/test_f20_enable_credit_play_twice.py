"""F20 (C20): `enable_credit_play` while credit play is already on registers the coin switch handlers a second time: one coin then
credits two units and is audited twice.  Run: cd /repo && /venv/bin/python -m pytest -q -p no:cacheprovider <this file>"""
from mpf.tests.MpfTestCase import MpfTestCase


class TestEnableCreditPlayTwice(MpfTestCase):

    def get_config_file(self):
        return 'config.yaml'

    def get_machine_path(self):
        return 'tests/machine_files/credits/'

    def test_coin_counted_once_after_second_enable(self):
        self.assertFalse(self.machine.settings.get_setting_value("free_play"))
        self.post_event("enable_credit_play")
        self.machine_run()
        self.hit_and_release_switch("s_left_coin")
        self.machine_run()
        earnings = self.machine.modes["credits"].earnings
        self.assertEqual(1, earnings["1 Total Coins money"])
        self.assertAlmostEqual(0.25, earnings["2 Total Earnings money"])
        self.assertEqual(1, self.machine.variables.get_machine_var("credit_units"))
