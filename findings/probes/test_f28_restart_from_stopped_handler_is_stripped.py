"""F28 (C07): Mode._stopped clears the flags that make start() refuse a request and only then posts mode_<name>_stopped with the clean-up
(_mode_stopped_callback: remove the mode's event handlers and devices) as the event's completion callback.  A start() issued by a handler of
mode_<name>_stopped is therefore accepted, registers the new run's stop_events handlers and devices at once - and the previous run's clean-up,
which runs after the handlers, removes them again.  The restarted mode is active but can no longer be stopped by its stop event.
Run: cd /repo && /venv/bin/python -m pytest -q -p no:cacheprovider <this file>"""
from mpf.tests.MpfTestCase import MpfTestCase


class TestRestartFromStoppedHandler(MpfTestCase):

    def get_config_file(self):
        return 'test_modes.yaml'

    def get_machine_path(self):
        return 'tests/machine_files/mode_tests/'

    def test_restart_keeps_its_stop_handler(self):
        mode = self.machine.modes["mode1"]
        self.post_event("start_mode1")
        self.advance_time_and_run()
        self.assertTrue(mode.active)

        # restart the mode as soon as it has stopped (once)
        restarted = []

        def restart(**kwargs):
            if not restarted:
                restarted.append(True)
                mode.start()
        self.machine.events.add_handler("mode_mode1_stopped", restart)

        self.post_event("stop_mode1")
        self.advance_time_and_run()
        self.assertTrue(restarted)
        self.assertTrue(mode.active, "the restart was accepted: the mode runs again")

        # the running mode still honours its stop event
        self.post_event("stop_mode1")
        self.advance_time_and_run()
        self.assertFalse(mode.active, "the restarted mode lost its stop_events handler to the previous run's clean-up")
