"""F27 (C07): TimedSwitch registers `_activate` with the configured hold time (ms=config['time']) and removes it with the default ms=0.  The
switch controller matches handlers by (callback, state, ms), so the removal finds nothing: after the mode stopped the handler is still there,
the device of the stopped mode still reacts to its switches and posts its events, and every later start of the mode adds one more handler.
Run: cd /repo && /venv/bin/python -m pytest -q -p no:cacheprovider <this file>"""
from mpf.tests.MpfTestCase import MpfTestCase


class TestTimedSwitchHandlerRemoved(MpfTestCase):

    def get_config_file(self):
        return 'timed_switches.yaml'

    def get_machine_path(self):
        return 'tests/machine_files/timed_switches/'

    def test_no_event_after_mode_stop(self):
        self.start_mode("mode1")
        self.advance_time_and_run()
        self.stop_mode("mode1")
        self.advance_time_and_run()
        self.mock_event('mode_switch_active')
        self.hit_switch_and_run("switch2", 3)
        self.assertEventNotCalled("mode_switch_active")
