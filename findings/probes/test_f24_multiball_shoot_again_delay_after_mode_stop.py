"""F24 (C07): a multiball that lives in a mode keeps its `disable_shoot_again` delay when the mode stops (Multiball.stop() ends shoot
again but nothing clears the device's delays).  When the delay fires - the mode stopped long ago - stop() runs a second time:
`multiball_<name>_shoot_again_ended` is posted again in the name of the stopped mode and a `ball_drain` handler is registered on the event
manager although the multiball is over.  Run: cd /repo && /venv/bin/python -m pytest -q -p no:cacheprovider <this file>"""
from mpf.tests.MpfGameTestCase import MpfGameTestCase


class TestShootAgainDelayAfterModeStop(MpfGameTestCase):

    def get_config_file(self):
        return 'config.yaml'

    def get_machine_path(self):
        return 'tests/machine_files/multiball/'

    def get_platform(self):
        return 'smart_virtual'

    def test_no_second_shoot_again_end_after_the_mode(self):
        self.mock_event("multiball_mb4_shoot_again_ended")
        self.fill_troughs()
        self.start_game()
        self.advance_time_and_run(4)
        self.post_event("start_mode1")
        self.post_event("mb4_enable")
        self.post_event("mb4_start")
        self.advance_time_and_run(5)
        mb = self.machine.multiballs["mb4"]
        self.assertTrue(mb.shoot_again)
        self.post_event("stop_mode1")
        self.advance_time_and_run(1)
        self.assertFalse(self.machine.modes["mode1"].active)
        self.assertEqual(1, self._events["multiball_mb4_shoot_again_ended"])
        self.assertFalse(mb.delay.check("disable_shoot_again"), "the stopped mode's multiball still has its shoot-again delay pending")
        self.advance_time_and_run(40)
        self.assertEqual(1, self._events["multiball_mb4_shoot_again_ended"], "shoot again ended a second time, long after the mode stopped")
