"""F23 (C18 / C07): a logic block with `logic_block_timeout` that lives in a mode keeps its timeout delay when the mode unloads it
(`device_removed_from_mode` drops the player state but neither disables the block nor clears its delays).  The delay fires after the mode
has stopped: `<name>_timeout` is posted in the name of a stopped mode and `reset()` runs on a block without state - AttributeError in
the clock callback, which stops the machine.  Run: cd /repo && /venv/bin/python -m pytest -q -p no:cacheprovider <this file>"""
from mpf.tests.MpfFakeGameTestCase import MpfFakeGameTestCase


class TestLogicBlockTimeoutAfterModeStop(MpfFakeGameTestCase):

    def __init__(self, methodName='runTest'):
        super().__init__(methodName)
        self.machine_config_patches['counters'] = {}

    def get_config_file(self):
        return 'config.yaml'

    def get_machine_path(self):
        return 'tests/machine_files/logic_blocks/'

    def test_timeout_does_not_outlive_the_mode(self):
        self.start_game()
        self.mock_event("counter2_timeout")
        self.post_event("start_mode1")
        self.advance_time_and_run(.1)
        counter = self.machine.counters["counter2"]
        # arm the timeout as the config option would (the test machine's mode counters have none configured)
        counter.config['logic_block_timeout'] = 2000
        counter.restart()
        self.assertTrue(counter.delay.check("timeout"))
        self.post_event("stop_mode1")
        self.advance_time_and_run(.1)
        self.assertFalse(self.machine.modes["mode1"].active)
        # the mode is gone: nothing of the block may fire any more
        self.advance_time_and_run(5)
        self.assertEventNotCalled("counter2_timeout")
