from mpf.tests.MpfTestCase import MpfTestCase
from unittest.mock import MagicMock

class TestF9(MpfTestCase):
    def get_config_file(self):
        return 'test_ball_device_manual_with_target.yaml'
    def get_machine_path(self):
        return 'tests/machine_files/ball_device/'
    def get_platform(self):
        return 'virtual'
    def test_idle_plunge_falls_back(self):
        trough = self.machine.ball_devices['test_trough']
        launcher = self.machine.ball_devices['test_launcher']
        playfield = self.machine.ball_devices['playfield']
        self.machine.switch_controller.process_switch("s_ball_switch1", 1)
        self.advance_time_and_run(1)
        launcher.request_ball()
        self.advance_time_and_run(1)
        self.machine.switch_controller.process_switch("s_ball_switch1", 0)
        self.advance_time_and_run(1)
        self.machine.switch_controller.process_switch("s_ball_switch_launcher", 1)
        self.advance_time_and_run(10)
        print("state", launcher._state, launcher.balls)
        self.assertEqual("idle", launcher._state)
        # player plunges weakly: ball leaves the switch ...
        self.machine.switch_controller.process_switch("s_ball_switch_launcher", 0)
        self.advance_time_and_run(3)
        print("state", launcher._state, launcher.balls)
        # ... and falls back
        self.machine.switch_controller.process_switch("s_ball_switch_launcher", 1)
        self.advance_time_and_run(60)
        print("state", launcher._state, launcher.balls, playfield.balls)
        self.assertEqual(1, launcher.balls)
        self.assertNotEqual("failed_confirm", launcher._state)
        # plunge again, this time for real
        self.machine.switch_controller.process_switch("s_ball_switch_launcher", 0)
        self.advance_time_and_run(1)
        self.machine.switch_controller.process_switch("s_playfield", 1)
        self.advance_time_and_run(0.1)
        self.machine.switch_controller.process_switch("s_playfield", 0)
        self.advance_time_and_run(30)
        print("state", launcher._state, launcher.balls, playfield.balls)
        self.assertEqual(0, launcher.balls)
        self.assertEqual(1, playfield.balls)
        self.assertEqual("idle", launcher._state)
