"""F19 (C04 / C05): after an idle mechanical eject the launcher keeps offering the ball it no longer holds; the next request picks it as
source and waits for ever.  Fails before /repo commit 0da01d4, passes after.  Run: cd /repo && /venv/bin/python -m pytest -q -p no:cacheprovider <this file>"""
from mpf.tests.MpfTestCase import MpfTestCase


class TestIdleMechanicalEjectAvailable(MpfTestCase):

    def get_config_file(self):
        return 'test_ball_device_manual_with_target.yaml'

    def get_machine_path(self):
        return 'tests/machine_files/ball_device/'

    def test_available_after_idle_plunge(self):
        trough = self.machine.ball_devices['test_trough']
        launcher = self.machine.ball_devices['test_launcher']
        playfield = self.machine.ball_devices['playfield']
        self.machine.switch_controller.process_switch("s_ball_switch1", 1)
        self.machine.switch_controller.process_switch("s_ball_switch2", 1)
        self.advance_time_and_run(1)
        launcher.request_ball()
        self.advance_time_and_run(1)
        self.machine.switch_controller.process_switch("s_ball_switch1", 0)
        self.advance_time_and_run(1)
        self.machine.switch_controller.process_switch("s_ball_switch_launcher", 1)
        self.advance_time_and_run(5)
        self.assertEqual(1, launcher.balls)
        self.assertEqual(1, launcher.available_balls)
        self.assertEqual("idle", launcher.state)
        # the player plunges the staged ball: it reaches the playfield
        self.machine.switch_controller.process_switch("s_ball_switch_launcher", 0)
        self.advance_time_and_run(1)
        self.hit_and_release_switch("s_playfield")
        self.advance_time_and_run(30)
        self.assertEqual(0, launcher.balls)
        self.assertEqual(1, playfield.balls)
        print("launcher available", launcher.available_balls, "playfield available", playfield.available_balls, "trough", trough.available_balls)
        stale = launcher.available_balls
        # a further request is served from the trough
        playfield.add_ball()
        self.advance_time_and_run(30)
        print("after request: launcher state", launcher.state, "trough state", trough.state, "trough balls", trough.balls, "launcher avail", launcher.available_balls,
              "pf avail", playfield.available_balls, "requests", list(launcher._ball_requests), list(trough._ball_requests))
        self.assertEqual(0, stale, "launcher holds no ball but still offers one")
