from unittest.mock import MagicMock
from mpf.tests.MpfTestCase import MpfTestCase


class TestDupTimed(MpfTestCase):
    def get_config_file(self):
        return 'timed_switches.yaml'

    def get_machine_path(self):
        return 'tests/machine_files/timed_switches/'

    def test_removed_duplicate_timed_handler_never_fires(self):
        cb = MagicMock()
        sc = self.machine.switch_controller
        # the same handler registered twice with the same hold time (e.g. by two devices sharing a callback)
        sc.add_switch_handler('switch1', cb, state=1, ms=1000)
        sc.add_switch_handler('switch1', cb, state=1, ms=1000)
        self.hit_switch_and_run('switch1', 0.1)      # both become pending
        sc.remove_switch_handler('switch1', cb, state=1, ms=1000)   # removes "everything exactly as set up"
        self.advance_time_and_run(2)
        self.assertEqual(0, cb.call_count, "a removed handler fired %d time(s)" % cb.call_count)
