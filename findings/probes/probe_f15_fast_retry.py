"""F15 probe: a lost response to send_and_wait_for_response_processed is never re-sent and blocks for ever.
Run: PYTHONPATH=/repo /venv/bin/python /verif/findings/probes/probe_f15_fast_retry.py"""
import asyncio
from mpf.platforms.fast.communicators.base import FastSerialCommunicator


async def main():
    c = object.__new__(FastSerialCommunicator)
    c.send_queue = asyncio.Queue()
    c.no_response_waiting = asyncio.Event(); c.no_response_waiting.set()
    c.done_waiting = asyncio.Event()
    import logging; c.log = logging.getLogger("probe")
    task = asyncio.ensure_future(c.send_and_wait_for_response_processed("ID:", "ID:", timeout=0.05, max_retries=2))
    await asyncio.sleep(0.6)      # 12 timeouts long, the response never arrives
    print("messages queued:", c.send_queue.qsize(), "(expected 3 = 1 + max_retries)")
    print("call finished or raised:", task.done(), "(expected: retried, then gave up)")
    task.cancel()

asyncio.run(main())
