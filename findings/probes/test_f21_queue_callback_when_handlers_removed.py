"""F21 (C02): a queue event whose handlers are all removed between its dispatch and the first step of its sequential task (another
handler in the same drain removes them, e.g. a mode stops) never completes: `_run_handlers_sequential` returns without calling the
completion callback.  Run: cd /repo && /venv/bin/python -m pytest -q -p no:cacheprovider <this file>"""
from unittest.mock import MagicMock

from mpf.tests.MpfFakeGameTestCase import MpfFakeGameTestCase


class TestQueueCallbackWhenHandlersRemoved(MpfFakeGameTestCase):

    def get_config_file(self):
        return 'test_event_manager.yaml'

    def get_machine_path(self):
        return 'tests/machine_files/event_manager/'

    def test_callback_runs_once(self):
        done = MagicMock()
        qhandler = MagicMock()
        key = self.machine.events.add_handler("q_event", qhandler)

        def remover(**kwargs):
            self.machine.events.remove_handler_by_key(key)

        self.machine.events.add_handler("other_event", remover)
        self.machine.events.post_queue("q_event", callback=done)
        self.machine.events.post("other_event")
        self.advance_time_and_run(1)
        qhandler.assert_not_called()
        self.assertEqual(1, done.call_count, "the queue event's completion callback never ran")
