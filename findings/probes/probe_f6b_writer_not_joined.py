"""F6b probe: a save made shortly before a clean shutdown is lost because nothing waits for the writer thread.
Run: PYTHONPATH=/repo /venv/bin/python /verif/findings/probes/probe_f6b_writer_not_joined.py
The child process does: DataManager(min_wait_secs=1); save_all({...}) right away (the writer is still in its
start-up sleep); machine shutdown (= thread_stopper.set()); main thread returns.  Expected: file contains the data."""
import os, subprocess, sys, tempfile, textwrap

d = tempfile.mkdtemp()
child = textwrap.dedent('''
    import threading, sys
    from mpf.core.data_manager import DataManager
    class M:
        config = {"mpf": {"paths": {"probe": "data/probe.yaml"}}, "logging": {"console": {"data_manager": "none"}, "file": {"data_manager": "none"}}}
        machine_path = sys.argv[1]
        thread_stopper = threading.Event()
        options = {"production": False}
    m = M()
    dm = DataManager(m, "probe", min_wait_secs=1)
    dm.save_all({"credits": 3})
    m.thread_stopper.set()      # what MachineController.shutdown() does; nothing joins the writer
''')
subprocess.run([sys.executable, "-c", child, d], env=dict(os.environ, PYTHONPATH="/repo"), check=True)
p = os.path.join(d, "data", "probe.yaml")
print("file exists after clean shutdown:", os.path.isfile(p), "(expected True with content credits: 3)")
if os.path.isfile(p):
    print(open(p).read())
