"""F17 probe: after one failed YAML dump the module-level ruamel instance keeps a stale context bound to the
closed stream; every later YamlInterface.save in the process fails ("one failed write must not stop later saves").
Run: PYTHONPATH=/repo /venv/bin/python /verif/findings/probes/probe_f17_yaml_dump_poisoned.py"""
import os, tempfile
from mpf.file_interfaces.yaml_interface import YamlInterface


class Unserialisable:
    pass

d = tempfile.mkdtemp()
y = YamlInterface()
try:
    y.save(os.path.join(d, "a.yaml"), {"x": Unserialisable()})
except Exception as e:      # the first write fails, fine
    print("first save failed as intended:", type(e).__name__)
try:
    y.save(os.path.join(d, "b.yaml"), {"ok": 1})
    print("second save ok:", open(os.path.join(d, "b.yaml")).read().strip(), "(expected)")
except Exception as e:
    print("second save ALSO failed:", type(e).__name__, e)
