"""F22 (C04): after an eject the device recounts; balls that left together with the ejected one are reported lost.  The report
(`lost_idle_ball`) accounts for exactly one ball but was made once whatever the difference: a kick that throws out two extra balls leaves
one of them unaccounted for ever (the playfield count is one short of the balls physically loose, the counts no longer sum to the balls
known).  Run: cd /repo && /venv/bin/python -m pytest -q -p no:cacheprovider <this file>"""
from unittest.mock import MagicMock

from mpf.tests.MpfTestCase import MpfTestCase


class TestTripleEjectFromLock(MpfTestCase):

    def __init__(self, methodName='runTest'):
        super().__init__(methodName)
        self.machine_config_patches['switches'] = {"s_ball_switch_target3_3": {"number": ""}}
        self.machine_config_patches['virtual_platform_start_active_switches'] = [
            "s_ball_switch_target3", "s_ball_switch_target3_2", "s_ball_switch_target3_3"]
        self.machine_config_patches['ball_devices'] = {"test_target3": {
            "tags": "home", "ball_switches": "s_ball_switch_target3, s_ball_switch_target3_2, s_ball_switch_target3_3"}}

    def get_config_file(self):
        return 'test_ball_device.yaml'

    def get_machine_path(self):
        return 'tests/machine_files/ball_device/'

    def get_platform(self):
        return 'virtual'

    def test_one_eject_kicks_out_all_three_balls(self):
        lock = self.machine.ball_devices["test_target3"]
        playfield = self.machine.playfields["playfield"]
        coil = self.machine.coils["eject_coil5"]
        coil.pulse = MagicMock()
        self.advance_time_and_run(1)
        self.assertEqual(3, self.machine.ball_controller.num_balls_known)
        self.assertEqual(3, lock.balls)

        lock.eject(1, playfield)
        self.advance_time_and_run(1)
        self.assertEqual(1, coil.pulse.call_count)
        # all three balls leave the lock
        self.release_switch_and_run("s_ball_switch_target3", 0)
        self.release_switch_and_run("s_ball_switch_target3_2", 0)
        self.release_switch_and_run("s_ball_switch_target3_3", 1)
        self.hit_and_release_switch("s_playfield")
        self.advance_time_and_run(120)
        self.assertEqual("idle", lock.state)
        self.assertEqual(0, lock.balls)
        self.assertEqual(3, playfield.balls, "three balls are loose but playfield.balls is {}".format(playfield.balls))
        total = sum(d.balls for d in self.machine.ball_devices.values())
        self.assertEqual(self.machine.ball_controller.num_balls_known, total)
