"""F26 (C16): MultiballLock._player_turn_starting resets the lock's count for the new turn by writing the backing field `_locked_balls` directly.
`locked_balls` is a monitored property (DeviceMonitor hooks writes of the *attribute*), so this change wakes nobody: a template that read
device.multiball_locks.<lock>.locked_balls keeps the previous player's count until something else changes it.
Run: cd /repo && /venv/bin/python -m pytest -q -p no:cacheprovider <this file>"""
from mpf.tests.MpfGameTestCase import MpfGameTestCase


class TestLockResetNotified(MpfGameTestCase):

    def get_config_file(self):
        return 'testNoVirtual.yaml'

    def get_machine_path(self):
        return 'tests/machine_files/multiball_locks/'

    def get_platform(self):
        return 'smart_virtual'

    def test_turn_start_reset_wakes_subscribers(self):
        self.fill_troughs()
        self.start_two_player_game()
        self.advance_time_and_run(8)
        lock = self.machine.multiball_locks["lock_no_virtual"]
        self.post_event("start_no_virtual")
        self.advance_time_and_run(4)
        self.machine.default_platform.add_ball_to_device(self.machine.ball_devices["bd_lock"])
        self.advance_time_and_run(10)
        self.assertEqual(1, lock.locked_balls)

        template = self.machine.placeholder_manager.build_int_template("device.multiball_locks.lock_no_virtual.locked_balls")
        value, future = template.evaluate_and_subscribe({})
        self.assertEqual(1, value)
        self.assertFalse(future.done())

        # player change: the count is reset for the new turn
        self.drain_one_ball()
        self.advance_time_and_run(10)
        self.assertPlayerNumber(2)
        self.assertEqual(0, lock.locked_balls)
        self.assertTrue(future.done(), "locked_balls went from 1 to 0 and the subscriber was not woken")
