"""F11 probe: the FAST writer does not hold back the next command while a confirmation is outstanding.
Run: PYTHONPATH=/repo /venv/bin/python /verif/findings/probes/probe_f11_fast_pause.py"""
import asyncio, logging
from mpf.platforms.fast.communicators.base import FastSerialCommunicator


class W:
    def __init__(self): self.out = []
    def write(self, b): self.out.append(b)


async def main():
    c = object.__new__(FastSerialCommunicator)
    c.send_queue = asyncio.Queue()
    c.pause_sending_flag = asyncio.Event(); c.pause_sending_until = ''
    c.port_debug = False; c.log = logging.getLogger("probe"); c.writer = W()
    c.send_with_confirmation("DL:01,81", "DL:")   # confirmed command: nothing further may be written until 'DL:' arrives
    c.send_and_forget("TL:01,01")
    t = asyncio.ensure_future(c._socket_writer())
    await asyncio.sleep(0.1)
    print("written without any confirmation:", c.writer.out, "(expected only the first command)")
    t.cancel()

asyncio.run(main())
