"""Statement-level control-flow graph for one Python function.

Nodes
  entry / exit / raise        unique per function (raise = exceptional exit)
  stmt                        a simple statement (also nested def/class stmts)
  test                        an *atomic* condition of if/while/assert (short
                              circuit `and`/`or`/`not` is decomposed)
  branch                      synthetic node on the True / False out-edge of a
                              test (value = True/False); dominance by a branch
                              node == "the test had that outcome"
  loop                        header of a for loop (iter / target)
  with                        evaluation of the with-items
  except                      entry of an exception handler
  join                        synthetic

`finally` bodies are duplicated per way of entering them (normal, exception,
return, break, continue) so that a normal path through `finally` is never
confused with an exceptional one.

Exception edges: inside a `try` body every node gets an edge to every handler
(and outwards unless a catch-all handler exists).  `raise` goes to the
enclosing handlers / the raise exit.  With exc_all=True every node containing
a call, await or subscript also gets such an edge even outside `try`.
"""
import ast

from sa.model import walk_local, dotted, src, assigned_targets

CATCH_ALL = {"Exception", "BaseException"}


class Node:
    __slots__ = ("id", "kind", "ast", "value", "test", "succ", "pred", "lineno", "tag", "owner")

    def __init__(self, nid, kind, node=None, value=None, test=None, tag=None, owner=None):
        self.id = nid
        self.kind = kind
        self.ast = node
        self.value = value      # branch outcome
        self.test = test        # id of the test node for a branch
        self.succ = []
        self.pred = []
        self.lineno = getattr(node, "lineno", None)
        self.tag = tag          # e.g. 'finally:exc'
        self.owner = owner      # the compound statement this node belongs to

    def roots(self):
        """AST roots whose evaluation happens *at* this node."""
        n = self.ast
        if n is None:
            return []
        if self.kind in ("stmt", "test"):
            if isinstance(n, (ast.FunctionDef, ast.AsyncFunctionDef, ast.ClassDef)):
                return list(n.decorator_list)
            return [n]
        if self.kind == "loop":
            return [n.iter, n.target]
        if self.kind == "with":
            out = []
            for it in n.items:
                out.append(it.context_expr)
                if it.optional_vars is not None:
                    out.append(it.optional_vars)
            return out
        if self.kind == "except":
            return [n.type] if n.type is not None else []
        return []

    def walk(self):
        for r in self.roots():
            for x in walk_local(r, include_lambda=False):
                yield x

    def calls(self):
        for x in self.walk():
            if isinstance(x, ast.Call):
                yield x

    def has_await(self):
        if self.kind == "loop" and isinstance(self.ast, ast.AsyncFor):
            return True
        if self.kind == "with" and isinstance(self.ast, ast.AsyncWith):
            return True
        return any(isinstance(x, (ast.Await, ast.Yield, ast.YieldFrom)) for x in self.walk())

    def text(self, n=90):
        if self.kind in ("entry", "exit", "raise", "join"):
            return "<%s>" % self.kind
        if self.kind == "branch":
            return "[%s is %s]" % (" ".join(src(self.ast).split())[:n], self.value)
        if self.kind == "loop":
            return "for %s in %s" % (src(self.ast.target), " ".join(src(self.ast.iter).split())[:n])
        if self.kind == "with":
            return "with " + ", ".join(" ".join(src(i.context_expr).split())[:n] for i in self.ast.items)
        if self.kind == "except":
            return "except %s" % (src(self.ast.type) if self.ast.type is not None else "")
        if isinstance(self.ast, (ast.FunctionDef, ast.AsyncFunctionDef, ast.ClassDef)):
            return "def %s" % self.ast.name
        s = " ".join(src(self.ast).split())
        return s if len(s) <= n else s[:n - 3] + "..."

    def __repr__(self):
        return "<N%d %s L%s %s>" % (self.id, self.kind, self.lineno, self.text(50))


class _Ctx:
    """Where return / raise / break / continue go from the current position."""

    def __init__(self, b, parent=None):
        self.b = b
        self.parent = parent

    def do_return(self, fr):
        self.parent.do_return(fr)

    def do_raise(self, fr):
        self.parent.do_raise(fr)

    def do_break(self, fr):
        self.parent.do_break(fr)

    def do_continue(self, fr):
        self.parent.do_continue(fr)

    def in_try(self):
        return self.parent.in_try() if self.parent else False


class _Root(_Ctx):
    def do_return(self, fr):
        self.b.connect(fr, self.b.exit.id)

    def do_raise(self, fr):
        self.b.connect(fr, self.b.raise_.id, exc=True)

    def do_break(self, fr):     # pragma: no cover  (syntax error in python)
        self.b.connect(fr, self.b.exit.id)

    def do_continue(self, fr):  # pragma: no cover
        self.b.connect(fr, self.b.exit.id)


class _Loop(_Ctx):
    def __init__(self, b, parent, header):
        super().__init__(b, parent)
        self.header = header
        self.breaks = []

    def do_break(self, fr):
        self.breaks.extend(fr)

    def do_continue(self, fr):
        self.b.connect(fr, self.header)


class _TryBody(_Ctx):
    """Body of a try that has handlers."""

    def __init__(self, b, parent, handler_entries, catch_all):
        super().__init__(b, parent)
        self.handler_entries = handler_entries
        self.catch_all = catch_all

    def do_raise(self, fr):
        for h in self.handler_entries:
            self.b.connect(fr, h, exc=True)
        if not self.catch_all:
            self.parent.do_raise(fr)

    def in_try(self):
        return True


class _Finally(_Ctx):
    """Everything lexically inside try/except/else of a try with finally."""

    def __init__(self, b, parent, finalbody, owner, explicit=True):
        super().__init__(b, parent)
        self.finalbody = finalbody
        self.owner = owner
        self.copies = {}

    def _through(self, kind, fr, cont):
        if not fr:
            return
        if kind not in self.copies:
            j = self.b.new("join", self.owner, tag="finally:" + kind)
            out = self.b.seq(self.finalbody, [j.id], self.parent, tag="finally:" + kind)
            self.copies[kind] = j.id
            cont(out)
        self.b.connect(fr, self.copies[kind], exc=(kind == "exc"))

    def do_return(self, fr):
        self._through("return", fr, self.parent.do_return)

    def do_raise(self, fr):
        self._through("exc", fr, self.parent.do_raise)

    def do_break(self, fr):
        self._through("break", fr, self.parent.do_break)

    def do_continue(self, fr):
        self._through("continue", fr, self.parent.do_continue)

    def in_try(self):
        return True


def maximal_names(tree):
    """Maximal dotted chains (a.b.c, not also a.b and a) read in an expression."""
    inner = set()
    out = set()
    for x in ast.walk(tree):
        if isinstance(x, ast.Attribute):
            inner.add(id(x.value))
    for x in ast.walk(tree):
        if isinstance(x, (ast.Attribute, ast.Name)) and id(x) not in inner:
            d = dotted(x)
            if d:
                out.add(d)
    return out


def _is_catch_all(h):
    if h.type is None:
        return True
    names = []
    if isinstance(h.type, ast.Tuple):
        names = [dotted(e) for e in h.type.elts]
    else:
        names = [dotted(h.type)]
    return any(n in CATCH_ALL for n in names if n)


def _const_truth(e):
    if isinstance(e, ast.Constant):
        return bool(e.value)
    return None



_FLIP = {ast.Lt: ast.Gt, ast.Gt: ast.Lt, ast.LtE: ast.GtE, ast.GtE: ast.LtE, ast.Eq: ast.Eq, ast.NotEq: ast.NotEq}
_NEG = {ast.Lt: ast.GtE, ast.GtE: ast.Lt, ast.Gt: ast.LtE, ast.LtE: ast.Gt, ast.Eq: ast.NotEq, ast.NotEq: ast.Eq,
        ast.Is: ast.IsNot, ast.IsNot: ast.Is, ast.In: ast.NotIn, ast.NotIn: ast.In}
_EQUIV_CACHE = {}


def equiv_forms(text, value):
    """All spellings of one atomic test outcome: `a == b` True is also `b == a` True, `a != b` False, `b != a` False;
    `a < b` True is `b > a` True, `a >= b` False, `b <= a` False; `x is None` True is `x is not None` False; likewise in."""
    key = (text, value)
    if key in _EQUIV_CACHE:
        return _EQUIV_CACHE[key]
    out = [(text, value)]
    try:
        e = ast.parse(text, mode="eval").body
    except SyntaxError:
        e = None
    if isinstance(e, ast.Compare) and len(e.ops) == 1:
        op = type(e.ops[0])
        a, b = e.left, e.comparators[0]

        def mk(l, o, r):
            return ast.unparse(ast.Compare(left=l, ops=[o()], comparators=[r]))
        if op in _FLIP:
            out.append((mk(b, _FLIP[op], a), value))
        if op in _NEG:
            out.append((mk(a, _NEG[op], b), not value))
            if _NEG[op] in _FLIP:
                out.append((mk(b, _FLIP[_NEG[op]], a), not value))
    _EQUIV_CACHE[key] = out
    return out


def canon_fact(text, value):
    """One canonical spelling per atomic test outcome: the lexicographically smallest equivalent form that is *true*
    (a plain truthiness test `x` False stays (`x`, False))."""
    forms = equiv_forms(text, value)
    true_forms = sorted(t for t, v in forms if v is True)
    if true_forms:
        return (true_forms[0], True)
    return (sorted(t for t, v in forms)[0], False)


def canon_set(d):
    """Set of canonical facts of a guards/facts dict (equivalent spellings collapse to one)."""
    items = d.items() if isinstance(d, dict) else d
    return {canon_fact(k, v) for k, v in items if isinstance(v, bool)}


def expand_equiv(d):
    """dict test-text -> outcome, closed under the equivalent spellings (never overriding an entry that is already there)."""
    out = dict(d)
    for k, v in list(d.items()):
        if not isinstance(v, bool):
            continue
        for k2, v2 in equiv_forms(k, v):
            out.setdefault(k2, v2)
    return out


class CFG:
    def __init__(self, fn, exc_all=False):
        self.fn = fn
        self.exc_all = exc_all
        self.nodes = []
        self.exc_edges = set()
        self.normal_edges = set()
        self.by_ast = {}        # id(ast node) -> [node ids]
        self.entry = self.new("entry")
        self.exit = self.new("exit")
        self.raise_ = self.new("raise")
        self._cur_tag = None
        root = _Root(self)
        out = self.seq(fn.body, [self.entry.id], root)
        self.connect(out, self.exit.id)
        self._dom = {}
        self._pdom = {}
        self._facts = {}

    # ------------------------------------------------------------- building
    def new(self, kind, node=None, value=None, test=None, tag=None, owner=None):
        n = Node(len(self.nodes), kind, node, value, test, tag or getattr(self, "_cur_tag", None), owner)
        self.nodes.append(n)
        if node is not None:
            self.by_ast.setdefault(id(node), []).append(n.id)
        return n

    def connect(self, fr, to, exc=False):
        for a in fr:
            if to not in self.nodes[a].succ:
                self.nodes[a].succ.append(to)
                self.nodes[to].pred.append(a)
            if exc:
                if (a, to) not in self.normal_edges:
                    self.exc_edges.add((a, to))
            else:
                self.normal_edges.add((a, to))
                self.exc_edges.discard((a, to))

    def _may_raise(self, node):
        for x in node.walk():
            if isinstance(x, (ast.Call, ast.Await, ast.Subscript)):
                return True
        return False

    _LOG = {"debug_log", "info_log", "warning_log", "error_log", "debug", "info", "warning", "error", "log"}

    def _only_logs(self, node):
        """A statement that is nothing but a logging call: by the checker's convention it has no effect and does not raise."""
        a = node.ast
        return node.kind == "stmt" and isinstance(a, ast.Expr) and isinstance(a.value, ast.Call) and isinstance(a.value.func, ast.Attribute) and \
            a.value.func.attr in self._LOG

    def _exc(self, node, ctx):
        """Add exceptional out-edges for a freshly created node."""
        if self._only_logs(node):
            return
        if ctx.in_try() or (self.exc_all and self._may_raise(node)):
            ctx.do_raise([node.id])

    def cond(self, e, fr, ctx, owner):
        """Build nodes for condition e entered from fr.  Returns (true_fr, false_fr)."""
        if isinstance(e, ast.BoolOp) and isinstance(e.op, ast.And):
            t = fr
            falses = []
            for v in e.values:
                t, f = self.cond(v, t, ctx, owner)
                falses += f
            return t, falses
        if isinstance(e, ast.BoolOp) and isinstance(e.op, ast.Or):
            f = fr
            trues = []
            for v in e.values:
                t, f = self.cond(v, f, ctx, owner)
                trues += t
            return trues, f
        if isinstance(e, ast.UnaryOp) and isinstance(e.op, ast.Not):
            t, f = self.cond(e.operand, fr, ctx, owner)
            return f, t
        tn = self.new("test", e, owner=owner)
        self.connect(fr, tn.id)
        self._exc(tn, ctx)
        truth = _const_truth(e)
        tfr, ffr = [], []
        if truth is not False:
            bt = self.new("branch", e, value=True, test=tn.id, owner=owner)
            self.connect([tn.id], bt.id)
            tfr = [bt.id]
        if truth is not True:
            bf = self.new("branch", e, value=False, test=tn.id, owner=owner)
            self.connect([tn.id], bf.id)
            ffr = [bf.id]
        return tfr, ffr

    def seq(self, stmts, fr, ctx, tag=None):
        old = self._cur_tag
        if tag:
            self._cur_tag = tag
        try:
            for st in stmts:
                fr = self.stmt(st, fr, ctx)
            return fr
        finally:
            self._cur_tag = old

    def stmt(self, st, fr, ctx):
        if not fr:
            # unreachable code: still build it (detached) so that anchors exist
            pass
        if isinstance(st, ast.If):
            t, f = self.cond(st.test, fr, ctx, st)
            out = self.seq(st.body, t, ctx)
            out2 = self.seq(st.orelse, f, ctx) if st.orelse else f
            return out + out2
        if isinstance(st, ast.While):
            head = self.new("join", st, owner=st)
            self.connect(fr, head.id)
            lctx = _Loop(self, ctx, head.id)
            t, f = self.cond(st.test, [head.id], ctx, st)
            body_out = self.seq(st.body, t, lctx)
            self.connect(body_out, head.id)
            out = self.seq(st.orelse, f, ctx) if st.orelse else f
            return out + lctx.breaks
        if isinstance(st, (ast.For, ast.AsyncFor)):
            head = self.new("loop", st, owner=st)
            self.connect(fr, head.id)
            self._exc(head, ctx)
            lctx = _Loop(self, ctx, head.id)
            it = self.new("branch", st.iter, value=True, test=head.id, owner=st, tag="iter")
            ex = self.new("branch", st.iter, value=False, test=head.id, owner=st, tag="exhausted")
            self.connect([head.id], it.id)
            self.connect([head.id], ex.id)
            body_out = self.seq(st.body, [it.id], lctx)
            self.connect(body_out, head.id)
            out = self.seq(st.orelse, [ex.id], ctx) if st.orelse else [ex.id]
            return out + lctx.breaks
        if isinstance(st, (ast.With, ast.AsyncWith)):
            w = self.new("with", st, owner=st)
            self.connect(fr, w.id)
            self._exc(w, ctx)
            return self.seq(st.body, [w.id], ctx)
        if isinstance(st, ast.Try) or st.__class__.__name__ == "TryStar":
            return self.try_(st, fr, ctx)
        if isinstance(st, ast.Return):
            n = self.new("stmt", st)
            self.connect(fr, n.id)
            self._exc(n, ctx)
            ctx.do_return([n.id])
            return []
        if isinstance(st, ast.Raise):
            n = self.new("stmt", st)
            self.connect(fr, n.id)
            ctx.do_raise([n.id])
            return []
        if isinstance(st, ast.Break):
            n = self.new("stmt", st)
            self.connect(fr, n.id)
            ctx.do_break([n.id])
            return []
        if isinstance(st, ast.Continue):
            n = self.new("stmt", st)
            self.connect(fr, n.id)
            ctx.do_continue([n.id])
            return []
        if isinstance(st, ast.Assert):
            # an assert that fails stops MPF; model the passing side only,
            # but keep the condition as a fact
            t, f = self.cond(st.test, fr, ctx, st)
            if f:
                ctx.do_raise(f)
            return t
        if st.__class__.__name__ == "Match":
            subj = self.new("stmt", st.subject, owner=st)
            self.connect(fr, subj.id)
            self._exc(subj, ctx)
            out = []
            for case in st.cases:
                out += self.seq(case.body, [subj.id], ctx)
            return out + [subj.id]
        n = self.new("stmt", st)
        self.connect(fr, n.id)
        self._exc(n, ctx)
        return [n.id]

    def try_(self, st, fr, ctx):
        outer = ctx
        if st.finalbody:
            fctx = _Finally(self, ctx, st.finalbody, st)
            inner = fctx
        else:
            fctx = None
            inner = ctx
        handler_nodes = []
        for h in st.handlers:
            hn = self.new("except", h, owner=st)
            handler_nodes.append(hn)
        if st.handlers:
            bctx = _TryBody(self, inner, [h.id for h in handler_nodes], any(_is_catch_all(h) for h in st.handlers))
        else:
            bctx = inner
        body_out = self.seq(st.body, fr, bctx)
        if st.orelse:
            body_out = self.seq(st.orelse, body_out, inner)
        outs = list(body_out)
        for h, hn in zip(st.handlers, handler_nodes):
            outs += self.seq(h.body, [hn.id], inner)
        if fctx is not None:
            j = self.new("join", st, tag="finally:normal", owner=st)
            self.connect(outs, j.id)
            outs = self.seq(st.finalbody, [j.id], outer, tag="finally:normal")
        return outs

    # -------------------------------------------------------------- queries
    def succs(self, nid, ignore_exc=False):
        if not ignore_exc:
            return self.nodes[nid].succ
        return [s for s in self.nodes[nid].succ if (nid, s) not in self.exc_edges]

    def preds(self, nid, ignore_exc=False):
        if not ignore_exc:
            return self.nodes[nid].pred
        return [p for p in self.nodes[nid].pred if (p, nid) not in self.exc_edges]

    def reachable(self, starts, avoid=(), ignore_exc=False, include_start=True):
        avoid = set(avoid)
        seen = set()
        stack = []
        for s in starts:
            if include_start:
                if s not in avoid:
                    stack.append(s)
            else:
                stack.extend(x for x in self.succs(s, ignore_exc) if x not in avoid)
        while stack:
            n = stack.pop()
            if n in seen:
                continue
            seen.add(n)
            for s in self.succs(n, ignore_exc):
                if s not in seen and s not in avoid:
                    stack.append(s)
        return seen

    def live(self, ignore_exc=False):
        return self.reachable([self.entry.id], ignore_exc=ignore_exc)

    def dominators(self, ignore_exc=False):
        key = ignore_exc
        if key in self._dom:
            return self._dom[key]
        live = self.live(ignore_exc)
        order = sorted(live)
        dom = {n: set(live) for n in order}
        dom[self.entry.id] = {self.entry.id}
        changed = True
        while changed:
            changed = False
            for n in order:
                if n == self.entry.id:
                    continue
                ps = [p for p in self.preds(n, ignore_exc) if p in live]
                new = set(live)
                for p in ps:
                    new &= dom[p]
                new = new | {n}
                if new != dom[n]:
                    dom[n] = new
                    changed = True
        self._dom[key] = dom
        return dom

    def dominates(self, a, b, ignore_exc=False):
        d = self.dominators(ignore_exc)
        return b in d and a in d[b]

    def postdominators(self, exits=None, ignore_exc=True):
        """Post-dominators w.r.t. the given exit node ids (default: normal exit)."""
        exits = tuple(sorted(exits if exits is not None else [self.exit.id]))
        key = (exits, ignore_exc)
        if key in self._pdom:
            return self._pdom[key]
        # nodes that can reach an exit
        rev_seen = set()
        stack = list(exits)
        while stack:
            n = stack.pop()
            if n in rev_seen:
                continue
            rev_seen.add(n)
            stack.extend(self.preds(n, ignore_exc))
        order = sorted(rev_seen)
        pd = {n: set(rev_seen) for n in order}
        for e in exits:
            pd[e] = {e}
        changed = True
        while changed:
            changed = False
            for n in order:
                if n in exits:
                    continue
                ss = [s for s in self.succs(n, ignore_exc) if s in rev_seen]
                new = set(rev_seen)
                for s in ss:
                    new &= pd[s]
                new |= {n}
                if new != pd[n]:
                    pd[n] = new
                    changed = True
        self._pdom[key] = pd
        return pd

    def path_avoiding(self, start, ends, avoid, ignore_exc=False, include_start=False):
        """A path (list of node ids) from start to one of `ends` that avoids all
        nodes in `avoid`, or None.  The start node itself is not tested against
        `avoid` unless include_start."""
        avoid = set(avoid)
        ends = set(ends)
        if include_start and start in avoid:
            return None
        prev = {start: None}
        queue = [start]
        while queue:
            n = queue.pop(0)
            if n in ends and (n != start or include_start):
                path = []
                while n is not None:
                    path.append(n)
                    n = prev[n]
                return list(reversed(path))
            for s in self.succs(n, ignore_exc):
                if s in prev or s in avoid:
                    continue
                prev[s] = n
                queue.append(s)
        return None

    def must_pass(self, start, via, ends=None, ignore_exc=True):
        """None if every path from start to `ends` passes a node in `via`
        (after leaving start); else a witness path."""
        ends = ends if ends is not None else [self.exit.id]
        return self.path_avoiding(start, ends, via, ignore_exc)

    def nodes_where(self, pred, live_only=True, ignore_exc=False):
        live = self.live(ignore_exc) if live_only else None
        out = []
        for n in self.nodes:
            if live is not None and n.id not in live:
                continue
            if pred(n):
                out.append(n)
        return out

    def nodes_with(self, pred_ast, kinds=None, live_only=True):
        """Nodes having a sub-expression x (evaluated at that node) with pred_ast(x)."""
        def p(n):
            if kinds and n.kind not in kinds:
                return False
            if n.kind == "branch":
                return False
            return any(pred_ast(x) for x in n.walk())
        return self.nodes_where(p, live_only)

    def calls_named(self, *names, live_only=True):
        """[(node, call)] for calls whose last attribute/function name is in names."""
        out = []
        live = self.live() if live_only else None
        for n in self.nodes:
            if n.kind == "branch" or (live is not None and n.id not in live):
                continue
            for c in n.calls():
                f = c.func
                nm = f.attr if isinstance(f, ast.Attribute) else (f.id if isinstance(f, ast.Name) else None)
                if nm in names:
                    out.append((n, c))
        return out

    # ---------------------------------------------------------------- facts
    def facts(self, ignore_exc=True):
        """Must-facts at node entry: frozenset of (test_src, bool) for atomic
        tests whose outcome holds on every path from entry, killed when a name
        occurring in the test is stored to."""
        key = ignore_exc
        if key in self._facts:
            return self._facts[key]
        live = self.live(ignore_exc)
        order = sorted(live)
        TOP = None
        inn = {n: TOP for n in order}
        out = {n: TOP for n in order}
        inn[self.entry.id] = frozenset()

        def names_of(test_src, cache={}):
            if test_src not in cache:
                try:
                    cache[test_src] = maximal_names(ast.parse(test_src, mode="eval"))
                except SyntaxError:
                    cache[test_src] = set()
            return cache[test_src]

        def transfer(n, facts):
            node = self.nodes[n]
            if node.kind == "branch" and node.tag not in ("iter", "exhausted"):
                return facts | {(src(node.ast), node.value)}
            stores = []
            if node.kind == "stmt":
                stores = assigned_targets(node.ast)
            elif node.kind in ("loop", "with"):
                stores = assigned_targets(node.ast)
            if stores:
                killed = set()
                st = [dotted(t) or src(t) for t in stores]
                # subscripts: kill on the base as well
                for t in stores:
                    if isinstance(t, ast.Subscript):
                        d = dotted(t.value)
                        if d:
                            st.append(d)
                for f in facts:
                    ns = names_of(f[0])
                    for s in st:
                        if any(nm == s or nm.startswith(s + ".") or s.startswith(nm + ".") for nm in ns):
                            killed.add(f)
                            break
                if killed:
                    return facts - killed
            return facts

        changed = True
        while changed:
            changed = False
            for n in order:
                if n != self.entry.id:
                    ps = [p for p in self.preds(n, ignore_exc) if p in live and out[p] is not TOP]
                    if not ps:
                        continue
                    new = out[ps[0]]
                    for p in ps[1:]:
                        new = new & out[p]
                    if inn[n] is TOP or new != inn[n]:
                        inn[n] = new
                        changed = True
                if inn[n] is TOP:
                    continue
                o = transfer(n, inn[n])
                if out[n] is TOP or o != out[n]:
                    out[n] = o
                    changed = True
        res = {n: (inn[n] if inn[n] is not TOP else frozenset()) for n in order}
        self._facts[key] = res
        return res

    def guards_at(self, nid, ignore_exc=True):
        """Outcomes of atomic tests whose branch node dominates nid (no kill on
        stores: 'the test had that outcome when it was evaluated')."""
        dom = self.dominators(ignore_exc).get(nid, ())
        out = {}
        for d in dom:
            n = self.nodes[d]
            if n.kind == "branch" and n.tag not in ("iter", "exhausted"):
                out[src(n.ast)] = n.value
        return expand_equiv(out)

    def compound_guards_at(self, nid):
        """Outcomes of *compound* tests that the atomic branch facts cannot express: the node sits in the body of `if A or B:` (the
        disjunction held) or in the else-part of `if A and B:` (the conjunction failed).  Structural: the statement is nested in
        that arm of the compound statement, which is only entered with that outcome.  text -> outcome."""
        n = self.nodes[nid]
        target = n.ast
        out = {}
        if target is None:
            return out

        def inside(stmts):
            return any(y is target for st in stmts for y in ast.walk(st))
        for x in ast.walk(self.fn):
            if not isinstance(x, (ast.If, ast.While)):
                continue
            t, pol = x.test, True
            while isinstance(t, ast.UnaryOp) and isinstance(t.op, ast.Not):
                t, pol = t.operand, not pol
            if not isinstance(t, ast.BoolOp):
                continue
            arm = None
            if inside(x.body):
                arm = pol
            elif isinstance(x, ast.If) and inside(x.orelse):
                arm = not pol
            elif isinstance(x, ast.If) and not x.orelse and isinstance(x.body[-1], (ast.Continue, ast.Break, ast.Return, ast.Raise)):
                # guard clause: what follows it in the same block runs only when the test failed
                for par in ast.walk(self.fn):
                    for fld in ("body", "orelse", "finalbody"):
                        lst = getattr(par, fld, None)
                        if isinstance(lst, list) and any(y is x for y in lst):
                            i = [k for k, y in enumerate(lst) if y is x][0]
                            if inside(lst[i + 1:]):
                                arm = not pol
            if arm is None:
                continue
            def holds(e, v):
                while isinstance(e, ast.UnaryOp) and isinstance(e.op, ast.Not):
                    e, v = e.operand, not v
                if not isinstance(e, ast.BoolOp):
                    return
                if (isinstance(e.op, ast.Or) and v is True) or (isinstance(e.op, ast.And) and v is False):
                    out[src(e)] = v
                else:       # a conjunction that held / a disjunction that failed: every operand has that outcome
                    for o in e.values:
                        holds(o, v)
            holds(t, arm)
        return out

    def facts_at(self, nid, ignore_exc=True):
        raw = self.facts(ignore_exc).get(nid, frozenset())
        return frozenset(expand_equiv(dict(raw)).items())

    # ---------------------------------------------------------------- paths
    def paths(self, start=None, ends=None, max_visits=1, limit=4000, ignore_exc=True):
        """Enumerate paths start -> ends; each node at most max_visits times."""
        start = self.entry.id if start is None else start
        ends = set(ends if ends is not None else [self.exit.id])
        out = []
        count = {}

        def rec(n, path):
            if len(out) >= limit:
                return
            path.append(n)
            count[n] = count.get(n, 0) + 1
            if n in ends:
                out.append(list(path))
            else:
                for s in self.succs(n, ignore_exc):
                    if count.get(s, 0) < max_visits:
                        rec(s, path)
            count[n] -= 1
            path.pop()
        import sys
        old = sys.getrecursionlimit()
        sys.setrecursionlimit(max(old, 10000))
        try:
            rec(start, [])
        finally:
            sys.setrecursionlimit(old)
        return out

    def fmt_path(self, path, relpath=""):
        out = []
        for n in path:
            node = self.nodes[n]
            if node.kind in ("join",):
                continue
            out.append("%s:%s %s" % (relpath, node.lineno if node.lineno else "-", node.text()))
        return out

    def stats(self):
        return {"nodes": len(self.nodes), "edges": sum(len(n.succ) for n in self.nodes)}


def build_cfg(fn_node, exc_all=False):
    return CFG(fn_node, exc_all=exc_all)
