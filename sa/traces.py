"""Event-trace abstraction of coroutines: the language of event names a method
can post (sequencing, if -> alternation, while/for -> star, calls to methods
of the same class inlined), as an NFA; inclusion in a specification given as
a regular expression over event names is decided by the product construction.
All syntactic paths are considered feasible (so the check can only be too
strict), except guards listed by the rule as assumed-false."""
import ast

from sa.model import src, dotted, call_attr, kwarg

POSTS = {"post", "post_async", "post_queue", "post_queue_async", "post_relay", "post_relay_async", "post_boolean"}


class NFA:
    def __init__(self):
        self.n = 0
        self.eps = {}
        self.tr = {}

    def new(self):
        self.n += 1
        return self.n - 1

    def add(self, a, label, b):
        if label is None:
            self.eps.setdefault(a, set()).add(b)
        else:
            self.tr.setdefault(a, []).append((label, b))

    def closure(self, states):
        seen = set(states)
        st = list(states)
        while st:
            s = st.pop()
            for t in self.eps.get(s, ()):
                if t not in seen:
                    seen.add(t)
                    st.append(t)
        return frozenset(seen)


def event_label(call):
    e = call.args[0] if call.args else kwarg(call, "event")
    if e is None:
        return None
    if isinstance(e, ast.Constant) and isinstance(e.value, str):
        return e.value
    # 'player_{}_ball_started'.format(x) -> 'player_*_ball_started'
    if isinstance(e, ast.Call) and isinstance(e.func, ast.Attribute) and e.func.attr == "format" and isinstance(e.func.value, ast.Constant):
        return e.func.value.value.replace("{}", "*")
    return "<dynamic>"


class TraceBuilder:
    def __init__(self, repo, cls, alphabet=None, assumed_false=(), max_depth=6):
        self.repo = repo
        self.cls = cls
        self.alphabet = alphabet        # set of labels kept (None = all)
        self.assumed_false = set(assumed_false)     # (method name, test source) pairs never true
        self.max_depth = max_depth
        self.nfa = NFA()
        self.sites = {}                 # label -> [(func, lineno)]
        self.inlined = set()
        self.inlined_funcs = {}

    def build(self, func):
        start = self.nfa.new()
        end = self.nfa.new()
        outs = self._seq(func.node.body, {start}, func, 0, end, [])
        for o in outs:
            self.nfa.add(o, None, end)
        return start, end

    # returns set of states after the statements; `ret` is the state a `return` jumps to
    def _seq(self, stmts, ins, func, depth, ret, stack):
        cur = set(ins)
        for st in stmts:
            cur = self._stmt(st, cur, func, depth, ret, stack)
            if not cur:
                break
        return cur

    def _join(self, ins):
        s = self.nfa.new()
        for i in ins:
            self.nfa.add(i, None, s)
        return s

    def _calls_in_order(self, node):
        out = []

        def rec(x):
            for ch in ast.iter_child_nodes(x):
                if isinstance(ch, (ast.FunctionDef, ast.AsyncFunctionDef, ast.Lambda, ast.ClassDef)):
                    continue
                rec(ch)
            if isinstance(x, ast.Call):
                out.append(x)
        rec(node)
        return out

    def _expr(self, node, ins, func, depth, ret, stack):
        cur = set(ins)
        for c in self._calls_in_order(node):
            nm = call_attr(c)
            recv = dotted(c.func.value) if isinstance(c.func, ast.Attribute) else None
            if nm in POSTS and recv and recv.endswith("events"):
                lab = event_label(c)
                if lab is not None and (self.alphabet is None or lab in self.alphabet or
                                        any(_glob(a, lab) for a in (self.alphabet or ()))):
                    s = self._join(cur)
                    t = self.nfa.new()
                    self.nfa.add(s, lab, t)
                    self.sites.setdefault(lab, []).append((func.qualname, c.lineno))
                    cur = {t}
            elif recv == "self" and nm and depth < self.max_depth:
                m = self.repo.lookup_method(self.cls, nm)
                if m is not None and m.qualname not in stack:
                    self.inlined.add(m.qualname)
                    self.inlined_funcs[m.ident] = m
                    s = self._join(cur)
                    r2 = self.nfa.new()
                    outs = self._seq(m.node.body, {s}, m, depth + 1, r2, stack + [m.qualname])
                    for o in outs:
                        self.nfa.add(o, None, r2)
                    cur = {r2}
        return cur

    def _stmt(self, st, ins, func, depth, ret, stack):
        if isinstance(st, (ast.FunctionDef, ast.AsyncFunctionDef, ast.ClassDef)):
            return ins
        if isinstance(st, ast.If):
            t = src(st.test)
            c0 = self._expr(st.test, ins, func, depth, ret, stack)
            if (func.name, t) in self.assumed_false:
                return self._seq(st.orelse, c0, func, depth, ret, stack) if st.orelse else c0
            a = self._seq(st.body, c0, func, depth, ret, stack)
            b = self._seq(st.orelse, c0, func, depth, ret, stack) if st.orelse else c0
            return a | b
        if isinstance(st, (ast.While, ast.For, ast.AsyncFor)):
            head = self._join(ins)
            c0 = self._expr(st.test if isinstance(st, ast.While) else st.iter, {head}, func, depth, ret, stack)
            body = self._seq(st.body, c0, func, depth, ret, stack)
            for o in body:
                self.nfa.add(o, None, head)
            out = set(c0)
            if isinstance(st, ast.While) and isinstance(st.test, ast.Constant) and st.test.value:
                out = set()
            return out
        if isinstance(st, (ast.With, ast.AsyncWith)):
            cur = ins
            for it in st.items:
                cur = self._expr(it.context_expr, cur, func, depth, ret, stack)
            return self._seq(st.body, cur, func, depth, ret, stack)
        if isinstance(st, ast.Try):
            a = self._seq(st.body, ins, func, depth, ret, stack)
            outs = set(a)
            for h in st.handlers:
                outs |= self._seq(h.body, ins | a, func, depth, ret, stack)
            if st.orelse:
                outs = self._seq(st.orelse, a, func, depth, ret, stack) | (outs - a)
            if st.finalbody:
                outs = self._seq(st.finalbody, outs, func, depth, ret, stack)
            return outs
        if isinstance(st, ast.Return):
            cur = self._expr(st.value, ins, func, depth, ret, stack) if st.value is not None else ins
            for o in cur:
                self.nfa.add(o, None, ret)
            return set()
        if isinstance(st, ast.Raise):
            return set()
        return self._expr(st, ins, func, depth, ret, stack)


def _glob(pat, s):
    if "*" not in pat:
        return pat == s
    import fnmatch
    return fnmatch.fnmatchcase(s, pat)


# --------------------------------------------------------------- spec regex
def spec_nfa(spec):
    """spec: nested tuples ('seq', a, b, ...), ('alt', ...), ('star', x), ('plus', x), ('opt', x) or a token string."""
    n = NFA()

    def rec(x):
        if isinstance(x, str):
            a, b = n.new(), n.new()
            n.add(a, x, b)
            return a, b
        op = x[0]
        if op == "seq":
            a = n.new()
            cur = a
            for y in x[1:]:
                s, e = rec(y)
                n.add(cur, None, s)
                cur = e
            return a, cur
        if op == "alt":
            a, b = n.new(), n.new()
            for y in x[1:]:
                s, e = rec(y)
                n.add(a, None, s)
                n.add(e, None, b)
            return a, b
        if op in ("star", "plus", "opt"):
            a, b = n.new(), n.new()
            s, e = rec(x[1])
            n.add(a, None, s)
            n.add(e, None, b)
            if op in ("star", "opt"):
                n.add(a, None, b)
            if op in ("star", "plus"):
                n.add(e, None, s)
            return a, b
        raise ValueError(op)
    s, e = rec(spec)
    return n, s, e


def included(impl, istart, iend, spec, sstart, send, limit=200000):
    """None if L(impl) subset of L(spec), else a counterexample trace (list of labels)."""
    i0 = impl.closure({istart})
    s0 = spec.closure({sstart})
    seen = {(i0, s0)}
    queue = [(i0, s0, [])]
    steps = 0
    while queue:
        I, S, trace = queue.pop(0)
        steps += 1
        if steps > limit:
            return ["<state limit reached>"]
        if iend in I and send not in S:
            return trace + ["<end>"]
        labels = {}
        for st in I:
            for lab, t in impl.tr.get(st, ()):
                labels.setdefault(lab, set()).add(t)
        for lab, targets in sorted(labels.items()):
            I2 = impl.closure(targets)
            S2 = set()
            for st in S:
                for l2, t in spec.tr.get(st, ()):
                    if _glob(l2, lab):
                        S2.add(t)
            S2 = spec.closure(S2)
            if not S2:
                return trace + [lab]
            key = (I2, S2)
            if key not in seen:
                seen.add(key)
                queue.append((I2, S2, trace + [lab]))
    return None
