"""Dimension inference for time quantities: ms, s, abs (a point on the loop
clock, seconds), num (dimensionless), None (unknown).  Unknown never reports.

Seeds: config spec types of `self.config[...]` (ms / secs / template_ms /
template_secs), API signatures (frozen table below), name conventions."""
import ast
import re

from sa.model import src, dotted, call_attr, kwarg, walk_local, const_value

MS, S, ABS, NUM = "ms", "s", "abs", "num"

# parameters of repository / asyncio APIs: name -> {param: dim} and positional index -> dim
API = {
    # DelayManager
    "add": {"kw": {"ms": MS}, "pos": {0: MS}, "recv": ("delay",)},
    "reset": {"kw": {"ms": MS}, "pos": {0: MS}, "recv": ("delay",)},
    "add_if_doesnt_exist": {"kw": {"ms": MS}, "pos": {0: MS}, "recv": ("delay",)},
    # switch controller
    "add_switch_handler": {"kw": {"ms": MS}, "pos": {3: MS}},
    "add_switch_handler_obj": {"kw": {"ms": MS}, "pos": {3: MS}},
    "remove_switch_handler": {"kw": {"ms": MS}, "pos": {3: MS}},
    "wait_for_switch": {"kw": {"ms": MS}},
    "wait_for_any_switch": {"kw": {"ms": MS}},
    "is_state": {"kw": {"ms": MS}, "pos": {2: MS}},
    "is_active": {"kw": {"ms": MS}, "pos": {1: MS}},
    "is_inactive": {"kw": {"ms": MS}, "pos": {1: MS}},
    # clock / loop
    "schedule_once": {"kw": {"timeout": S}, "pos": {1: S}},
    "schedule_interval": {"kw": {"timeout": S}, "pos": {1: S}},
    "call_later": {"pos": {0: S}},
    "call_at": {"pos": {0: ABS}},
    "sleep": {"pos": {0: S}, "recv": ("asyncio",)},
    "wait_for": {"kw": {"timeout": S}, "pos": {1: S}, "recv": ("asyncio",)},
    "first": {"kw": {"timeout": S}, "recv": ("Util",)},
    "any": {"kw": {"timeout": S}, "recv": ("Util",)},
    "race": {"kw": {"timeout": S}, "recv": ("Util",)},
    # driver
    "pulse": {"kw": {"pulse_ms": MS, "max_wait_ms": MS}},
    "timed_enable": {"kw": {"timed_enable_ms": MS, "pulse_ms": MS}},
    "PulseSettings": {"kw": {"duration": MS}, "pos": {1: MS}},
}

RETURNS = {
    "get_time": ABS, "time": None, "string_to_ms": MS, "string_to_secs": S, "get_ms_since_last_change": MS,
    "get_max_fade_ms": MS,
}

ABS_NAMES = {"current_time", "timestamp", "last_change", "next_event_time", "start_time", "dest_time", "next_step_time",
             "now", "target_time", "_last_call", "recycle_clear_time"}


def name_dim(name):
    if name is None:
        return None
    last = name.split(".")[-1]
    if last == "ms" or last.endswith("_ms") or last == "msec":
        return MS
    if last in ("secs", "seconds", "sec") or last.endswith("_secs") or last.endswith("_seconds") or last.endswith("_sec"):
        return S
    if last in ABS_NAMES:
        return ABS
    return None


class Units:
    def __init__(self, repo, spec=None):
        self.repo = repo
        self.spec = spec     # config spec Map (section -> key -> 'single|ms|0')
        self.mismatches = []

    # ------------------------------------------------------------- config
    def config_dim(self, func, key):
        if self.spec is None or func is None or func.cls is None:
            return None
        sect = None
        for k in self.repo.mro(func.cls):
            v = k.attrs.get("config_section")
            if v is not None and isinstance(v, ast.Constant) and isinstance(v.value, str):
                sect = v.value
                break
        if sect is None or sect not in self.spec:
            return None
        entry = self.spec[sect].get(key)
        if not isinstance(entry, str):
            return None
        parts = entry.split("|")
        if len(parts) < 2:
            return None
        t = parts[1]
        t = t.split(":")[-1] if parts[0] in ("dict",) else t
        return {"ms": MS, "secs": S, "template_ms": MS, "template_secs": S, "ms_or_token": MS}.get(t)

    # --------------------------------------------------------------- expr
    def dim(self, e, func=None, env=None):
        env = env or {}
        if e is None:
            return None
        if isinstance(e, ast.Constant):
            return NUM if isinstance(e.value, (int, float)) and not isinstance(e.value, bool) else None
        if isinstance(e, ast.Name):
            if e.id in env and env[e.id] is not None:
                return env[e.id]
            return name_dim(e.id)
        if isinstance(e, ast.Attribute):
            d = dotted(e)
            if d in env and env[d] is not None:
                return env[d]
            return name_dim(e.attr)
        if isinstance(e, ast.Subscript):
            # self.config['key'] / settings['key']
            if isinstance(e.slice, ast.Constant) and isinstance(e.slice.value, str):
                base = dotted(e.value)
                if base in ("self.config",):
                    d = self.config_dim(func, e.slice.value)
                    if d:
                        return d
                return name_dim(e.slice.value)
            return self.dim(e.value, func, env) if isinstance(e.value, ast.Subscript) else None
        if isinstance(e, ast.Call):
            n = call_attr(e)
            if n in RETURNS and RETURNS[n]:
                return RETURNS[n]
            if n == "time" and dotted(e.func) and dotted(e.func).endswith("loop.time"):
                return ABS
            if n in ("evaluate", "evaluate_or_none") and isinstance(e.func, ast.Attribute):
                return self.dim(e.func.value, func, env)
            if n in ("min", "max", "round", "int", "float", "abs") and e.args:
                ds = [self.dim(a, func, env) for a in e.args]
                ds = [d for d in ds if d not in (None, NUM)]
                return ds[0] if ds and all(d == ds[0] for d in ds) else None
            if n == "get" and isinstance(e.func, ast.Attribute) and e.args and isinstance(e.args[0], ast.Constant) \
                    and isinstance(e.args[0].value, str):
                return name_dim(e.args[0].value)
            return None
        if isinstance(e, ast.UnaryOp):
            return self.dim(e.operand, func, env)
        if isinstance(e, ast.IfExp):
            a, b = self.dim(e.body, func, env), self.dim(e.orelse, func, env)
            return a if a == b else (a if b in (None, NUM) else (b if a in (None, NUM) else None))
        if isinstance(e, ast.BinOp):
            l, r = self.dim(e.left, func, env), self.dim(e.right, func, env)
            lv, rv = const_value(e.left), const_value(e.right)
            if isinstance(e.op, (ast.Div, ast.FloorDiv)):
                if l == MS and rv in (1000, 1000.0):
                    return S
                if l in (S, ABS) and rv in (1000, 1000.0):
                    return "s/1000"
                if r == NUM or r is None:
                    return l if r == NUM else None
                return None
            if isinstance(e.op, ast.Mult):
                if l == S and rv in (1000, 1000.0):
                    return MS
                if r == S and lv in (1000, 1000.0):
                    return MS
                if l == MS and rv in (1000, 1000.0):
                    return "ms*1000"
                if ABS in (l, r):
                    return None     # a clock reading scaled: not tracked
                if l in (None, NUM):
                    return r if l == NUM else None
                if r in (None, NUM):
                    return l if r == NUM else None
                return None
            if isinstance(e.op, (ast.Add, ast.Sub)):
                if l is None or r is None:
                    return None
                if l == NUM and r == NUM:
                    return NUM
                if NUM in (l, r):
                    return l if r == NUM else r
                if l == ABS and r == ABS:
                    return S if isinstance(e.op, ast.Sub) else None
                if l == ABS and r == S:
                    return ABS
                if l == S and r == ABS and isinstance(e.op, ast.Add):
                    return ABS
                if l == r:
                    return l
                self.mismatches.append((e, l, r))
                return None
            if isinstance(e.op, ast.Mod):
                if l == ABS:
                    return r if r in (S,) else None
                return l
        return None

    def env_for(self, func):
        """Flow-insensitive environment: parameters by name, locals whose
        every assignment has one and the same known dimension."""
        env = {}
        seen = {}
        for _ in range(2):
            for n in walk_local(func.node):
                if isinstance(n, ast.Assign) and len(n.targets) == 1:
                    t = n.targets[0]
                    key = dotted(t)
                    if key is None:
                        continue
                    d = self.dim(n.value, func, env)
                    seen.setdefault(key, set()).add(d)
            for k, ds in seen.items():
                ds2 = {d for d in ds if d is not None}
                if len(ds2) == 1 and None not in ds and name_dim(k) in (None, list(ds2)[0]):
                    env[k] = list(ds2)[0]
            seen = {}
        return env

    # --------------------------------------------------------------- scan
    def scan_function(self, func):
        """Yield (kind, node, detail) mismatches in func: 'arith' (a+b with
        different known dimensions), 'sink' (argument of a typed API),
        'compare' (comparison across dimensions), 'assign' (x_ms = <s>)."""
        env = self.env_for(func)
        out = []
        self.mismatches = []
        for n in walk_local(func.node, include_lambda=True):
            if isinstance(n, ast.BinOp):
                self.dim(n, func, env)
            elif isinstance(n, ast.Call):
                nm = call_attr(n)
                sig = API.get(nm)
                if sig:
                    rv = dotted(n.func.value) if isinstance(n.func, ast.Attribute) else None
                    if "recv" in sig and not (rv and any(rv == r or rv.endswith("." + r) or rv.endswith(r) for r in sig["recv"])):
                        continue
                    for k in n.keywords:
                        want = sig.get("kw", {}).get(k.arg)
                        if want:
                            got = self.dim(k.value, func, env)
                            if got and got != want and got != NUM:
                                out.append(("sink", k.value, "%s(%s=…) expects %s, got %s: %s" % (nm, k.arg, want, got, src(k.value))))
                    for i, a in enumerate(n.args):
                        want = sig.get("pos", {}).get(i)
                        if want and not isinstance(a, ast.Starred):
                            got = self.dim(a, func, env)
                            if got and got != want and got != NUM:
                                out.append(("sink", a, "%s(arg %d) expects %s, got %s: %s" % (nm, i, want, got, src(a))))
            elif isinstance(n, ast.Compare) and len(n.ops) == 1:
                l = self.dim(n.left, func, env)
                r = self.dim(n.comparators[0], func, env)
                if l and r and l != r and NUM not in (l, r):
                    out.append(("compare", n, "compares %s with %s: %s" % (l, r, src(n))))
            elif isinstance(n, ast.Assign) and len(n.targets) == 1:
                want = name_dim(dotted(n.targets[0]) or "")
                got = self.dim(n.value, func, env)
                if want and got and want != got and got != NUM:
                    out.append(("assign", n, "%s is %s by name but assigned %s: %s" % (src(n.targets[0]), want, got, src(n.value))))
        seen = set()
        for e, l, r in self.mismatches:
            if id(e) in seen:
                continue
            seen.add(id(e))
            out.append(("arith", e, "%s %s %s: %s" % (l, "+" if isinstance(e.op, ast.Add) else "-", r, src(e))))
        return out


def load_spec(repo):
    from sa import yamlmini
    return yamlmini.load(repo.read_text("mpf/config_spec.yaml"), "mpf/config_spec.yaml")
