"""Whole-repository use index: every syntactic use of an attribute name or a
bare name, with its enclosing scope, whether it is the callee of a call or a
value reference (a *deferred* edge when handed to a scheduler/registrar)."""
import ast

from sa.model import dotted, FUNC_TYPES


class Use:
    __slots__ = ("module", "scope", "cls", "func", "node", "call", "name", "store", "parent")

    def __init__(self, module, scope, cls, func, node, call, name, store, parent):
        self.module = module
        self.scope = scope      # 'Class.method', 'function', 'Class' (class body) or '<module>'
        self.cls = cls          # enclosing top-level class name or None
        self.func = func        # Func object of the enclosing top-level function/method or None
        self.node = node        # ast.Attribute / ast.Name
        self.call = call        # ast.Call when node is the callee
        self.name = name
        self.store = store      # True when ctx is Store/Del
        self.parent = parent    # parent AST node

    @property
    def relpath(self):
        return self.module.relpath

    @property
    def recv(self):
        return self.node.value if isinstance(self.node, ast.Attribute) else None

    @property
    def recv_text(self):
        r = self.recv
        return dotted(r) if r is not None else None

    @property
    def ident(self):
        return "%s::%s" % (self.module.relpath, self.scope)

    def where(self):
        return "%s:%s" % (self.module.relpath, getattr(self.node, "lineno", 0))

    @property
    def is_call(self):
        return self.call is not None

    def __repr__(self):
        return "<Use %s %s in %s%s>" % (self.name, self.where(), self.scope, " call" if self.call else "")


class UseIndex:
    def __init__(self, repo):
        self.repo = repo
        self.attr = {}
        self.name = {}
        for m in repo.modules.values():
            cached = getattr(m, "_uses", None)
            if cached is None:
                a, n = {}, {}
                save_a, save_n = self.attr, self.name
                self.attr, self.name = a, n
                self._walk_module(m)
                self.attr, self.name = save_a, save_n
                m._uses = (a, n)
                cached = m._uses
            for k, v in cached[0].items():
                self.attr.setdefault(k, []).extend(v)
            for k, v in cached[1].items():
                self.name.setdefault(k, []).extend(v)

    def _walk_module(self, m):
        def visit(node, scope, cls, func, parent):
            for child in ast.iter_child_nodes(node):
                c_scope, c_cls, c_func = scope, cls, func
                if isinstance(child, ast.ClassDef) and func is None and cls is None:
                    c_cls = child.name
                    c_scope = child.name
                elif isinstance(child, FUNC_TYPES) and func is None:
                    if cls is not None:
                        c_func = m.classes[cls].methods.get(child.name) if cls in m.classes else None
                        if c_func is not None and c_func.node is not child:
                            c_func = None   # shadowed duplicate definition
                        c_scope = cls + "." + child.name
                    else:
                        c_func = m.functions.get(child.name)
                        if c_func is not None and c_func.node is not child:
                            c_func = None
                        c_scope = child.name
                if isinstance(child, ast.Attribute):
                    call = node if (isinstance(node, ast.Call) and node.func is child) else None
                    u = Use(m, scope, cls, func, child, call, child.attr,
                            isinstance(child.ctx, (ast.Store, ast.Del)), node)
                    self.attr.setdefault(child.attr, []).append(u)
                elif isinstance(child, ast.Name):
                    call = node if (isinstance(node, ast.Call) and node.func is child) else None
                    u = Use(m, scope, cls, func, child, call, child.id,
                            isinstance(child.ctx, (ast.Store, ast.Del)), node)
                    self.name.setdefault(child.id, []).append(u)
                visit(child, c_scope, c_cls, c_func, node)
        visit(m.tree, "<module>", None, None, None)

    def uses(self, name, attrs=True, names=False):
        out = []
        if attrs:
            out += self.attr.get(name, [])
        if names:
            out += self.name.get(name, [])
        return out


def get_index(repo):
    idx = getattr(repo, "_use_index", None)
    if idx is None:
        idx = UseIndex(repo)
        repo._use_index = idx
    return idx
