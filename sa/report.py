"""Obligation bookkeeping, known findings, evidence and replay files."""
import hashlib
import json
import os
import time

from sa.model import AnalysisError, norm_text

VERIF = os.path.dirname(os.path.dirname(os.path.abspath(__file__)))
KNOWN_FILE = os.path.join(VERIF, "known_findings.json")
EVIDENCE_DIR = os.path.join(VERIF, "evidence")
REPLAY_DIR = os.path.join(EVIDENCE_DIR, "replay")


def load_known():
    if not os.path.isfile(KNOWN_FILE):
        return {"known": [], "fixed": []}
    with open(KNOWN_FILE) as fh:
        d = json.load(fh)
    d.setdefault("known", [])
    d.setdefault("fixed", [])
    return d


class StopCheck(Exception):
    """Raised by Check.need after it has recorded a missing step: the rest of this property's rules cannot be evaluated,
    the run ends with the violation already recorded."""


def run_rules(mod, chk):
    chk.repo.on_func = chk.analysed      # every function a rule asks the repository for by name counts as analysed
    try:
        mod.check(chk)
    except StopCheck:
        pass
    else:
        chk.repo.on_func = None
        from sa import generic
        generic.whole_collection_loops(chk)
        generic.index_truthiness(chk)
        generic.delay_names(chk)
        generic.round_once_last(chk)
        generic.loops_iterate(chk)
        generic.params_not_cross_bound(chk)
        generic.params_not_dropped(chk)
        generic.subscriptions_rearmed(chk)
        generic.memoised_functions(chk)
        generic.config_not_mutated(chk)
        generic.class_state_not_shared(chk)
        generic.per_trip_objects_registered(chk)
        generic.containers_not_mutated_while_iterated(chk)
        generic.flag_brackets_closed(chk)
        generic.overrides_keep_event_priority(chk)
        generic.waiting_loops_resample(chk)
        generic.per_item_values_fresh(chk)
    chk.repo.on_func = None
    return chk


class Check:
    """One run of one property's rules."""

    def __init__(self, prop, tier, repo, seed=0, quiet=False):
        self.prop = prop
        self.tier = tier
        self.repo = repo
        self.seed = seed
        self.quiet = quiet
        self.t0 = time.time()
        self.obligations = []      # dicts
        self.violations = []       # dicts
        self.observations = []
        self.rule_counts = {}
        self.floors = {}
        self.funcs_analysed = set()
        self.assumptions = []
        self.battery = None
        self.explanation = ""
        self.exhaustive = True
        self.extra = {}
        self.pending_errors = []

    # --------------------------------------------------------------- record
    def analysed(self, *funcs):
        for f in funcs:
            if f is not None:
                self.funcs_analysed.add(f.ident)

    def ob(self, rule, instance, ok, where, detail="", construct=None, text=None, path=None, nontrivial=True):
        """Record one obligation.

        rule       e.g. 'QDISC-1'
        instance   human description of the instance
        ok         verdict
        where      'file:line'
        construct  stable identity of the construct (module::qualname); used in the finding key
        text       normalised text of the offending statement/expression (for the key)
        path       optional list of 'file:line stmt' strings (witness path)
        """
        self.rule_counts[rule] = self.rule_counts.get(rule, 0) + 1
        rec = {"rule": rule, "instance": instance, "ok": bool(ok), "where": where, "nontrivial": bool(nontrivial)}
        if detail:
            rec["detail"] = detail
        self.obligations.append(rec)
        if not ok:
            key = "%s|%s|%s" % (rule, construct or where.rsplit(":", 1)[0], norm_text(text if text is not None else instance))
            v = dict(rec)
            v["key"] = key
            if path:
                v["path"] = path
            self.violations.append(v)
        return bool(ok)

    def observe(self, rule, text, where):
        self.observations.append({"rule": rule, "text": text, "where": where})

    def floor(self, rule, minimum):
        """Instance-count floor: fewer instances than confirmed by hand means
        the rule lost its anchors -> analysis error (never a silent pass)."""
        self.floors[rule] = minimum

    def require(self, cond, msg):
        """Hard requirement: the analysis cannot continue without it."""
        if not cond:
            raise AnalysisError(msg)

    def missing(self, rule, what, f, detail=""):
        """A step the rule is about is no longer present in a function that still exists: that is a verdict
        on the code (the required step was dropped), not a failure of the analysis.  Use only for steps whose
        absence from `f` breaks the property; a step that merely moved into a helper must be searched for
        there by the caller before calling this."""
        self.ob(rule, "required step present: " + what, False, f.where(), detail=detail or "the step was not found on any path of " + f.qualname,
                construct=f.ident, text="missing: " + what)

    def need(self, cond, rule, what, f, detail=""):
        """An essential step: when it is missing record the violation and stop evaluating this property."""
        if not cond:
            self.missing(rule, what, f, detail)
            raise StopCheck()

    def expect(self, cond, msg):
        """Soft requirement (anchor / instance count): reported as an analysis
        error at the end of the run unless the run found violations -- a
        violation that also removes an anchor is still a violation."""
        if not cond:
            self.pending_errors.append(msg)

    def assume(self, text):
        if text not in self.assumptions:
            self.assumptions.append(text)

    # --------------------------------------------------------------- finish
    def check_floors(self):
        for rule, minimum in self.floors.items():
            got = self.rule_counts.get(rule, 0)
            if got < minimum:
                raise AnalysisError("rule %s matched %d instance(s), floor is %d: anchors lost" % (rule, got, minimum))
        if self.pending_errors:
            raise AnalysisError("; ".join(self.pending_errors))

    def finish(self, write=True):
        known = load_known()
        known_keys = {}
        for k in known["known"]:
            if k.get("property") == self.prop:
                known_keys[k["key"]] = k
        new, listed = [], []
        seen = set()
        for v in self.violations:
            if v["key"] in seen:
                continue
            seen.add(v["key"])
            if v["key"] in known_keys:
                listed.append((v, known_keys[v["key"]]))
            else:
                new.append(v)
        if not new:
            self.check_floors()
        lines = []
        for v, k in listed:
            lines.append("KNOWN-FINDING: property=%s %s %s @ %s" % (self.prop, v["rule"], k.get("what", v["instance"]), v["where"]))
        replay_paths = []
        for v in new:
            h = hashlib.sha256(v["key"].encode()).hexdigest()[:12]
            rp = os.path.join(REPLAY_DIR, "%s-%s.json" % (self.prop, h))
            if write:
                os.makedirs(REPLAY_DIR, exist_ok=True)
                with open(rp, "w") as fh:
                    json.dump({"property": self.prop, "rule": v["rule"], "instance": v["instance"],
                               "where": v["where"], "detail": v.get("detail", ""), "key": v["key"],
                               "path": v.get("path", [])}, fh, indent=1)
            replay_paths.append(rp)
            lines.append("  %s %s: %s @ %s%s" % (self.prop, v["rule"], v["instance"], v["where"],
                                                 (" -- " + v["detail"]) if v.get("detail") else ""))
            for p in v.get("path", [])[:25]:
                lines.append("      | " + p)
            lines.append("VIOLATION property=%s replay=%s" % (self.prop, rp))
        n_ob = len(self.obligations)
        n_ok = sum(1 for o in self.obligations if o["ok"])
        distinct = len({(o["rule"], o["instance"], o["where"]) for o in self.obligations if o["nontrivial"]})
        wall = time.time() - self.t0
        summary = "%s %s: %d obligations, %d discharged, %d new violation(s), %d known, %d observation(s), %d functions, %.2fs" % (
            self.prop, self.tier, n_ob, n_ok, len(new), len(listed), len(self.observations), len(self.funcs_analysed), wall)
        if write:
            self._write_evidence(n_ob, n_ok, distinct, new, listed, wall)
        if not self.quiet:
            for rule in sorted(self.rule_counts):
                print("  rule %-10s instances=%d%s" % (rule, self.rule_counts[rule],
                                                       (" floor=%d" % self.floors[rule]) if rule in self.floors else ""))
            for o in self.observations:
                print("OBSERVATION: property=%s %s %s @ %s" % (self.prop, o["rule"], o["text"], o["where"]))
            for l in lines:
                print(l)
            print(summary)
        return 1 if new else 0

    def _write_evidence(self, n_ob, n_ok, distinct, new, listed, wall):
        os.makedirs(EVIDENCE_DIR, exist_ok=True)
        samples = []
        per_rule = {}
        for o in self.obligations:
            if per_rule.get(o["rule"], 0) < 2:
                per_rule[o["rule"]] = per_rule.get(o["rule"], 0) + 1
                samples.append({k: o[k] for k in ("rule", "instance", "where", "ok") if k in o})
        cov = {
            "explanation": self.explanation or "static analysis of the working tree; see DESIGN.md",
            "obligations": n_ob,
            "discharged": n_ok,
            "evaluations": n_ob,
            "distinct_nontrivial": distinct,
            "rule": "one obligation per (rule, instance, site) enumerated from the current AST/CFG/call graph; "
                    "non-trivial = involved at least one path, caller set or table entry beyond an existence test; "
                    "distinct = distinct (rule, instance, site)",
            "samples": samples[:40],
            "exhaustive": bool(self.exhaustive),
            "rule_instances": {r: {"count": c, "floor": self.floors.get(r)} for r, c in sorted(self.rule_counts.items())},
            "units_analysed": {"modules_parsed": len(self.repo.modules),
                               "functions_analysed": len(self.funcs_analysed),
                               "repo_digest": self.repo.digest()},
            "known_findings": [v["key"] for v, _ in listed],
            "new_violations": [v["key"] for v in new],
            "observations": self.observations[:50],
            "checker_cmd": "/venv/bin/python sa/run.py %s --tier %s" % (self.prop, self.tier),
            "trusted_base": ["CPython ast/compile", "sa/ engine (model, cfg, rules)", "frozen allow-lists in sa/rules (each entry with reason)"],
        }
        if self.battery is not None:
            cov["battery"] = self.battery
        cov.update(self.extra)
        ev = {
            "property_id": self.prop,
            "tier": self.tier,
            "seed": int(self.seed),
            "level": "other",
            "coverage": cov,
            "assumptions": self.assumptions + [
                "mpf/tests and mpf/benchmarks are out of scope",
                "only the structural clauses named in MANIFEST level_claimed are decided, not the behaviour",
            ],
            "wall_s": round(wall, 3),
            "violations": len(new),
        }
        with open(os.path.join(EVIDENCE_DIR, "%s.json" % self.prop), "w") as fh:
            json.dump(ev, fh, indent=1)
