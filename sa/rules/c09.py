"""C09 — light output equals the stack colour (narrow structural clauses).

SORT-3 / OWN-11  the stack is owned by Light and re-sorted (priority, key descending) after every insertion
DOM-18  every hardware channel gets a defined start/target brightness and a set_fade, every platform a light_sync
DOM-19  every mutator refreshes the hardware when the visible colour can change; the "is anything opaque above the key"
        scans stop at the key
UNIT-3  fade arithmetic                    SIB-3  every light driver class implements what its base needs
PAIR-23 a running software fade is cancelled before a newer command takes effect
BATCH-1 the batch system records what it sends
"""
import ast

from sa.model import src, short, dotted, call_attr, kwarg, walk_local, AnalysisError, const_value, assigned_targets
from sa.helpers import is_snapshot, batch_conservation, early_exits, inloop_guards
from sa.index import get_index
from sa.units import Units, load_spec, MS, S, ABS

LT = "mpf/devices/light.py"
LI = "mpf/platforms/interfaces/light_platform_interface.py"
BL = "mpf/core/platform_batch_light_system.py"


def check(chk):
    repo = chk.repo
    idx = get_index(repo)
    units = Units(repo, load_spec(repo))
    chk.explanation = ("C09 (narrow): ownership and ordering of the light stack, definite brightness for every channel, refresh on "
                       "every visible change, fade units, driver-interface completeness, cancellation of superseded software "
                       "fades, batch bookkeeping. Correctness of the update-suppression shortcuts over histories and the "
                       "interpolated values are not decided.")
    light = repo.cls(LT, "Light")

    # ------------------------------------------------------------ OWN-11 / SORT-3
    for u in idx.uses("stack"):
        rt = u.recv_text or ""
        mine = (u.relpath == LT and u.cls == "Light" and rt == "self")
        foreign_light = (not mine) and (rt.endswith("light") or rt.endswith("led") or "lights[" in rt)
        if not (mine or foreign_light):
            continue
        p = u.parent
        mut = u.store or (isinstance(p, ast.Attribute) and p.attr in ("append", "remove", "pop", "insert", "clear", "sort", "extend", "reverse")) or \
            (isinstance(p, ast.Subscript) and isinstance(p.ctx, (ast.Store, ast.Del)))
        if mut:
            chk.ob("OWN-11", "the light stack is changed only by Light itself (%s)" % u.scope, mine, u.where(), construct=u.ident,
                   text="stack mutation in " + u.scope)
    n_app = 0
    for f in light.methods.values():
        cfg = None
        for c in f.calls():
            if call_attr(c) in ("append", "insert", "extend") and src(c.func.value) == "self.stack":
                cfg = cfg or f.cfg()
                chk.analysed(f)
                n_app += 1
                an = [n for n in cfg.nodes if n.kind != "branch" and any(x is c for x in n.calls())][0]
                sorts = [n.id for n, cc in cfg.calls_named("sort") if src(cc.func.value) == "self.stack"]
                single = [b.id for b in cfg.nodes if b.kind == "branch" and b.value is False and src(b.ast).replace(" ", "") in
                          ("len(self.stack)>1", "len(self.stack)>=2")]
                w = cfg.must_pass(an.id, sorts + single)
                chk.ob("SORT-3", "every insertion into the light stack is followed by the priority sort (%s)" % f.name, w is None and bool(sorts),
                       f.where(c), path=cfg.fmt_path(w, LT) if w else None, construct=f.ident, text="append without sort in " + f.name)
                for n, cc in cfg.calls_named("sort"):
                    if src(cc.func.value) == "self.stack":
                        rev = kwarg(cc, "reverse")
                        ok = rev is not None and src(rev) == "True" and kwarg(cc, "key") is None
                        chk.ob("SORT-3", "the stack is sorted descending by the entries' own order (%s)" % f.name, ok, f.where(cc), construct=f.ident,
                               text="sort args " + short(cc, 60))
    chk.need(n_app >= 2, "SORT-3", "new colours are inserted into the light stack (color / fade-out removal)", repo.func(LT, "Light._add_to_stack"), "found %d insertion site(s)" % n_app)
    gt = repo.func(LT, "LightStackEntry.__gt__")
    rets = [x for x in walk_local(gt.node) if isinstance(x, ast.Return)]
    t = src(rets[0].value).replace(" ", "") if rets else ""
    ok = t in ("self.priority>other.priorityor(self.priority==other.priorityandself.key>other.key)",
               "self.priority>other.priorityor(other.priority==self.priorityandself.key>other.key)",
               "self.priority>other.priorityorother.priority==self.priorityandself.key>other.key",
               "self.priority>other.priorityorself.priority==other.priorityandself.key>other.key",
               "(self.priority,self.key)>(other.priority,other.key)")
    chk.ob("SORT-3", "stack entries are ordered by (priority, key)", ok, gt.where(), detail=t, construct=gt.ident, text="entry order " + t)
    cst = repo.func(LT, "LightStackEntry.__init__")
    params = [p for p in cst.params() if p != "self"]
    ok = all(any(isinstance(x, ast.Assign) and src(x.targets[0]) == "self." + p and src(x.value) == p for x in walk_local(cst.node)) for p in params)
    chk.ob("SORT-3", "LightStackEntry stores each constructor argument in the field of the same name", ok, cst.where(), construct=cst.ident,
           text="entry fields")
    for f in light.methods.values():
        for c in f.calls():
            if call_attr(c) == "LightStackEntry":
                names = [src(a) for a in c.args]
                ok = len(names) == 6 and names[0] == "priority" and names[1] == "key" and names[2] == "start_time"
                chk.ob("SORT-3", "stack entries are built in field order (priority, key, start_time, start_color, dest_time, dest_color)", ok,
                       f.where(c), detail=str(names), construct=f.ident, text="entry construction in " + f.name)

    # ------------------------------------------------------------ DOM-18
    f = repo.func(LT, "Light._schedule_update")
    chk.analysed(f)
    cfg = f.cfg()
    # the "nothing changed" shortcuts compare the new *logical* target with the remembered one: what is remembered is the logical colours, taken
    # before brightness / colour correction rewrites the locals (a corrected colour remembered here would be compared with raw ones next time)
    rem = [n for n in cfg.nodes if n.kind == "stmt" and isinstance(n.ast, ast.Assign) and src(n.ast.targets[0]) == "self._last_fade_target"]
    corr = [n for n in cfg.nodes if n.kind == "stmt" and isinstance(n.ast, ast.Assign) and
            any(isinstance(c_, ast.Call) and call_attr(c_) in ("color_correct", "gamma_correct") for c_ in ast.walk(n.ast.value))]
    chk.need(rem and corr, "SUPP-1", "_schedule_update remembers the last target and corrects colours", f)
    late = [(k_, r_) for k_ in corr for r_ in rem if cfg.path_avoiding(k_.id, [r_.id], []) is not None]
    chk.ob("SUPP-1", "the remembered fade target holds the logical colours (it is stored before any colour correction is applied to the locals)", not late,
           f.where(late[0][1].ast) if late else f.where(), detail="stored after `%s`" % (short(late[0][0].ast, 70) if late else ""), construct=f.ident,
           text="remembered target stored after correction")
    sf = [(n, c) for n, c in cfg.calls_named("set_fade")]
    chk.need(sf, "DOM-18", "_schedule_update commands the hardware through set_fade", f)
    outer = [h for h in cfg.nodes if h.kind == "loop" and "hw_drivers" in src(h.ast.iter)]
    inner = [h for h in cfg.nodes if h.kind == "loop" and src(h.ast.iter) == "drivers"]
    chk.ob("DOM-18", "all colour channels and all of their drivers are visited", bool(outer) and bool(inner) and src(outer[0].ast.iter) == "self.hw_drivers.items()",
           f.where(), construct=f.ident, text="channel loops")
    for n, c in sf:
        args = [src(a) for a in c.args]
        chk.ob("DOM-18", "set_fade receives (start_brightness, start_time, target_brightness, target_time)",
               args == ["start_brightness", "start_time", "target_brightness", "target_time"], f.where(c), detail=str(args), construct=f.ident,
               text="set_fade args")
        if outer:
            it = [b for b in cfg.nodes if b.kind == "branch" and b.test == outer[0].id and b.tag == "iter"][0]
            for var in ("start_brightness", "target_brightness"):
                defs = [d.id for d in cfg.nodes_where(lambda d: d.kind == "stmt" and isinstance(d.ast, ast.Assign) and
                                                      any(src(tg) == var for tg in d.ast.targets))]
                w = cfg.path_avoiding(it.id, [n.id], defs, ignore_exc=True)
                chk.ob("DOM-18", "%s is assigned on every path of the channel iteration before it is sent" % var, w is None and bool(defs),
                       f.where(c), path=cfg.fmt_path(w, LT) if w else None,
                       detail="a channel would be sent the value left over from the previous channel", construct=f.ident,
                       text="%s may be stale/undefined" % var)
    sync = [h for h in cfg.nodes if h.kind == "loop" and src(h.ast.iter) == "self.platforms"]
    ok = bool(sync) and any(call_attr(c) == "light_sync" for st in sync[0].ast.body for c in ast.walk(st) if isinstance(c, ast.Call))
    # the sync follows the channel loops on every path that sent something
    ok2 = bool(sync) and bool(outer) and cfg.must_pass(outer[0].id, [sync[0].id]) is None
    chk.ob("DOM-18", "every platform is synced after the channels were written", ok and ok2, f.where(), construct=f.ident, text="light_sync")
    # values are divided by 255 (brightness in [0, 1])
    bad = []
    for d in cfg.nodes_where(lambda d: d.kind == "stmt" and isinstance(d.ast, ast.Assign) and src(d.ast.targets[0]) in ("start_brightness", "target_brightness")):
        v = d.ast.value
        if isinstance(v, ast.Constant) and v.value == 0.0:
            continue
        if not (isinstance(v, ast.BinOp) and isinstance(v.op, ast.Div) and const_value(v.right) == 255.0):
            bad.append(d)
        else:
            side = "start_color" if src(d.ast.targets[0]).startswith("start") else "target_color"
            other = "target_color" if side == "start_color" else "start_color"
            if other in src(v) or side not in src(v):
                bad.append(d)
    chk.ob("DOM-18", "start brightness derives from the start colour and target brightness from the target colour, scaled by 1/255", not bad, f.where(),
           detail="; ".join(short(b.ast, 80) for b in bad[:3]), construct=f.ident, text="brightness source " + ";".join(short(b.ast, 60) for b in bad[:2]))
    cc_ = [c for c in f.calls() if call_attr(c) == "color_correct"]
    ok = len(cc_) >= 2 and all(call_attr(c.args[0]) == "gamma_correct" for c in cc_ if c.args)
    chk.ob("DOM-18", "both endpoints are gamma- and colour-corrected before they are split into channels", ok, f.where(), construct=f.ident,
           text="correction")
    chk.floor("DOM-18", 5)

    # ------------------------------------------------------------ DOM-19
    MUT = {"color": "color_changes", "remove_from_stack_by_key": "color_changes", "_remove_fade_out": "color_change", "clear_stack": None}
    for name, flag in MUT.items():
        g = repo.func(LT, "Light." + name)
        chk.analysed(g)
        gcfg = g.cfg()
        su = [(n, c) for n, c in gcfg.calls_named("_schedule_update")]
        chk.ob("DOM-19", "Light.%s refreshes the hardware" % name, bool(su), g.where(), construct=g.ident, text="refresh in " + name)
        if flag:
            for n, c in su:
                gd = gcfg.guards_at(n.id)
                encl = set()
                for x in ast.walk(g.node):
                    if isinstance(x, ast.If) and any(y is c for st in x.body + x.orelse for y in ast.walk(st)):
                        for b in gcfg.nodes:
                            if b.kind == "test" and b.owner is x:
                                encl.add(src(b.ast))
                chk.ob("DOM-19", "Light.%s refreshes whenever its visibility flag says the colour can change" % name, gd.get(flag) is True and
                       encl <= {flag, "found"}, g.where(c), detail="enclosing tests %s" % sorted(encl), construct=g.ident,
                       text="refresh guard in %s: %s" % (name, sorted(encl)))
            # the flag is computed, not constant-folded
            defs = [x for x in walk_local(g.node) if isinstance(x, ast.Assign) and src(x.targets[0]) == flag]
            nonconst = [x for x in defs if not isinstance(x.value, ast.Constant)]
            falses = [x for x in defs if isinstance(x.value, ast.Constant) and x.value.value is False]
            chk.ob("DOM-19", "Light.%s derives the flag from the stack" % name, bool(nonconst) or bool(falses), g.where(), construct=g.ident,
                   text="flag computed in " + name)
    g = repo.func(LT, "Light.color")
    d = [x for x in walk_local(g.node) if isinstance(x, ast.Assign) and src(x.targets[0]) == "color_changes"]
    t = src(d[0].value).replace(" ", "") if d else ""
    ok = t == "notself.stackorself.stack[0].priority<=priorityorself.stack[0].dest_colorisNone"
    chk.ob("DOM-19", "a new colour is visible when the stack is empty, the top entry does not outrank it, or the top is a fade-out", ok, g.where(),
           detail=t, construct=g.ident, text="color_changes expr " + t)
    gcfg = g.cfg()
    add = [n for n, c in gcfg.calls_named("_add_to_stack")]
    dn = [n for n in gcfg.nodes_where(lambda n: n.kind == "stmt" and isinstance(n.ast, ast.Assign) and src(n.ast.targets[0]) == "color_changes")]
    ok = bool(add) and bool(dn) and gcfg.dominates(dn[0].id, add[0].id)
    chk.ob("DOM-19", "visibility is judged against the stack as it was before the insertion", ok, g.where(), construct=g.ident, text="flag before add")
    # scans stop at the key
    for name in ("remove_from_stack_by_key", "_remove_fade_out"):
        g = repo.func(LT, "Light." + name)
        gcfg = g.cfg()
        loops = [h for h in gcfg.nodes if h.kind == "loop" and "self.stack" in src(h.ast.iter)]
        chk.ob("DOM-19", "Light.%s scans the stack from the top" % name, bool(loops), g.where(), construct=g.ident, text="scan loop in " + name)
        for h in loops:
            match = [b for b in gcfg.nodes if b.kind == "branch" and b.value is True and src(b.ast).replace(" ", "") == "entry.key==key" and
                     any(x is b.ast for st in h.ast.body for x in ast.walk(st))]
            chk.ob("DOM-19", "the scan of Light.%s tests for the key" % name, bool(match), g.where(h.ast), construct=g.ident, text="key test in " + name)
            for b in match:
                # all conjuncts of the match: the last true-branch of the match condition
                reach = gcfg.reachable([b.id], avoid=[])
                # from a *full* match the loop must be left: find the statements of the matching if-body
                ifs = [x for x in ast.walk(h.ast) if isinstance(x, ast.If) and any(y is b.ast for y in ast.walk(x.test))]
                left = bool(ifs) and any(isinstance(y, (ast.Break, ast.Return)) for st in ifs[0].body for y in ast.walk(st))
                chk.ob("DOM-19", "the scan of Light.%s stops at the key (entries *below* the key must not hide the change)" % name, left,
                       g.where(b.ast), detail="without the break an opaque entry below the key suppresses the refresh: the hardware keeps the removed colour",
                       construct=g.ident, text="scan does not stop at key in " + name)
            scan_exits_only_at_key(chk, "DOM-19", g, gcfg, h, name)
            falses = [n for n in gcfg.nodes_where(lambda n: n.kind == "stmt" and isinstance(n.ast, ast.Assign) and
                                                  src(n.ast.targets[0]) in ("color_change", "color_changes") and src(n.ast.value) == "False")
                      if any(x is n.ast for st in h.ast.body for x in ast.walk(st))]
            # sufficiency: the scan stops at *every* entry with the key (in _remove_fade_out: every fade-out entry with the key), and every
            # opaque entry above it hides the change -- no further condition on either
            from sa.helpers import inloop_guards
            from sa.cfg import canon_fact
            exits = [n for n in gcfg.nodes_where(lambda n: n.kind == "stmt" and isinstance(n.ast, (ast.Break, ast.Return)))
                     if any(x is n.ast for st in h.ast.body for x in ast.walk(st))]
            want_exit = {canon_fact("entry.key == key", True)} | ({canon_fact("entry.dest_color is None", True)} if name == "_remove_fade_out" else set())
            for n in exits:
                got = inloop_guards(gcfg, n.id, h.id)
                chk.ob("DOM-19", "the scan of Light.%s finds every entry with the key (no further condition)" % name, got == want_exit, g.where(n.ast),
                       detail="selected by %s" % sorted(got), construct=g.ident, text="key match exactly in " + name)
            for n in falses:
                got = inloop_guards(gcfg, n.id, h.id)
                chk.ob("DOM-19", "every opaque entry above the key hides the change in Light.%s (no further condition)" % name,
                       got - {canon_fact("entry.key == key", False)} == {canon_fact("entry.dest_color is not None", True)}, g.where(n.ast), detail="selected by %s" % sorted(got), construct=g.ident,
                       text="opaque entry exactly in " + name)
            for n in falses:
                gd = gcfg.guards_at(n.id)
                ok = gd.get("entry.dest_color is not None") is True
                chk.ob("DOM-19", "only an opaque entry (dest_color set) above the key hides the change", ok, g.where(n.ast), construct=g.ident,
                       text="opaque test in " + name)
    chk.floor("DOM-19", 11)

    # ------------------------------------------------------------ UNIT-3
    n_u = 0
    for name in ("_add_to_stack", "remove_from_stack_by_key", "_get_color_and_fade", "_get_color_and_target_time"):
        g = light.methods.get(name)
        if g is None:
            continue
        chk.analysed(g)
        for kind, node, detail in units.scan_function(g):
            if kind in ("arith", "sink", "assign"):
                chk.ob("UNIT-3", "fade arithmetic is dimensionally consistent in %s" % name, False, g.where(node), detail=detail, construct=g.ident,
                       text="%s %s" % (kind, short(node, 80)))
    g = light.methods["_add_to_stack"]
    env = units.env_for(g)
    for x in walk_local(g.node):
        if isinstance(x, ast.Assign) and src(x.targets[0]) == "dest_time" and isinstance(x.value, ast.BinOp):
            n_u += 1
            ok = units.dim(x.value.left, g, env) == ABS and units.dim(x.value.right, g, env) == S
            chk.ob("UNIT-3", "fade end = start time + fade_ms/1000", ok, g.where(x), detail=src(x.value), construct=g.ident, text="dest_time " + src(x.value))
    g = light.methods["remove_from_stack_by_key"]
    env = units.env_for(g)
    for c in g.calls():
        if call_attr(c) == "LightStackEntry" and len(c.args) >= 5:
            n_u += 1
            e = c.args[4]
            ok = isinstance(e, ast.BinOp) and units.dim(e.left, g, env) == ABS and units.dim(e.right, g, env) == S
            chk.ob("UNIT-3", "fade-out end = now + fade_ms/1000", ok, g.where(c), detail=src(e), construct=g.ident, text="fadeout end " + src(e))
        if call_attr(c) == "reset" and "delay" in src(c.func.value):
            n_u += 1
            ms = kwarg(c, "ms")
            cb = kwarg(c, "callback")
            ok = ms is not None and src(ms) == "fade_ms" and cb is not None and "_remove_fade_out" in src(cb) and "key=key" in src(cb).replace(" ", "")
            chk.ob("UNIT-3", "the fade-out entry is removed after exactly fade_ms by a callback bound to its key", ok, g.where(c), construct=g.ident,
                   text="fadeout removal delay")
            nm = kwarg(c, "name")
            per_key = nm is not None and any(isinstance(y, ast.Name) and y.id == "key" for y in ast.walk(nm))
            chk.ob("PAIR-24", "each key's fade-out has a clean-up timer of its own (the delay name varies with the key)", per_key, g.where(c),
                   detail="name=%s: with one shared name the fade-out of a second key cancels the clean-up of the first, whose transparent entry then stays for ever"
                   % (src(nm) if nm is not None else None), construct=g.ident, text="fadeout timer name " + (src(nm) if nm is not None else "missing"))
        if call_attr(c) == "LightStackEntry" and len(c.args) >= 6 and src(c.args[5]) == "None":
            sc = c.args[3]
            defs = [a for a in walk_local(g.node) if isinstance(a, ast.Assign) and isinstance(sc, ast.Name) and src(a.targets[0]) == sc.id]
            ok = len(defs) == 1 and isinstance(defs[0].value, ast.Subscript) and isinstance(defs[0].value.value, ast.Call) and \
                call_attr(defs[0].value.value) == "_get_color_and_fade" and src(defs[0].value.value.args[0]) == "stack" and const_value(defs[0].value.slice) == 0
            chk.ob("FADE-2", "a fade-out starts from the colour of the removed key's own layer (the stack from the key downwards), not from what is visible",
                   ok, g.where(c), detail="start colour %s" % (src(defs[0].value) if defs else src(sc)),
                   construct=g.ident, text="fadeout start colour " + (src(defs[0].value) if defs else src(sc)))
    chk.need(n_u >= 3, "UNIT-3", "fade end times are computed (start + fade_ms / 1000)", repo.func(LT, "Light._add_to_stack"), "found %d" % n_u)
    for rel, qn in ((LI, "LightPlatformDirectFade.set_fade"),):
        g = repo.func(rel, qn)
        for kind, node, detail in units.scan_function(g):
            chk.observe("UNIT-3", detail + " (final brightness unaffected: not gating)", g.where(node))

    # a batched channel remembers a brightness as "sent, nothing more to do" only for the *last* step of a fade: the cached value short-cuts every
    # later call (returned as done).  So the cache is written exactly where the step is declared done.
    gf_ = repo.func(BL, "PlatformBatchLight.get_fade_and_brightness")
    chk.analysed(gf_)
    gfc = gf_.cfg()
    from sa.cfg import canon_set as _cs9b
    cache = [n for n in gfc.nodes if n.kind == "stmt" and isinstance(n.ast, ast.Assign) and src(n.ast.targets[0]) == "self._last_brightness"]
    dn = {True: [], False: []}
    for n in gfc.nodes:
        if n.kind == "stmt" and isinstance(n.ast, ast.Assign) and src(n.ast.targets[0]) == "done" and src(n.ast.value) in ("True", "False"):
            dn[src(n.ast.value) == "True"].append(n)
    ok = len(cache) == 1 and len(dn[True]) == 1 and len(dn[False]) >= 1
    if ok:
        gc = set(_cs9b(gfc.guards_at(cache[0].id)))
        ok = gc >= set(_cs9b(gfc.guards_at(dn[True][0].id))) and all(not (gc <= set(_cs9b(gfc.guards_at(x.id))) ) or gc != set(_cs9b(gfc.guards_at(x.id))) for x in dn[False]) \
            and not any(gfc.path_avoiding(cache[0].id, [x.id], []) or gfc.path_avoiding(x.id, [cache[0].id], []) for x in dn[False])
    chk.ob("BATCH-2", "a batched channel caches a brightness as final only on the path that declares the step done (an intermediate step of a long "
           "fade is never cached: the next step would be returned as already sent and the fade would stall)", ok, gf_.where(cache[0].ast if cache else None),
           construct=gf_.ident, text="final brightness cache")
    # channels of one colour: a light whose type repeats a colour letter (ww, rgbrgb) collects all its drivers of that colour.  The per-colour
    # list is created once - where a loader appends per letter, the (re)creation is guarded by absence
    for nm_ in ("_load_hw_driver_sequentially", "_load_hw_drivers"):
        lf = repo.func(LT, "Light." + nm_)
        chk.analysed(lf)
        lc = lf.cfg()
        for n in lc.nodes:
            if n.kind == "stmt" and isinstance(n.ast, ast.Assign) and src(n.ast.targets[0]).startswith("self.hw_drivers[") and src(n.ast.value) in ("[]", "list()"):
                key = src(n.ast.targets[0].slice)
                g = lc.guards_at(n.id)
                from sa.cfg import expand_equiv as _ee
                ge = _ee(g)
                guarded = ge.get("%s not in self.hw_drivers" % key) is True or ge.get("%s in self.hw_drivers" % key) is False
                # ... or the loop walks the items of a mapping keyed by colour: every key comes once
                encl = [lp for lp in ast.walk(lf.node) if isinstance(lp, ast.For) and any(y is n.ast for b in lp.body for y in ast.walk(b))]
                if encl:
                    inner = min(encl, key=lambda lp: len(list(ast.walk(lp))))
                    if isinstance(inner.iter, ast.Call) and call_attr(inner.iter) == "items" and isinstance(inner.target, ast.Tuple) and src(inner.target.elts[0]) == key:
                        guarded = True
                chk.ob("SIB-3", "Light.%s creates the driver list of a colour only when there is none yet (a repeated colour letter keeps its "
                       "earlier channels)" % nm_, guarded, lf.where(n.ast), detail="guards %s" % sorted(g.items()), construct=lf.ident,
                       text="colour driver list reset in " + nm_)

    # ------------------------------------------------------------ SIB-3
    base = repo.cls(LI, "LightPlatformInterface")
    df = repo.cls(LI, "LightPlatformDirectFade")
    sfade = repo.cls(LI, "LightPlatformSoftwareFade")
    bl = repo.cls(BL, "PlatformBatchLight")
    n_drv = 0
    for c in repo.subclasses(base):
        if c in (df, sfade, bl) or any(isinstance(d, ast.Attribute) and d.attr == "abstractmethod" for m in c.methods.values() for d in m.node.decorator_list):
            continue
        n_drv += 1
        need = ["set_fade", "get_board_name"]
        if repo.is_subclass(c, sfade):
            need += ["set_brightness"]
        elif repo.is_subclass(c, df):
            need += ["set_brightness_and_fade", "get_max_fade_ms"]
        if repo.is_subclass(c, bl):
            need += ["get_max_fade_ms"]
        missing = []
        for nm in need:
            m = repo.lookup_method(c, nm)
            if m is None or any(isinstance(d, ast.Attribute) and d.attr == "abstractmethod" for d in m.node.decorator_list):
                missing.append(nm)
        chk.ob("SIB-3", "light driver %s implements %s" % (c.name, ", ".join(need)), not missing, c.where(), detail="missing: %s" % missing,
               construct=c.ident, text="driver %s missing %s" % (c.name, ",".join(missing)))
    chk.expect(n_drv >= 12, "C09: light driver classes lost (%d)" % n_drv)
    g = repo.func(LI, "LightPlatformDirectFade._fade")
    ok = any(call_attr(c) == "set_brightness_and_fade" and "min(1.0, max(brightness, 0.0))" in src(c) for c in g.calls())
    chk.ob("SIB-3", "software fade steps are clamped to [0, 1]", ok, g.where(), construct=g.ident, text="clamp")
    rets = [x for x in ast.walk(g.node) if isinstance(x, ast.Return)]
    wl = [x for x in ast.walk(g.node) if isinstance(x, ast.While)]
    ok = bool(rets) and bool(wl) and any("target_fade_ms <= max_fade_ms" in src(i.test) for i in ast.walk(g.node) if isinstance(i, ast.If))
    tb = [x for x in ast.walk(g.node) if isinstance(x, ast.Assign) and src(x.targets[0]) == "brightness" and src(x.value) == "target_brightness"]
    chk.ob("SIB-3", "a software fade ends by commanding exactly the target brightness", ok and bool(tb), g.where(), construct=g.ident, text="fade end")

    # ------------------------------------------------------------ PAIR-23
    g = repo.func(LI, "LightPlatformDirectFade.set_fade")
    chk.analysed(g)
    gcfg = g.cfg()
    cmds = [(n, c) for n, c in gcfg.calls_named("set_brightness_and_fade", "create_task")]
    canc = [n.id for n, c in gcfg.calls_named("cancel") if src(c.func.value) == "self.task"]
    notask = [b.id for b in gcfg.nodes if b.kind == "branch" and src(b.ast) == "self.task" and b.value is False]
    for n, c in cmds:
        w = gcfg.path_avoiding(gcfg.entry.id, [n.id], canc + notask, ignore_exc=True)
        chk.ob("PAIR-23", "a running software fade is cancelled before `%s` takes effect" % call_attr(c), w is None and bool(canc), g.where(c),
               path=gcfg.fmt_path(w, LI) if w else None,
               detail="the older fade keeps writing: its end value is what the hardware shows after all fades finished", construct=g.ident,
               text="stale fade task survives " + call_attr(c))
    st = repo.func(LI, "LightPlatformDirectFade.stop")
    ok = any(call_attr(c) == "cancel" for c in st.calls())
    chk.ob("PAIR-23", "stop() cancels the fade task", ok, st.where(), construct=st.ident, text="stop cancels")
    # the handle of the running fade belongs to set_fade: the fade coroutine itself never writes it (a cancelled fade finishes *after* its
    # successor was stored: whatever it writes then is the successor's handle, which can no longer be cancelled)
    dfc = repo.cls(LI, "LightPlatformDirectFade")
    writers = sorted({m.name for m in dfc.methods.values() for x in walk_local(m.node)
                      if isinstance(x, (ast.Assign, ast.AugAssign, ast.Delete)) and any(src(t) == "self.task" for t in (x.targets if not isinstance(x, ast.AugAssign) else [x.target]))})
    chk.ob("PAIR-23", "the fade task handle is written only where fades are started / replaced (set_fade, __init__), never by the fade coroutine",
           set(writers) <= {"__init__", "set_fade"} and "set_fade" in writers, dfc.methods["_fade"].where(), detail=str(writers),
           construct=LI + "::LightPlatformDirectFade.task", text="fade task written by " + ",".join(w for w in writers if w not in ("__init__", "set_fade")))

    _stack_reads(chk, repo)
    _interpolation(chk, repo)
    _correction_profile_choice(chk, repo)
    _suppression(chk, repo)
    _split_symmetry(chk, repo)
    _direct_fade(chk, repo)
    _removal_always_removes(chk, repo)
    _light_player(chk, repo)
    _commands_reach_the_stack(chk, repo)
    _default_fade_only_for_none(chk, repo)
    _batch_skip_and_fadeout_source(chk, repo)

    # ------------------------------------------------------------ BATCH-1
    g = repo.func(BL, "PlatformBatchLightSystem._send_update_batch")
    chk.analysed(g)
    gcfg = g.cfg()
    loops = [h for h in gcfg.nodes if h.kind == "loop" and src(h.ast.iter) == "sequential_lights"]
    if not loops:
        chk.missing("BATCH-1", "_send_update_batch walks the lights handed to it", g)
        return
    it = [b for b in gcfg.nodes if b.kind == "branch" and b.test == loops[0].id and b.tag == "iter"][0]
    rec = [n.id for n in gcfg.nodes_where(lambda n: n.kind == "stmt" and isinstance(n.ast, ast.Assign) and src(n.ast.targets[0]) == "self.last_state[light]")]
    sends = [(n, c) for n, c in gcfg.calls_named("append") if src(c.func.value) == "sequential_brightness_list"] + \
            [(n, None) for n in gcfg.nodes_where(lambda n: n.kind == "stmt" and isinstance(n.ast, ast.Assign) and
                                                 src(n.ast.targets[0]) == "sequential_brightness_list" and "light" in src(n.ast.value))]
    chk.ob("BATCH-1", "the batch system remembers the last state per light", bool(rec), g.where(), construct=g.ident, text="last_state store")
    for n, c in sends:
        w = gcfg.path_avoiding(it.id, [n.id], rec, ignore_exc=True)
        chk.ob("BATCH-1", "every brightness put into a batch (intermediate fade steps included) is recorded as the light's last state", w is None and bool(rec),
               g.where(n.ast), path=gcfg.fmt_path(w, BL) if w else None,
               detail="an unrecorded intermediate step makes the 'already sent' shortcut skip a later command back to the old value",
               construct=g.ident, text="batched value not recorded")
    for r in gcfg.nodes_where(lambda n: n.kind == "stmt" and isinstance(n.ast, ast.Assign) and src(n.ast.targets[0]) == "self.last_state[light]"):
        ok = src(r.ast.value).replace(" ", "") == "(brightness,schedule_time)"
        chk.ob("BATCH-1", "the record holds the brightness being sent and its time", ok, g.where(r.ast), construct=g.ident, text="record content")
    skips = [n for n in gcfg.nodes_where(lambda n: n.kind == "stmt" and isinstance(n.ast, ast.Continue))]
    for n in skips:
        gd = gcfg.guards_at(n.id)
        ok = gd.get("last_state[0] == brightness") is True and (gd.get("not done") is False or gd.get("done") is True)
        chk.ob("BATCH-1", "an update is skipped only for a finished fade whose value equals the recorded last state", ok, g.where(n.ast),
               detail="guards %s" % sorted(gd.items()), construct=g.ident, text="skip guard")
    pb = repo.cls(BL, "PlatformBatchLight")
    sfm = pb.methods["set_fade"]
    calls = [call_attr(c) for c in sfm.calls()]
    sets = {src(x.targets[0]): src(x.value) for x in walk_local(sfm.node) if isinstance(x, ast.Assign)}
    ok = "mark_dirty" in calls and sets.get("self._last_brightness") == "None" and \
        sets.get("self._current_fade", "").replace(" ", "") == "(start_brightness,start_time,target_brightness,target_time)"
    chk.ob("BATCH-1", "a new fade marks the light dirty, stores the fade and forgets the cached end value", ok, sfm.where(), construct=sfm.ident,
           text="batch set_fade")
    md = repo.func(BL, "PlatformBatchLightSystem.mark_dirty")
    ok = any(call_attr(c) == "add" and src(c.func.value) == "self.dirty_lights" for c in md.calls()) and \
        any(isinstance(x, ast.Assign) and src(x.targets[0]) == "self.dirty_schedule" and ("x[1] != light" in src(x.value) or "light != x[1]" in src(x.value)) for x in walk_local(md.node))
    chk.ob("BATCH-1", "marking dirty queues the light and drops its pending fade steps", ok, md.where(), construct=md.ident, text="mark_dirty")
    # BATCH-2: nothing falls out of the batches
    batch_conservation(chk, "BATCH-2", g, "sequential_brightness_list", "update_callback", "light", "sequential_lights",
                       skip_ok=lambda gd: gd.get("last_state[0] == brightness") is True and (gd.get("not done") is False or gd.get("done") is True))
    su = repo.func(BL, "PlatformBatchLightSystem._send_updates")
    chk.analysed(su)
    batch_conservation(chk, "BATCH-2", su, "sequential_lights", "_send_update_batch", "light", "self.dirty_lights")
    scfg = su.cfg()
    clr = [n for n, c in scfg.calls_named("clear") if src(c.func.value) == "self.dirty_lights"]
    snd = [n for n, c in scfg.calls_named("_send_update_batch")]
    ok = bool(clr) and bool(snd) and all(scfg.path_avoiding(c_.id, [s_.id], [h.id for h in scfg.nodes if h.kind == "join" and isinstance(h.ast, ast.While)],
                                                            ignore_exc=True) is None for c_ in clr for s_ in snd)
    chk.ob("BATCH-2", "the dirty set is cleared only after its lights were sent", ok, su.where(), construct=su.ident, text="dirty set cleared early")
    snap = [h for h in scfg.nodes if h.kind == "loop" and "self.dirty_lights" in src(h.ast.iter)]
    chk.ob("BATCH-2", "the dirty set is iterated as a snapshot (lights become dirty while a batch is awaited)", bool(snap) and is_snapshot(snap[0].ast.iter),
           su.where(), construct=su.ident, text="dirty set snapshot")
    chk.floor("BATCH-2", 10)
    # BATCH-3: a fade that is not finished yet is put back on the schedule (otherwise its end value is never sent)
    from sa.helpers import feasible_paths
    gfb = [n for n in gcfg.nodes if n.kind == "stmt" and isinstance(n.ast, ast.Assign) and call_attr(n.ast.value) == "get_fade_and_brightness"]
    ok = bool(gfb) and isinstance(gfb[0].ast.targets[0], ast.Tuple) and len(gfb[0].ast.targets[0].elts) == 3 and \
        src(gfb[0].ast.value.func.value) == "light" and [src(a) for a in gfb[0].ast.value.args] == ["current_time"]
    chk.ob("BATCH-3", "brightness, remaining fade and done-flag of each light are taken at the batch's current time", ok, g.where(), construct=g.ident,
           text="get_fade_and_brightness")
    if ok:
        bname, fname, dname = [src(e) for e in gfb[0].ast.targets[0].elts]
        sched = [n for n in gcfg.nodes if n.kind == "stmt" and isinstance(n.ast, ast.Assign) and src(n.ast.targets[0]) == "schedule_time"]
        v = sched[0].ast.value if sched else None
        okv = isinstance(v, ast.BinOp) and isinstance(v.op, ast.Add) and src(v.left) == "current_time" and isinstance(v.right, ast.BinOp) and \
            isinstance(v.right.op, ast.Div) and src(v.right.left) == fname and const_value(v.right.right) == 1000
        chk.ob("BATCH-3", "the next step of a fade is due at now + remaining_ms / 1000", okv, g.where(sched[0].ast) if sched else g.where(), construct=g.ident,
               text="schedule_time")
        adds = [n.id for n, c in gcfg.calls_named("add") if src(c.func.value) == "self.dirty_schedule" and c.args and
                src(c.args[0]).replace(" ", "").strip("()") == "schedule_time,light"]
        nd = [b for b in gcfg.nodes if b.kind == "branch" and ((src(b.ast) == dname and b.value is False) or (src(b.ast) == "not " + dname and b.value is True))]
        for b in nd:
            w = gcfg.path_avoiding(b.id, [loops[0].id, gcfg.exit.id], adds, ignore_exc=True)
            chk.ob("BATCH-3", "an unfinished fade is rescheduled for its next step", bool(adds) and w is None, g.where(b.ast),
                   path=gcfg.fmt_path(w, BL) if w else None, detail="its final brightness would never be transmitted", construct=g.ident,
                   text="unfinished fade not rescheduled")
        chk.ob("BATCH-3", "unfinished fades are recognised", bool(nd), g.where(), construct=g.ident, text="done test")
        for a in adds:
            gd = gcfg.guards_at(a)
            chk.ob("BATCH-3", "only unfinished fades are rescheduled", gd.get(dname) is False or gd.get("not " + dname) is True, g.where(gcfg.nodes[a].ast),
                   construct=g.ident, text="reschedule guard")
        wake = [n for n, c in gcfg.calls_named("set") if src(c.func.value) == "self.schedule_changed"]
        # the scheduler sleeps until the earliest entry: an entry that becomes the earliest must wake it
        for b in nd:
            bad = None
            for path, fx in feasible_paths(gcfg, b.id, adds):
                earliest = fx.get("not self.dirty_schedule") is True or fx.get("self.dirty_schedule") is False or \
                    fx.get("self.dirty_schedule[0][0] > schedule_time") is True
                if earliest and not (set(path) & {n.id for n in wake}):
                    bad = path
            chk.ob("BATCH-3", "the scheduler is woken when the new step is earlier than everything it sleeps for", bool(wake) and bad is None,
                   g.where(b.ast), path=gcfg.fmt_path(bad, BL) if bad else None, construct=g.ident, text="scheduler not woken")
        cmp_ = [x for x in ast.walk(g.node) if isinstance(x, ast.Compare) and "self.dirty_schedule[0][0]" in src(x) and "schedule_time" in src(x)]
        okc = bool(cmp_) and all((isinstance(x.ops[0], ast.Gt) and src(x.left) == "self.dirty_schedule[0][0]") or
                                 (isinstance(x.ops[0], ast.Lt) and src(x.comparators[0]) == "self.dirty_schedule[0][0]") for x in cmp_)
        chk.ob("BATCH-3", "`earlier` compares the first scheduled time with the new step's time", okc, g.where(), construct=g.ident,
               text="earliest comparison")


def _correction_profile_choice(chk, repo):
    """CORR-2: the colour-correction profile of a light is its own (`color_correction_profile`) whenever it names one, the machine default
    (`light_settings: default_color_correction_profile`) only otherwise, and none if neither exists: the table every commanded brightness goes
    through is the one the light was configured with."""
    f = repo.func(LT, "Light._initialize")
    chk.analysed(f)
    cfg = f.cfg()
    st = [n for n in cfg.nodes if n.kind == "stmt" and isinstance(n.ast, ast.Assign) and src(n.ast.targets[0]) == "profile_name"]
    chk.need(len(st) >= 2, "CORR-2", "Light._initialize chooses the colour-correction profile", f)
    OWN = "self.config['color_correction_profile']"
    DFL = "self.machine.config['light_settings']['default_color_correction_profile']"
    for n in st:
        v = src(n.ast.value).replace('"', "'")
        g = cfg.guards_at(n.id)
        own_named = g.get(OWN + " is not None")
        if v == OWN:
            ok = own_named is True or not g
            # an unconditional first binding is fine only if no later binding can replace a named own profile
            if not g:
                ok = all(cfg.guards_at(m.id).get(OWN + " is not None") is False or cfg.guards_at(m.id).get(OWN + " is None") is True or
                         cfg.guards_at(m.id).get("not " + OWN) is True or cfg.guards_at(m.id).get(OWN) is False for m in st if m is not n)
            what = "the light's own profile is used when it names one"
        elif v == DFL:
            ok = own_named is False or g.get(OWN + " is None") is True or g.get(OWN) is False
            what = "the machine default profile is used only when the light names none"
        else:
            ok = v == "None" and own_named is False
            what = "no profile only when neither is configured"
        chk.ob("CORR-2", what, ok, f.where(n.ast), detail="profile_name = %s under %s" % (v, sorted((k, val) for k, val in g.items() if "profile" in k)[:3]),
               construct=f.ident, text="correction profile choice " + v[-40:])
    ap = [n for n, c in cfg.calls_named("_set_color_correction_profile")]
    ok = len(ap) == 1 and cfg.guards_at(ap[0].id).get("profile_name") is True
    chk.ob("CORR-2", "the chosen profile is the one installed", ok, f.where(), construct=f.ident, text="correction profile installed")


def _interpolation(chk, repo):
    """INTERP-1: a running fade is interpolated between its endpoints and never outside them: the blend ratio is
    (t - start) / (end - start) and is computed only where start < t <= end; outside, the endpoint itself is returned.
    FADE-2: the start colour of a new fade is the colour the light shows below the new entry, read before the old entry of
    the same key is removed; entries without a fade carry no fade end."""
    f = repo.func(LT, "Light._get_color_and_fade")
    cfg = f.cfg()
    S, D = "color_settings.start_time", "color_settings.dest_time"
    bl = [(n, c) for n, c in cfg.calls_named("blend")]
    chk.need(len(bl) == 1, "INTERP-1", "a running fade blends start and destination colour", f)
    n, c = bl[0]
    chk.ob("INTERP-1", "the blend goes from the entry's start colour to its destination by the computed ratio",
           [src(a) for a in c.args] == ["color_settings.start_color", "dest_color", "ratio"], f.where(c), detail=src(c), construct=f.ident, text="blend arguments")
    ra = [x for x in ast.walk(f.node) if isinstance(x, ast.Assign) and src(x.targets[0]) == "ratio" and isinstance(x.value, ast.BinOp)]
    ok = False
    tvar = None
    if len(ra) == 1 and isinstance(ra[0].value.op, ast.Div):
        num, den = ra[0].value.left, ra[0].value.right
        ok = isinstance(num, ast.BinOp) and isinstance(num.op, ast.Sub) and isinstance(den, ast.BinOp) and isinstance(den.op, ast.Sub) and \
            src(num.right) == S and src(den.left) == D and src(den.right) == S and isinstance(num.left, ast.Name)
        tvar = num.left.id if ok else None
    chk.ob("INTERP-1", "ratio = (t - start_time) / (dest_time - start_time)", ok, f.where(ra[0]) if ra else f.where(), detail=src(ra[0].value) if ra else "",
           construct=f.ident, text="ratio formula")
    if tvar:
        g = cfg.guards_at(n.id)
        from sa.model import canon_eq  # noqa
        hi = g.get("%s > %s" % (tvar, D)) is False
        lo = g.get("%s <= %s" % (tvar, S)) is False
        chk.ob("INTERP-1", "the ratio is used only where start_time < t <= dest_time (so it lies in (0, 1])", hi and lo, f.where(c),
               detail="guards %s" % sorted((k, v) for k, v in g.items() if tvar in k), construct=f.ident, text="ratio range")
        for r in [x for x in cfg.nodes if x.kind == "stmt" and isinstance(x.ast, ast.Return) and isinstance(x.ast.value, ast.Tuple)]:
            gg = cfg.guards_at(r.id)
            first = src(r.ast.value.elts[0])
            if gg.get("%s > %s" % (tvar, D)) is True:
                chk.ob("INTERP-1", "past the end of the fade the destination colour itself is returned", first == "dest_color", f.where(r.ast), construct=f.ident,
                       text="after end")
            elif gg.get("%s <= %s" % (tvar, S)) is True:
                chk.ob("INTERP-1", "before the start of the fade the start colour itself is returned", first == "color_settings.start_color", f.where(r.ast),
                       construct=f.ident, text="before start")
    # the colour *below* an entry: the fast path applies to the entry itself on top (same key and same priority); otherwise the first entry
    # (the stack is sorted, highest first) that does not outrank (priority <= and key <=) starts the sub-stack.  Orderings only.
    gb = repo.func(LT, "Light.get_color_below")
    chk.analysed(gb)
    from sa.cfg import canon_fact as _cf, canon_set as _cs
    from sa.helpers import inloop_guards as _ilg9, positive as _pos9
    gcf = gb.cfg()
    # decided on the guards that reach the statements (nested ifs, guard clauses and mirrored comparisons all give the same facts)
    fast = [n for n in gcf.nodes if n.kind == "stmt" and isinstance(n.ast, ast.Return) and n.ast.value is not None
            and any(isinstance(c, ast.Call) and call_attr(c) == "_get_color_and_fade" and c.args and src(c.args[0]) == "self.stack" for c in ast.walk(n.ast.value))]
    want_f = {_cf("self.stack[0].key == key", True), _cf("self.stack[0].priority == priority", True)}
    ok = len(fast) == 1
    gf = set()
    if ok:
        gf = _pos9(set(_cs(gcf.guards_at(fast[0].id))))
        ok = want_f <= gf and all(k == "self.stack" and v is True for k, v in gf - want_f)
    chk.ob("FADE-2", "get_color_below takes the top-of-stack fast path only for the entry itself (same key and same priority)", ok,
           gb.where(fast[0].ast if fast else None), detail="fast path under %s" % sorted(gf), construct=gb.ident, text="colour-below fast path")
    heads9 = [n for n in gcf.nodes if n.kind == "loop"]
    cuts = [n for n in gcf.nodes if n.kind == "stmt" and isinstance(n.ast, ast.Assign) and src(n.ast.targets[0]) == "stack" and "self.stack[" in src(n.ast.value)]
    ok = len(heads9) == 1 and len(cuts) == 1
    gs = set()
    if ok:
        gs = _pos9(_ilg9(gcf, cuts[0].id, heads9[0].id))
        ok = gs == {_cf("entry.priority <= priority", True), _cf("entry.key <= key", True)}
    chk.ob("FADE-2", "otherwise the sub-stack starts at the first entry with priority <= and key <= the given ones (the entry itself included)", ok,
           gb.where(cuts[0].ast if cuts else None), detail="starts under %s" % sorted(gs), construct=gb.ident, text="colour-below scan")
    g = repo.func(LT, "Light._add_to_stack")
    chk.analysed(g)
    cfg = g.cfg()
    cb = [x for x in cfg.nodes if x.kind == "stmt" and isinstance(x.ast, ast.Assign) and src(x.ast.targets[0]) == "color_below"]
    reads = [x for x in cb if isinstance(x.ast.value, ast.Call) and call_attr(x.ast.value) == "get_color_below"]
    rm = [x for x, c in cfg.calls_named("_remove_from_stack_by_key")]
    ok = len(reads) == 1 and [src(a) for a in reads[0].ast.value.args] == ["priority", "key"] and cfg.guards_at(reads[0].id).get("fade_ms") is True
    chk.ob("FADE-2", "a fade starts from the colour shown below the new entry (get_color_below(priority, key))", ok, g.where(), construct=g.ident,
           text="fade start colour")
    if reads and rm:
        chk.ob("FADE-2", "the start colour is read before the previous entry of the same key is removed (a re-fade continues from the shown colour)",
               all(reads[0].id not in cfg.reachable([r.id], include_start=False) for r in rm), g.where(reads[0].ast), construct=g.ident,
               text="start colour before removal")
    nof = [x for x in cb if x not in reads]
    dt0 = [x for x in cfg.nodes if x.kind == "stmt" and isinstance(x.ast, ast.Assign) and src(x.ast.targets[0]) == "dest_time" and
           cfg.guards_at(x.id).get("fade_ms") is False]
    ok = len(nof) == 1 and src(nof[0].ast.value) == "None" and cfg.guards_at(nof[0].id).get("fade_ms") is False and len(dt0) == 1 and const_value(dt0[0].ast.value) == 0
    chk.ob("FADE-2", "an entry without fade has no fade end and no start colour", ok, g.where(), construct=g.ident, text="unfaded entry")
    chk.floor("INTERP-1", 5)


def _split_symmetry(chk, repo):
    """SIB-9: both endpoints of a fade are split into channel brightnesses by the same formula under the same conditions (with
    start_color / target_color exchanged).  An endpoint computed differently ends the fade on another colour than the stack's.
    BATCH-4: a light joins the running batch exactly when it directly succeeds the previous light; a brightness joins the running
    list exactly when its fade time agrees within the tolerance and the list is not full."""
    from sa.cfg import canon_set
    from sa.helpers import positive, exact_selection
    f = repo.func(LT, "Light._schedule_update")
    cfg = f.cfg()
    loops = [h for h in cfg.nodes if h.kind == "loop" and "hw_drivers" in src(h.ast.iter)]
    chk.need(loops, "SIB-9", "_schedule_update walks the hardware channels", f)
    head = loops[0]

    def norm(t):
        return t.replace("start_color", "C").replace("target_color", "C")
    table = {"start_brightness": [], "target_brightness": []}
    for n in cfg.nodes:
        if n.kind == "stmt" and isinstance(n.ast, ast.Assign) and src(n.ast.targets[0]) in table and any(y is n.ast for y in ast.walk(head.ast)):
            g = positive(set(canon_set(cfg.guards_at(n.id))) - set(canon_set(cfg.guards_at(head.id))))
            key = (tuple(sorted((norm(k), v) for k, v in g if "C" in norm(k) or True)), norm(src(n.ast.value)))
            table[src(n.ast.targets[0])].append((key, n))
    # guards that test the *other* endpoint's colour do not dominate this endpoint's assignment; compare per endpoint
    a = sorted(k for k, _ in table["start_brightness"])
    b = sorted(k for k, _ in table["target_brightness"])
    chk.ob("SIB-9", "start and target brightness of every channel come from the same formula under the same conditions", a == b and len(a) >= 6, f.where(head.ast),
           detail="start-only %s ; target-only %s" % ([x for x in a if x not in b][:2], [x for x in b if x not in a][:2]), construct=f.ident,
           text="endpoint split asymmetry")
    bl = repo.cls(BL, "PlatformBatchLightSystem")
    su = bl.methods["_send_updates"]
    scfg = su.cfg()
    app = [(n, c) for n, c in scfg.calls_named("append") if src(c.func.value) == "sequential_lights"]
    lh = [h for h in scfg.nodes if h.kind == "loop" and "dirty_lights" in src(h.ast.iter)]
    if not (len(app) == 1 and lh):
        chk.missing("BATCH-4", "_send_updates extends the running batch", su)
        return
    exact_selection(chk, "BATCH-4", "a light joins the running batch exactly when it directly succeeds the batch's last light", su, scfg, app[0][0], lh[0],
                    {("sequential_lights", True), ("light.is_successor_of(sequential_lights[-1])", True)}, text="batch extension exactly")
    sb = bl.methods["_send_update_batch"]
    bcfg = sb.cfg()
    app = [(n, c) for n, c in bcfg.calls_named("append") if src(c.func.value) == "sequential_brightness_list"]
    lh = [h for h in bcfg.nodes if h.kind == "loop" and src(h.ast.iter) == "sequential_lights"]
    if not (len(app) == 1 and lh):
        chk.missing("BATCH-4", "_send_update_batch extends the running brightness list", sb)
        return
    got = positive(set(canon_set(bcfg.guards_at(app[0][0].id))) - set(canon_set(bcfg.guards_at(lh[0].id))))
    texts = sorted(k.replace(" ", "") for k, v in got if v is True)
    ok = len(got) == 2 and all(v is True for _, v in got) and any("max_fade_tolerance" in t and "common_fade_ms-fade_ms" in t for t in texts) and \
        any(t in ("len(sequential_brightness_list)<self.max_batch_size", "self.max_batch_size>len(sequential_brightness_list)") for t in texts)
    chk.ob("BATCH-4", "a brightness joins the running list exactly when its fade time agrees within the tolerance and the list is not full", ok, sb.where(app[0][1]),
           detail=str(sorted(got)), construct=sb.ident, text="brightness list extension exactly")
    from sa.helpers import consume_after_wake
    consume_after_wake(chk, "BATCH-2", su, "self.dirty_lights_changed", "a light marked dirty while a batch is being sent is picked up by the next round")


def _suppression(chk, repo):
    """SUPP-1: the "nothing to do" shortcuts of _schedule_update read the remembered fade by the layout it was stored in.  The hardware is
    left alone only when the whole (start, start time, target, target time) tuple is unchanged, or when the *target* colour equals the
    remembered *target* and the remembered fade has ended (remembered *target time* negative or in the past).  An index that points at
    another field (the start colour, the start time) suppresses updates the hardware never got."""
    f = repo.func(LT, "Light._schedule_update")
    cfg = f.cfg()
    F = "self._last_fade_target"
    st = [x for x in walk_local(f.node) if isinstance(x, ast.Assign) and src(x.targets[0]) == F and isinstance(x.value, ast.Tuple)]
    chk.need(len(st) == 1, "SUPP-1", "_schedule_update remembers the fade it sends", f)
    layout = [src(e) for e in st[0].value.elts]
    chk.ob("SUPP-1", "the remembered fade is (start colour, start time, target colour, target time)", layout == ["start_color", "start_time", "target_color", "target_time"],
           f.where(st[0]), detail=str(layout), construct=f.ident, text="remembered fade layout")
    n = 0
    # fields may also be read through an unpacking of the remembered tuple (`a, b, c, d = self._last_fade_target`): a name stands for its position
    unpacked = {}
    for x in walk_local(f.node):
        if isinstance(x, ast.Assign) and isinstance(x.targets[0], ast.Tuple) and \
                (src(x.value) == F or (isinstance(x.value, ast.BoolOp) and isinstance(x.value.op, ast.Or) and src(x.value.values[0]) == F)):
            for i_, e_ in enumerate(x.targets[0].elts):
                if isinstance(e_, ast.Name):
                    unpacked[e_.id] = i_

    def as_field(y):
        if isinstance(y, ast.Subscript) and src(y.value) == F:
            return const_value(y.slice)
        if isinstance(y, ast.Name) and y.id in unpacked:
            return unpacked[y.id]
        return None
    for cmp_ in [x for x in walk_local(f.node) if isinstance(x, ast.Compare) and len(x.ops) == 1]:
        sides = [cmp_.left, cmp_.comparators[0]]
        subs = [y for y in sides if as_field(y) is not None]
        if not subs:
            if any(src(y) == F for y in sides) and isinstance(cmp_.ops[0], ast.Eq):
                other = [y for y in sides if src(y) != F][0]
                n += 1
                chk.ob("SUPP-1", "the unchanged-fade shortcut compares the whole tuple in the stored order", isinstance(other, ast.Tuple) and [src(e) for e in other.elts] == layout,
                       f.where(cmp_), detail=src(other), construct=f.ident, text="whole tuple comparison")
            continue
        i = as_field(subs[0])
        other = [y for y in sides if y is not subs[0]][0]
        n += 1
        if isinstance(cmp_.ops[0], (ast.Eq, ast.NotEq)):
            ok = isinstance(i, int) and 0 <= i < len(layout) and layout[i] == src(other) and src(other) == "target_color"
            chk.ob("SUPP-1", "the same-target shortcut compares the new target colour with the remembered target colour", ok, f.where(cmp_),
                   detail="compares %s with field %s (%s)" % (src(other), i, layout[i] if isinstance(i, int) and 0 <= i < len(layout) else "?"), construct=f.ident,
                   text="same-target comparison field %s" % i)
        else:
            ok = isinstance(i, int) and 0 <= i < len(layout) and layout[i] == "target_time"
            chk.ob("SUPP-1", "whether the remembered fade has ended is judged by its target time", ok, f.where(cmp_),
                   detail="reads field %s (%s)" % (i, layout[i] if isinstance(i, int) and 0 <= i < len(layout) else "?"), construct=f.ident, text="fade-ended field %s" % i)
    chk.ob("SUPP-1", "comparisons with the remembered fade examined", n >= 4, f.where(), detail=str(n), nontrivial=False)
    # both shortcuts return before the new fade is remembered; everything else remembers and sends
    rn = [x for x in cfg.nodes if x.kind == "stmt" and x.ast is st[0]]
    rets = [x for x in cfg.nodes if x.kind == "stmt" and isinstance(x.ast, ast.Return) and rn and rn[0].id not in cfg.reachable([x.id]) and x.lineno < st[0].lineno]
    chk.ob("SUPP-1", "there are exactly two shortcuts before the fade is remembered", len(rets) == 2, f.where(), detail=str(len(rets)), construct=f.ident, text="shortcut count")


def _stack_reads(chk, repo):
    """TOP-1: the colour of a light is read from the top of the (sorted) stack; a transparent entry defers to the rest of the
    stack below it -- the whole rest, nothing skipped.  CORR-1 / WHITE-1: every colour sent to hardware went through gamma and
    colour correction; the white channel of an RGBW light is min(r, g, b) of that colour."""
    for nm in ("_get_color_and_target_time", "_get_color_and_fade"):
        f = repo.func(LT, "Light." + nm)
        chk.analysed(f)
        subs = [x for x in ast.walk(f.node) if isinstance(x, ast.Subscript) and isinstance(x.value, ast.Name) and x.value.id == "stack"]
        tops = [x for x in subs if not isinstance(x.slice, ast.Slice)]
        tails = [x for x in subs if isinstance(x.slice, ast.Slice)]
        chk.ob("TOP-1", "%s reads the colour settings from the top of the stack (stack[0])" % nm, bool(tops) and all(const_value(x.slice) == 0 for x in tops),
               f.where(), detail=str([src(x) for x in tops]), construct=f.ident, text="top of stack in " + nm)
        for x in tails:
            sl = x.slice
            ok = sl.upper is None and sl.step is None and sl.lower is not None and const_value(sl.lower) == 1
            chk.ob("TOP-1", "%s: a transparent entry defers to everything below it (stack[1:])" % nm, ok, f.where(x), detail=src(x), construct=f.ident,
                   text="rest of stack %s in %s" % (src(x), nm))
        rec = [c for c in ast.walk(f.node) if isinstance(c, ast.Call) and call_attr(c) == nm]
        chk.ob("TOP-1", "%s looks below a transparent entry" % nm, bool(rec) and bool(tails), f.where(), construct=f.ident, text="recursion in " + nm)
        cfg = f.cfg()
        for c in rec:
            n = [y for y in cfg.nodes if y.kind != "branch" and any(z is c for z in y.calls())]
            if not n:
                continue
            g = cfg.guards_at(n[0].id)
            ok = g.get("dest_color is None") is True
            chk.ob("TOP-1", "%s defers to the lower entries only for a transparent entry (no colour of its own)" % nm, ok, f.where(c),
                   detail="guards %s" % sorted(g.items()), construct=f.ident, text="recursion guard in " + nm)
            a0 = c.args[0] if c.args else None
            chk.ob("TOP-1", "%s recurses on the rest of the stack" % nm, a0 is not None and src(a0) == "stack[1:]", f.where(c), construct=f.ident,
                   text="recursion argument in " + nm)
            if nm == "_get_color_and_fade":
                chk.ob("TOP-1", "the fade budget is handed down unchanged", len(c.args) >= 2 and src(c.args[1]) == "max_fade_ms", f.where(c),
                       construct=f.ident, text="recursion budget")
        # empty stack -> off
        offs = [r for r in ast.walk(f.node) if isinstance(r, ast.Return) and "self._off_color" in src(r)]
        chk.ob("TOP-1", "%s: an empty stack means off" % nm, bool(offs), f.where(), construct=f.ident, text="empty stack in " + nm)
    f = repo.func(LT, "Light._schedule_update")
    cfg = f.cfg()
    loops = [h for h in cfg.nodes if h.kind == "loop" and "hw_drivers" in src(h.ast.iter)]
    if not loops:
        chk.missing("CORR-1", "_schedule_update walks the hardware channels", f)
        return
    head = loops[0]
    for var in ("start_color", "target_color"):
        defs = [n for n in cfg.nodes if n.kind == "stmt" and isinstance(n.ast, ast.Assign) and src(n.ast.targets[0]) == var and cfg.path_avoiding(n.id, [head.id], [])]
        bad = None
        corrected = []
        for n in defs:
            v = src(n.ast.value)
            if "self.color_correct(self.gamma_correct(" in v.replace(" ", ""):
                corrected.append(n.id)
            elif v in ("start_color", "target_color") :
                corrected.append(n.id)      # alias of the other (checked below)
        # every path from entry to the channel loop passes a correcting definition of var after the raw one
        raw = [n.id for n in cfg.nodes if n.kind == "stmt" and isinstance(n.ast, ast.Assign) and isinstance(n.ast.targets[0], ast.Tuple)
               and var in [src(e) for e in n.ast.targets[0].elts]]
        w = cfg.path_avoiding(raw[0], [head.id], corrected, ignore_exc=True) if raw else [0]
        chk.ob("CORR-1", "%s is gamma- and colour-corrected before it is split into channel brightnesses" % var, bool(raw) and w is None, f.where(),
               path=cfg.fmt_path(w, LT) if raw and w else None, construct=f.ident, text="uncorrected " + var)
        for n in defs:
            v = src(n.ast.value)
            if v in ("start_color", "target_color") and v != var:
                other_corrected = any(cfg.dominates(d.id, n.id) and "self.color_correct(self.gamma_correct(" in src(d.ast.value).replace(" ", "")
                                      for d in cfg.nodes if d.kind == "stmt" and isinstance(d.ast, ast.Assign) and src(d.ast.targets[0]) == v)
                chk.ob("CORR-1", "%s aliases the already corrected %s" % (var, v), other_corrected, f.where(n.ast), construct=f.ident,
                       text="alias of uncorrected colour")
    for c in [x for x in ast.walk(f.node) if isinstance(x, ast.Call) and isinstance(x.func, ast.Name) and x.func.id in ("min", "max")]:
        args = [src(a) for a in c.args]
        base = args[0].rsplit(".", 1)[0] if args else ""
        ok = c.func.id == "min" and sorted(args) == sorted([base + ".red", base + ".green", base + ".blue"]) and base in ("start_color", "target_color")
        chk.ob("WHITE-1", "the white part of a colour is min(red, green, blue) of that colour", ok, f.where(c), detail=src(c), construct=f.ident,
               text="white part " + src(c))
    # start brightness from the start colour, target brightness from the target colour
    for n in cfg.nodes:
        if n.kind == "stmt" and isinstance(n.ast, ast.Assign) and src(n.ast.targets[0]) in ("start_brightness", "target_brightness"):
            want = "start_color" if src(n.ast.targets[0]) == "start_brightness" else "target_color"
            other = "target_color" if want == "start_color" else "start_color"
            names = {x.id for x in ast.walk(n.ast.value) if isinstance(x, ast.Name)}
            ok = other not in names and (want in names or isinstance(n.ast.value, ast.Constant))
            chk.ob("CORR-1", "%s is computed from %s" % (src(n.ast.targets[0]), want), ok, f.where(n.ast), detail=src(n.ast.value), construct=f.ident,
                   text="%s from %s" % (src(n.ast.targets[0]), sorted(names & {"start_color", "target_color"})))
            if isinstance(n.ast.value, ast.BinOp) and isinstance(n.ast.value.op, ast.Div):
                chk.ob("CORR-1", "channel brightness is the 8-bit component / 255", const_value(n.ast.value.right) == 255, f.where(n.ast),
                       construct=f.ident, text="brightness scale")
    chk.floor("TOP-1", 12)
    chk.floor("CORR-1", 10)


def _direct_fade(chk, repo):
    """FADE-1: LightPlatformDirectFade.set_fade always ends in a command that leads to the target brightness: either one direct
    command with the target, or a software fade task over the same four values whose last command is the target."""
    f = repo.func(LI, "LightPlatformDirectFade.set_fade")
    chk.analysed(f)
    cfg = f.cfg()
    params = [p_ for p_ in f.params() if p_ != "self"]
    direct = [(n, c) for n, c in cfg.calls_named("set_brightness_and_fade")]
    tasks = [(n, c) for n, c in cfg.calls_named("create_task")]
    for n, c in direct:
        chk.ob("FADE-1", "the direct command sets the target brightness", bool(c.args) and src(c.args[0]) == "target_brightness", f.where(c),
               construct=f.ident, text="direct command brightness")
        ok = len(c.args) >= 2 and "fade_ms" in src(c.args[1])
        chk.ob("FADE-1", "the direct command fades over the remaining fade time", ok, f.where(c), construct=f.ident, text="direct command fade")
    for n, c in tasks:
        inner = c.args[0] if c.args else None
        ok = isinstance(inner, ast.Call) and call_attr(inner) == "_fade" and [src(a) for a in inner.args] == params
        chk.ob("FADE-1", "the software fade runs over exactly the values given (start, start time, target, target time)", ok, f.where(c),
               detail=src(inner) if inner is not None else "", construct=f.ident, text="fade task arguments")
        st = [m for m in cfg.nodes if m.kind == "stmt" and isinstance(m.ast, ast.Assign) and src(m.ast.targets[0]) == "self.task" and m.ast.value is c]
        chk.ob("FADE-1", "the running fade task is remembered (so that a later command can cancel it)", bool(st), f.where(c), construct=f.ident,
               text="fade task stored")
    ends = [n.id for n, c in direct + tasks]
    w = cfg.must_pass(cfg.entry.id, ends)
    chk.ob("FADE-1", "every set_fade ends in a hardware command or a fade task", bool(direct) and bool(tasks) and w is None, f.where(),
           path=cfg.fmt_path(w, LI) if w else None, construct=f.ident, text="set_fade without command")
    for n, c in tasks:
        g = cfg.guards_at(n.id)
        chk.ob("FADE-1", "a software fade task is used only for fades longer than the hardware can do", g.get("fade_ms > max_fade_ms") is True,
               f.where(c), detail="guards %s" % sorted(g.items()), construct=f.ident, text="fade task guard")
    fd = repo.func(LI, "LightPlatformDirectFade._fade")
    chk.analysed(fd)
    dc = fd.cfg()
    sets = [(n, c) for n, c in dc.calls_named("set_brightness_and_fade")]
    rets = [n for n in dc.nodes if n.kind == "stmt" and isinstance(n.ast, ast.Return)]
    heads = [h.id for h in dc.nodes if h.kind == "join" and isinstance(h.ast, ast.While)]
    for r in rets:
        w = None
        for h in heads:
            w = w or dc.path_avoiding(h, [r.id], [n.id for n, c in sets], ignore_exc=True)
        chk.ob("FADE-1", "the fade task stops only after it has sent a command in that round", bool(sets) and w is None, fd.where(r.ast),
               construct=fd.ident, text="fade task returns without command")
        g = dc.guards_at(r.id)
        chk.ob("FADE-1", "the fade task stops when the rest of the fade fits into one hardware fade", g.get("target_fade_ms <= max_fade_ms") is True,
               fd.where(r.ast), detail="guards %s" % sorted(g.items()), construct=fd.ident, text="fade task stop guard")
    fin = [n for n in dc.nodes if n.kind == "stmt" and isinstance(n.ast, ast.Assign) and src(n.ast.targets[0]) == "brightness"
           and src(n.ast.value) == "target_brightness"]
    ok = bool(fin) and all(any(k.startswith("target_fade_ms > max_fade_ms") and v is False for k, v in dc.guards_at(n.id).items()) for n in fin)
    chk.ob("FADE-1", "the last step of a software fade commands the target brightness itself", ok, fd.where(), construct=fd.ident,
           text="final brightness of fade task")
    for n, c in sets:
        a = c.args[0] if c.args else None
        ok = a is not None and "brightness" in src(a)
        if isinstance(a, ast.Call):
            ok = src(a).replace(" ", "") in ("min(1.0,max(brightness,0.0))", "max(0.0,min(brightness,1.0))", "min(1,max(brightness,0))")
        chk.ob("FADE-1", "interpolated brightness is clamped to [0, 1]", ok, fd.where(c), detail=src(a) if a is not None else "", construct=fd.ident,
               text="fade clamp")
    chk.floor("FADE-1", 8)


def _removal_always_removes(chk, repo):
    """REMOVE-9: removing a key that is in the stack always takes the key's entry out: every returning path of
    Light.remove_from_stack_by_key passes `_remove_from_stack_by_key(key)` unless the stack is empty or the key was not found.  (A key
    that is already fading out is removed at once - "do not fade out the fade out" - not left alone: its transparent entry keeps its
    priority and makes `_add_to_stack` reject a later, lower-priority use of the same key.)"""
    f = repo.func(LT, "Light.remove_from_stack_by_key")
    chk.analysed(f)
    cfg = f.cfg()
    rm = [n.id for n, c in cfg.calls_named("_remove_from_stack_by_key") if [src(a) for a in c.args] == ["key"]]
    chk.need(rm, "REMOVE-9", "Light.remove_from_stack_by_key takes the key's entries out (_remove_from_stack_by_key(key))", f)
    local = {t.id for x in walk_local(f.node) if isinstance(x, ast.Assign) for t in x.targets if isinstance(t, ast.Name) and
             isinstance(x.value, ast.Subscript) and src(x.value.value) == "self.stack"}
    nothing = [b.id for b in cfg.nodes if b.kind == "branch" and b.value is False and
               (src(b.ast) == "self.stack" or (isinstance(b.ast, ast.Name) and b.ast.id in local))]
    w = cfg.must_pass(cfg.entry.id, rm + nothing)
    chk.ob("REMOVE-9", "every returning path of remove_from_stack_by_key removes the key's entry unless the stack is empty or the key is not in it",
           w is None, f.where(), construct=f.ident,
           detail="a removal that is ignored (e.g. while the key fades out) leaves its entry, colour and priority in the stack",
           text="removal of a present key ignored", path=cfg.fmt_path(w, f) if w else None, nontrivial=True)
    upd = [n.id for n, c in cfg.calls_named("_schedule_update")]
    nochange = [b.id for b in cfg.nodes if b.kind == "branch" and b.value is False and src(b.ast) == "color_changes"]
    for r in rm:
        w = cfg.must_pass(r, upd + nochange)
        chk.ob("REMOVE-9", "after the removal the light is updated unless an opaque entry above hides the change", w is None and bool(upd),
               f.where(cfg.nodes[r].ast), construct=f.ident, text="update after removal", path=cfg.fmt_path(w, f) if w else None)


def _light_player(chk, repo):
    """PLAYER-9: the light player sets and removes colours under one key per (context, key) and keeps a record of every colour it set.
    play and _remove derive the stack key by the same expression; both walk every configured light (named lights / tags through the
    *_named helper, light objects directly) without leaving the loop; the colour is set with the entry's fade and priority plus the
    caller's; "stop" removes instead; every colour set is recorded under (key, light) and clear_context removes exactly the recorded
    ones; a subscription plays when its condition holds and removes, under the same key, when it does not."""
    LP = "mpf/config_players/light_player.py"
    cls = repo.cls(LP, "LightPlayer")
    play, rem, lc, lr, cc, hs = (cls.methods.get(k) for k in ("play", "_remove", "_light_color", "_light_remove", "clear_context", "handle_subscription_change"))
    chk.need(all(x is not None for x in (play, rem, lc, lr, cc, hs)), "PLAYER-9", "LightPlayer has play / _remove / _light_color / _light_remove / clear_context", repo.func(LT, "Light.color"))
    chk.analysed(play, rem, lc, lr, cc, hs, cls.methods["_light_named_color"], cls.methods["_light_remove_named"])

    def full_ctx(f):
        d = [x for x in walk_local(f.node) if isinstance(x, ast.Assign) and src(x.targets[0]) == "full_context"]
        return src(d[0].value) if len(d) == 1 else None
    kp = [x for x in walk_local(play.node) if isinstance(x, ast.Assign) and src(x.targets[0]) == "key"]
    ok = full_ctx(play) == full_ctx(rem) == "self._get_full_context(context + key)" and len(kp) == 1 and src(kp[0].value).replace('"', "'") == "kwargs.get('key', '')"
    chk.ob("PLAYER-9", "play and _remove address the light stacks under the same key expression (context + key)", ok, rem.where(),
           detail="play: %s, _remove: %s" % (full_ctx(play), full_ctx(rem)), construct=rem.ident, text="light player key expression")
    for f, named, direct in ((play, "_light_named_color", "_light_color"), (rem, "_light_remove_named", "_light_remove")):
        cfg = f.cfg()
        heads = [h for h in cfg.nodes if h.kind == "loop"]
        outer = [h for h in heads if src(h.ast.iter) == "settings.items()"]
        acts = [(n, c) for n, c in cfg.calls_named(named, direct)]
        ok = len(outer) == 1 and not any(early_exits(cfg, h) for h in heads) and {call_attr(c) for _, c in acts} == {named, direct}
        chk.ob("PLAYER-9", "%s visits every configured light (named or object) and never leaves the loops early" % f.qualname, ok, f.where(), construct=f.ident,
               text="light player loop " + f.name)
        for n, c in acts:
            a = [src(x) for x in c.args]
            want_tail = ["instance_dict", "full_context"]
            q = [x.replace('"', "'") for x in a]
            tail = ["s['color']", "s['fade']", "final_priority", "start_time"] if f is play else ["s['fade']"]
            ok = q[0] in ("light", "light_name") and q[1:3] == want_tail and q[3:] == tail
            chk.ob("PLAYER-9", "%s hands the entry's own colour / fade, the summed priority and the key on" % f.qualname, ok, f.where(c), detail=str(a),
                   construct=f.ident, text="light player arguments " + call_attr(c))
    pcfg = play.cfg()
    fp = [n for n in pcfg.nodes if n.kind == "stmt" and isinstance(n.ast, (ast.Assign, ast.AugAssign)) and src(n.ast.targets[0] if isinstance(n.ast, ast.Assign) else n.ast.target) == "final_priority"]
    txt = " ".join(src(n.ast).replace('"', "'") for n in fp)
    ok = "s['priority']" in txt and ("+= priority" in txt or "+ priority" in txt)
    chk.ob("PLAYER-9", "a colour's priority is the entry's priority plus the caller's", ok, play.where(), detail=txt, construct=play.ident, text="light player priority sum")
    # _light_color
    lcfg = lc.cfg()
    col = [(n, c) for n, c in lcfg.calls_named("color") if src(c.func.value) == "light"]
    chk.need(len(col) == 1, "PLAYER-9", "_light_color sets the colour on the light", lc)
    cn, ccall = col[0]
    kw = {k.arg: src(k.value) for k in ccall.keywords}
    ok = [src(a) for a in ccall.args] == ["color"] and kw == {"key": "full_context", "fade_ms": "fade_ms", "priority": "priority", "start_time": "start_time"}
    chk.ob("PLAYER-9", "the colour is set under the key with the given fade, priority and start time", ok, lc.where(ccall), detail=str(kw), construct=lc.ident,
           text="light.color arguments")
    rec = [n for n in lcfg.nodes if n.kind == "stmt" and isinstance(n.ast, ast.Assign) and src(n.ast.targets[0]) == "instance_dict[full_context, light]"
           or n.kind == "stmt" and isinstance(n.ast, ast.Assign) and src(n.ast.targets[0]).replace(" ", "") == "instance_dict[(full_context,light)]"]
    w = lcfg.must_pass(cn.id, [n.id for n in rec]) if rec else [cn.id]
    chk.ob("PLAYER-9", "every colour set is recorded under (key, light) (clear_context removes what is recorded, nothing else)", w is None, lc.where(ccall),
           construct=lc.ident, text="light player record", path=lcfg.fmt_path(w, lc) if w and len(w) > 1 else None)
    stop = [(n, c) for n, c in lcfg.calls_named("_light_remove")]
    from sa.cfg import canon_set as _cs
    ok = len(stop) == 1 and [src(a) for a in stop[0][1].args] == ["light", "instance_dict", "full_context", "fade_ms"] and \
        any("'stop'" in k.replace('"', "'") and v is True for k, v in lcfg.guards_at(stop[0][0].id).items()) and \
        lcfg.path_avoiding(stop[0][0].id, [cn.id], [], ignore_exc=True) is None
    chk.ob("PLAYER-9", "the colour `stop` removes the key from the light (with the entry's fade) and sets nothing", ok, lc.where(), construct=lc.ident, text="light player stop")
    # _light_remove
    rcalls = [c for c in lr.calls() if call_attr(c) == "remove_from_stack_by_key"]
    dels = [x for x in walk_local(lr.node) if isinstance(x, ast.Delete)]
    ok = len(rcalls) == 1 and [src(a) for a in rcalls[0].args] == ["full_context", "fade_ms"] and src(rcalls[0].func.value) == "light" and \
        len(dels) == 1 and src(dels[0].targets[0]).replace(" ", "") in ("instance_dict[full_context,light]", "instance_dict[(full_context,light)]")
    chk.ob("PLAYER-9", "_light_remove removes the key from the light with the given fade and forgets the record of exactly that (key, light)", ok, lr.where(),
           construct=lr.ident, text="light player remove")
    # clear_context
    ccfg = cc.cfg()
    heads = [h for h in ccfg.nodes if h.kind == "loop"]
    rmc = [(n, c) for n, c in ccfg.calls_named("remove_from_stack_by_key")]
    rst = [n.id for n, c in ccfg.calls_named("_reset_instance_dict")]
    ok = len(heads) == 1 and "_get_instance_dict(context)" in src(heads[0].ast.iter) and src(heads[0].ast.iter).endswith(".items()") and len(rmc) == 1 and \
        not early_exits(ccfg, heads[0]) and not inloop_guards(ccfg, rmc[0][0].id, heads[0].id) and bool(rst) and ccfg.must_pass(ccfg.entry.id, rst) is None
    if ok:
        tgt = heads[0].ast.target
        ok = isinstance(tgt, ast.Tuple) and isinstance(tgt.elts[0], ast.Tuple) and src(rmc[0][1].func.value) == src(tgt.elts[1]) and \
            [src(a) for a in rmc[0][1].args][:1] == [src(tgt.elts[0].elts[0])]
    chk.ob("PLAYER-9", "clear_context removes every recorded colour from its light under its recorded key, then forgets the records", ok, cc.where(), construct=cc.ident,
           text="light player clear_context")
    # subscriptions
    hcfg = hs.cfg()
    pl = [(n, c) for n, c in hcfg.calls_named("play")]
    rm_ = [(n, c) for n, c in hcfg.calls_named("_remove")]
    ok = len(pl) == 1 and len(rm_) == 1 and hcfg.guards_at(pl[0][0].id).get("value") is True and hcfg.guards_at(rm_[0][0].id).get("value") is False and \
        kwarg(pl[0][1], "key") is not None and kwarg(rm_[0][1], "key") is not None and src(kwarg(pl[0][1], "key")) == src(kwarg(rm_[0][1], "key")) == "key" and \
        [src(a) for a in pl[0][1].args][:2] == [src(a) for a in rm_[0][1].args][:2] == ["settings", "context"]
    chk.ob("PLAYER-9", "a conditional light entry is played while its condition holds and removed, under the same context and key, when it does not", ok, hs.where(),
           construct=hs.ident, text="light player subscription")
    chk.floor("PLAYER-9", 12)


def _commands_reach_the_stack(chk, repo):
    """CMD-9: every colour command becomes a stack entry.  Each returning path of Light.color hands (color, fade_ms, priority, key, start_time)
    to _add_to_stack - whatever the stack holds already (a command at high priority on an empty stack must still be there when a lower one
    arrives; a repeated command must still end a running fade or fade-out of its key); on() and off() reach color() on every path with the
    caller's fade, priority and key."""
    f = repo.func(LT, "Light.color")
    chk.analysed(f)
    cfg = f.cfg()
    adds = [(n, c) for n, c in cfg.calls_named("_add_to_stack") if dotted(c.func.value) == "self"]
    chk.need(adds, "CMD-9", "Light.color adds the command to the stack (_add_to_stack)", f)
    w = cfg.must_pass(cfg.entry.id, [n.id for n, _ in adds])
    chk.ob("CMD-9", "every returning path of Light.color adds the command to the stack", w is None, f.where(), construct=f.ident,
           detail="a command that is dropped because of what the stack holds (empty: `already off`; same colour on top: `already there`) is missing "
                  "when the entries around it change", text="colour command dropped", path=cfg.fmt_path(w, f) if w else None, nontrivial=True)
    for n, c in adds:
        chk.ob("CMD-9", "the stack entry carries the command's colour, fade, priority, key and start time", [src(a) for a in c.args] == ["color", "fade_ms", "priority", "key", "start_time"] and not c.keywords,
               f.where(c), detail=src(c), construct=f.ident, text="_add_to_stack arguments")
    for name in ("on", "off"):
        g = repo.func(LT, "Light." + name)
        chk.analysed(g)
        gcfg = g.cfg()
        cols = [(n, c) for n, c in gcfg.calls_named("color") if dotted(c.func.value) == "self"]
        w = gcfg.must_pass(gcfg.entry.id, [n.id for n, _ in cols]) if cols else [gcfg.entry.id]
        chk.ob("CMD-9", "every returning path of Light.%s issues the colour command" % name, w is None, g.where(), construct=g.ident,
               text="Light.%s without command" % name, path=gcfg.fmt_path(w, g) if w and len(w) > 1 else None, nontrivial=True)
        for n, c in cols:
            kw = {k.arg: src(k.value) for k in c.keywords}
            ok = kw.get("fade_ms") == "fade_ms" and kw.get("priority") == "priority" and kw.get("key") == "key" and \
                (kw.get("color") == ("self._off_color" if name == "off" else "color"))
            chk.ob("CMD-9", "Light.%s hands its fade, priority and key on (colour: %s)" % (name, "off colour" if name == "off" else "the on colour"), ok, g.where(c),
                   detail=str(kw), construct=g.ident, text="Light.%s arguments" % name)


def _default_fade_only_for_none(chk, repo):
    """FADE-2 (default): the light's default fade stands in for a fade that was *not given* (None) - an explicit 0 means "at once".  In
    Light.color and Light.remove_from_stack_by_key the assignment `fade_ms = self.default_fade_ms` is selected exactly by `fade_ms is None`."""
    from sa.cfg import canon_set as _cs, canon_fact as _cf
    from sa.helpers import positive as _pos
    for name in ("color", "remove_from_stack_by_key"):
        f = repo.func(LT, "Light." + name)
        cfg = f.cfg()
        st = [n for n in cfg.nodes if n.kind == "stmt" and isinstance(n.ast, ast.Assign) and src(n.ast.targets[0]) == "fade_ms" and src(n.ast.value) == "self.default_fade_ms"]
        chk.need(st, "FADE-2", "Light.%s falls back to the light's default fade" % name, f)
        for n in st:
            got = {kv for kv in _pos(set(_cs(cfg.guards_at(n.id)))) if "fade_ms" in kv[0]}
            chk.ob("FADE-2", "Light.%s takes the default fade exactly when no fade was given (None), not for an explicit 0" % name, got == _pos({_cf("fade_ms is None", True)}),
                   f.where(n.ast), detail="default taken under %s" % sorted(got), construct=f.ident, text="default fade condition in " + name)


def _batch_skip_and_fadeout_source(chk, repo):
    """BATCH-2 (skip): a batch is addressed as "first light + N consecutive values": a light whose brightness the hardware already has is left
    out only while the batch is still empty (`not sequential_brightness_list` holds definitely where the loop `continue`s) - left out in the
    middle, every later value lands on the wrong channel.
    FADE-2 (fade-out): the colour a removed key fades out from is the colour of the sub-stack that starts at the key (what that key showed),
    not of the whole stack (what a higher entry shows)."""
    PBF = "mpf/core/platform_batch_light_system.py"
    f = repo.func(PBF, "PlatformBatchLightSystem._send_update_batch")
    chk.analysed(f)
    cfg = f.cfg()
    conts = [n for n in cfg.nodes if n.kind == "stmt" and isinstance(n.ast, ast.Continue)]
    chk.need(conts, "BATCH-2", "_send_update_batch skips lights whose brightness is already realised", f)
    for n in conts:
        g = cfg.guards_at(n.id)
        ok = g.get("sequential_brightness_list") is False or g.get("not sequential_brightness_list") is True
        chk.ob("BATCH-2", "an already realised light is skipped only at the beginning of a batch", ok, f.where(n.ast), detail="guards %s" % sorted(g.items()), construct=f.ident,
               text="batch skip position")
    g_ = repo.func(LT, "Light.remove_from_stack_by_key")
    sub = {t.id for x in walk_local(g_.node) if isinstance(x, ast.Assign) and isinstance(x.value, ast.Subscript) and src(x.value.value) == "self.stack" and
           isinstance(x.value.slice, ast.Slice) for t in x.targets if isinstance(t, ast.Name)}
    cs = [c for c in g_.calls() if call_attr(c) == "_get_color_and_fade"]
    ok = bool(cs) and bool(sub) and all(c.args and isinstance(c.args[0], ast.Name) and c.args[0].id in sub for c in cs)
    chk.ob("FADE-2", "a fade-out starts from the colour of the sub-stack beginning at the removed key", ok, g_.where(cs[0]) if cs else g_.where(),
           detail=", ".join(src(c.args[0]) for c in cs if c.args), construct=g_.ident, text="fade-out start colour source")


def scan_exits_only_at_key(chk, rule, g, gcfg, h, name):
    """Every early exit (break / return) of a stack scan is taken at the key, so the entry with that key is always found."""
    for n in gcfg.nodes_where(lambda n: n.kind == "stmt" and isinstance(n.ast, (ast.Break, ast.Return))):
        if not any(x is n.ast for st in h.ast.body for x in ast.walk(st)):
            continue
        gd = gcfg.guards_at(n.id)
        ok = any(k.replace(" ", "") == "entry.key==key" and v is True for k, v in gd.items())
        chk.ob(rule, "the stack scan of Light.%s is left early only at the key (the entry is always found)" % name, ok, g.where(n.ast),
               detail="leaving at an opaque entry above the key means the key's entry is never found: it stays on the stack for ever",
               construct=g.ident, text="scan exit before key in " + name)


def battery():
    from sa.battery import M
    return [
        M("corrected colours remembered as the last target", LT, "        self._last_fade_target = (start_color, start_time, target_color, target_time)\n\n        if start_color != target_color:\n            start_color = self.color_correct(self.gamma_correct(start_color))\n            target_color = self.color_correct(self.gamma_correct(target_color))\n        else:\n            start_color = self.color_correct(self.gamma_correct(start_color))\n            target_color = start_color\n", "        if start_color != target_color:\n            start_color = self.color_correct(self.gamma_correct(start_color))\n            target_color = self.color_correct(self.gamma_correct(target_color))\n        else:\n            start_color = self.color_correct(self.gamma_correct(start_color))\n            target_color = start_color\n\n        self._last_fade_target = (start_color, start_time, target_color, target_time)\n", "SUPP-1"),
        M("realised light skipped in the middle of an un-faded batch", "mpf/core/platform_batch_light_system.py", "                        not sequential_brightness_list:\n", "                        (not sequential_brightness_list or fade_ms == 0):\n", "BATCH-2"),
        M("fade-out starts from the colour on top of the stack", LT, "            color_of_key = self._get_color_and_fade(stack, 0)[0]", "            color_of_key = self._get_color_and_fade(self.stack, 0)[0]", "FADE-2"),
        M("explicit fade 0 replaced by the default on removal", LT, "            return\n\n        if fade_ms is None:\n            fade_ms = self.default_fade_ms\n\n        key = str(key)", "            return\n\n        if not fade_ms:\n            fade_ms = self.default_fade_ms\n\n        key = str(key)", "FADE-2"),
        M("remembered fade unpacked in the wrong order", LT, "        if self._last_fade_target and target_color == self._last_fade_target[2] and \\\n                (self._last_fade_target[3] < 0 or self._last_fade_target[3] < self.machine.clock.get_time()):\n", "        last_color, _, _, last_time = self._last_fade_target or (None, 0, None, 0)\n        if self._last_fade_target and target_color == last_color and \\\n                (last_time < 0 or last_time < self.machine.clock.get_time()):\n", "SUPP-1"),
        M("twin: remembered fade read through an unpacking", LT, "        if self._last_fade_target and target_color == self._last_fade_target[2] and \\\n                (self._last_fade_target[3] < 0 or self._last_fade_target[3] < self.machine.clock.get_time()):\n", "        _, _, last_color, last_time = self._last_fade_target or (None, 0, None, 0)\n        if self._last_fade_target and target_color == last_color and \\\n                (last_time < 0 or last_time < self.machine.clock.get_time()):\n", None),
        M("off on an empty stack is dropped", LT, "        del kwargs\n        self.color(color=self._off_color, fade_ms=fade_ms, priority=priority,", "        del kwargs\n        if not self.stack:\n            return\n        self.color(color=self._off_color, fade_ms=fade_ms, priority=priority,", "CMD-9"),
        M("repeated colour on top is dropped", LT, "        if not start_time:\n            start_time = self.machine.clock.get_time()\n\n        color_changes =", "        if self.stack and not fade_ms and self.stack[0].key == key and self.stack[0].dest_color == color:\n            return\n        if not start_time:\n            start_time = self.machine.clock.get_time()\n\n        color_changes =", "CMD-9"),
        M("on() ignores the priority", LT, "        self.color(color=color, fade_ms=fade_ms,\n                   priority=priority, key=key)", "        self.color(color=color, fade_ms=fade_ms,\n                   key=key)", ("CMD-9", "DROP-0")),
        M("light player removes under the bare context", "mpf/config_players/light_player.py", "    def _remove(self, settings, context, key=\"\"):\n        instance_dict = self._get_instance_dict(context)\n        full_context = self._get_full_context(context + key)", "    def _remove(self, settings, context, key=\"\"):\n        instance_dict = self._get_instance_dict(context)\n        full_context = self._get_full_context(context)", "PLAYER-9"),
        M("light player stops at the first unreplaced placeholder", "mpf/config_players/light_player.py", "                    if not light_name or light_name[0:1] == \"(\" and light_name[-1:] == \")\":\n                        continue", "                    if not light_name or light_name[0:1] == \"(\" and light_name[-1:] == \")\":\n                        break", "PLAYER-9"),
        M("light player ignores the caller's priority", "mpf/config_players/light_player.py", "                final_priority += priority", "                final_priority += 0", "PLAYER-9"),
        M("colour set without a record", "mpf/config_players/light_player.py", "        instance_dict[(full_context, light)] = light\n", "        if fade_ms:\n            instance_dict[(full_context, light)] = light\n", "PLAYER-9"),
        M("stop colour ignores the fade", "mpf/config_players/light_player.py", "            self._light_remove(light, instance_dict, full_context, fade_ms)\n            return", "            self._light_remove(light, instance_dict, full_context, None)\n            return", "PLAYER-9"),
        M("clear_context keeps the records", "mpf/config_players/light_player.py", "            light.remove_from_stack_by_key(full_context)\n\n        self._reset_instance_dict(context)", "            light.remove_from_stack_by_key(full_context)\n", "PLAYER-9"),
        M("conditional light removed without its key", "mpf/config_players/light_player.py", "            self._remove(settings, context, key=key)", "            self._remove(settings, context)", ("PLAYER-9", "DROP-0")),
        M("removal of a light forgets the fade", "mpf/config_players/light_player.py", "        light.remove_from_stack_by_key(full_context, fade_ms)", "        light.remove_from_stack_by_key(full_context)", ("PLAYER-9", "DROP-0")),
        M("twin: light player priority summed in one expression", "mpf/config_players/light_player.py", "            final_priority = s[\"priority\"]\n            try:\n                final_priority += priority\n            except KeyError:\n                final_priority = priority", "            final_priority = s[\"priority\"] + priority", None),
        M("second removal during the fade-out ignored", LT, "        if stack[0].dest_color is None:\n            fade_ms = None\n", "        if stack[0].dest_color is None:\n            return\n", "REMOVE-9"),
        M("brightness subscription dropped when nothing changed", "mpf/core/light_controller.py", "        self.brightness_factor, future = self._brightness_template.evaluate_and_subscribe([])\n        future.add_done_callback(self._update_brightness)", "        factor, future = self._brightness_template.evaluate_and_subscribe([])\n        if factor == self.brightness_factor:\n            return\n        self.brightness_factor = factor\n        future.add_done_callback(self._update_brightness)", "REARM-0"),
        M("twin: brightness subscription renewed before the comparison", "mpf/core/light_controller.py", "        self.brightness_factor, future = self._brightness_template.evaluate_and_subscribe([])\n        future.add_done_callback(self._update_brightness)", "        factor, future = self._brightness_template.evaluate_and_subscribe([])\n        future.add_done_callback(self._update_brightness)\n        if factor == self.brightness_factor:\n            return\n        self.brightness_factor = factor", None),
        M("fade-out scan gives up at opaque entry", LT, "                # found entry above the removed which is non-transparent\n                color_change = False\n", "                # found entry above the removed which is non-transparent\n                color_change = False\n                break\n", "DOM-19"),
        M("append without sort", LT, "        if len(self.stack) > 1:\n            self.stack.sort(reverse=True)\n\n        if self._debug:\n            self.debug_log(\"+-------------- Adding to stack", "        if self._debug:\n            self.debug_log(\"+-------------- Adding to stack", "SORT-3"),
        M("stack ascending", LT, "            self.stack.sort(reverse=True)\n\n        if self._debug:", "            self.stack.sort()\n\n        if self._debug:", "SORT-3"),
        M("entry order ignores key", LT, "return self.priority > other.priority or (self.priority == other.priority and self.key > other.key)", "return self.priority > other.priority", "SORT-3"),
        M("player edits stack", "mpf/config_players/light_player.py", "            light.remove_from_stack_by_key(full_context)", "            light.stack.clear()", "OWN-11"),
        M("target brightness only for rgb", LT, "                else:  # white is the minimum of RGB\n                    start_brightness = min(start_color.red, start_color.green, start_color.blue) / 255.0\n                    target_brightness = min(target_color.red, target_color.green, target_color.blue) / 255.0", "                else:  # white is the minimum of RGB\n                    start_brightness = min(start_color.red, start_color.green, start_color.blue) / 255.0", "DOM-18"),
        M("target from start colour", LT, "                    target_brightness = getattr(target_color, color) / 255.0\n\n            elif color == \"white\":", "                    target_brightness = getattr(start_color, color) / 255.0\n\n            elif color == \"white\":", "DOM-18"),
        M("set_fade args swapped", LT, "driver.set_fade(start_brightness, start_time, target_brightness, target_time)", "driver.set_fade(target_brightness, start_time, start_brightness, target_time)", "DOM-18"),
        M("no light_sync", LT, "        for platform in self.platforms:\n            platform.light_sync()\n\n    def clear_stack", "\n    def clear_stack", "DOM-18"),
        M("clear_stack without refresh", LT, "            self.debug_log(\"Clearing Stack\")\n\n        self._schedule_update()", "            self.debug_log(\"Clearing Stack\")", "DOM-19"),
        M("color flag after insertion", LT, "        color_changes = not self.stack or self.stack[0].priority <= priority or self.stack[0].dest_color is None\n\n        self._add_to_stack(color, fade_ms, priority, key, start_time)", "        self._add_to_stack(color, fade_ms, priority, key, start_time)\n\n        color_changes = not self.stack or self.stack[0].priority <= priority or self.stack[0].dest_color is None", "DOM-19"),
        M("color flag strict priority", LT, "self.stack[0].priority <= priority or", "self.stack[0].priority < priority or", "DOM-19"),
        M("fade-out scan does not stop", LT, "        for _, entry in enumerate(self.stack):\n            if entry.key == key and entry.dest_color is None:\n                found = True\n                break\n            if entry.dest_color is not None:", "        for entry in self.stack:\n            if entry.key == key and entry.dest_color is None:\n                found = True\n            elif entry.dest_color is not None:", "DOM-19"),
        M("remove refreshes only on top", LT, "        if color_changes:\n            self._schedule_update()\n\n    def _remove_fade_out", "        if color_changes and priority:\n            self._schedule_update()\n\n    def _remove_fade_out", "DOM-19"),
        M("fade end in ms", LT, "            dest_time = start_time + (fade_ms / 1000)", "            dest_time = start_time + fade_ms", "UNIT-3"),
        M("fade-out removed after seconds", LT, "self.delay.reset(ms=fade_ms, callback=partial(self._remove_fade_out, key=key),", "self.delay.reset(ms=fade_ms / 1000, callback=partial(self._remove_fade_out, key=key),", "UNIT-3"),
        M("driver without set_brightness", "mpf/platforms/driver_light_platform.py", "    def set_brightness(self, brightness: float):", "    def set_brightness_x(self, brightness: float):", "SIB-3"),
        M("instant colour keeps old fade task", LI, "            if self.task:\n                self.task.cancel()\n                self.task = None\n            self.set_brightness_and_fade(target_brightness, max(fade_ms, 0))", "            self.set_brightness_and_fade(target_brightness, max(fade_ms, 0))", "PAIR-23"),
        M("batch records only finished fades", BL, "                    continue\n\n            self.last_state[light] = (brightness, schedule_time)", "                    continue\n                self.last_state[light] = (brightness, schedule_time)", "BATCH-1"),
        M("batch skip ignores value", BL, "if last_state and last_state[0] == brightness and last_state[1] < schedule_time and \\", "if last_state and last_state[1] < schedule_time and \\", "BATCH-1"),
        # twins
        M("twin: tuple comparison", LT, "return self.priority > other.priority or (self.priority == other.priority and self.key > other.key)", "return (self.priority, self.key) > (other.priority, other.key)", None),
        M("twin: unconditional sort", LT, "        if len(self.stack) > 1:\n            self.stack.sort(reverse=True)\n\n        if self._debug:\n            self.debug_log(\"+-------------- Adding to stack", "        self.stack.sort(reverse=True)\n\n        if self._debug:\n            self.debug_log(\"+-------------- Adding to stack", None),
        M("twin: scan without enumerate", LT, "        for _, entry in enumerate(self.stack):\n            if entry.key == key and entry.dest_color is None:\n                found = True\n                break", "        for entry in self.stack:\n            if entry.key == key and entry.dest_color is None:\n                found = True\n                break", None),
        M("transparent entry skips one level", LT, "                return self._get_color_and_fade(stack[1:], max_fade_ms)\n            return dest_color, -1, True", "                return self._get_color_and_fade(stack[2:], max_fade_ms)\n            return dest_color, -1, True", "TOP-1"),
        M("transparent entry re-reads itself", LT, "                return self._get_color_and_target_time(stack[1:])", "                return self._get_color_and_target_time(stack[:1])", "TOP-1"),
        M("colour read from second entry", LT, "        try:\n            color_settings = stack[0]\n        except IndexError:\n            # no stack\n            return self._off_color, -1, True", "        try:\n            color_settings = stack[1]\n        except IndexError:\n            # no stack\n            return self._off_color, -1, True", "TOP-1"),
        M("target colour not corrected", LT, "            start_color = self.color_correct(self.gamma_correct(start_color))\n            target_color = self.color_correct(self.gamma_correct(target_color))\n        else:", "            start_color = self.color_correct(self.gamma_correct(start_color))\n        else:", "CORR-1"),
        M("gamma correction dropped", LT, "            start_color = self.color_correct(self.gamma_correct(start_color))\n            target_color = start_color", "            start_color = self.color_correct(start_color)\n            target_color = start_color", "CORR-1"),
        M("white channel is max", LT, "                    start_brightness = min(start_color.red, start_color.green, start_color.blue) / 255.0", "                    start_brightness = max(start_color.red, start_color.green, start_color.blue) / 255.0", "WHITE-1"),
        M("target brightness from start colour", LT, "                    target_brightness = getattr(target_color, color) / 255.0\n\n            elif", "                    target_brightness = getattr(start_color, color) / 255.0\n\n            elif", "CORR-1"),
        M("batch item never added", BL, "                sequential_brightness_list.append((light, brightness, common_fade_ms))\n            else:", "                pass\n            else:", "BATCH-2"),
        M("full batch dropped unsent", BL, "                await self.update_callback(sequential_brightness_list)\n                # start new list", "                # start new list", "BATCH-2"),
        M("last batch not flushed", BL, "        if sequential_brightness_list:\n            await self.update_callback(sequential_brightness_list)\n", "", "BATCH-2"),
        M("sequence break drops the lights so far", BL, "                    await self._send_update_batch(sequential_lights, max_fade_tolerance)\n                    # this light is a new sequence", "                    # this light is a new sequence", "BATCH-2"),
        M("dirty set cleared before sending", BL, "            self.dirty_lights_changed.clear()\n            sequential_lights = []", "            self.dirty_lights_changed.clear()\n            self.dirty_lights.clear()\n            sequential_lights = []", "BATCH-2"),
        M("unfinished fade not rescheduled", BL, "                self.dirty_schedule.add((schedule_time, light))\n", "", "BATCH-3"),
        M("scheduler not woken for an earlier step", BL, "                if not self.dirty_schedule or self.dirty_schedule[0][0] > schedule_time:\n                    self.schedule_changed.set()\n", "", "BATCH-3"),
        M("step due in ms instead of s", BL, "schedule_time = current_time + (fade_ms / 1000)", "schedule_time = current_time + fade_ms", "BATCH-3"),
        M("software fade task never started", LI, "            self.task = self.loop.create_task(self._fade(start_brightness, start_time, target_brightness, target_time))\n            self.task.add_done_callback(Util.raise_exceptions)", "            pass", "FADE-1"),
        M("fade task start/target swapped", LI, "self._fade(start_brightness, start_time, target_brightness, target_time))", "self._fade(target_brightness, start_time, start_brightness, target_time))", "FADE-1"),
        M("direct command sets the start brightness", LI, "            self.set_brightness_and_fade(target_brightness, max(fade_ms, 0))", "            self.set_brightness_and_fade(start_brightness, max(fade_ms, 0))", "FADE-1"),
        M("fade task ends before the last command", LI, "            self.set_brightness_and_fade(min(1.0, max(brightness, 0.0)), max(fade_ms, 0))\n            if target_fade_ms <= max_fade_ms:\n                return", "            if target_fade_ms <= max_fade_ms:\n                return\n            self.set_brightness_and_fade(min(1.0, max(brightness, 0.0)), max(fade_ms, 0))", "FADE-1"),
        M("fade ratio measured from the end", LT, "            ratio = ((target_time - color_settings.start_time) /\n                     (color_settings.dest_time - color_settings.start_time))", "            ratio = ((target_time - color_settings.dest_time) /\n                     (color_settings.dest_time - color_settings.start_time))", "INTERP-1"),
        M("fade extrapolated before its start", LT, "        if target_time <= color_settings.start_time:\n            return color_settings.start_color, max_fade_ms, False\n", "", "INTERP-1"),
        M("fade blended backwards", LT, "        return RGBColor.blend(color_settings.start_color, dest_color, ratio), max_fade_ms, False", "        return RGBColor.blend(dest_color, color_settings.start_color, ratio), max_fade_ms, False", "INTERP-1"),
        M("finished fade shows its start colour", LT, "            return dest_color, int((color_settings.dest_time - current_time) * 1000), True", "            return color_settings.start_color, int((color_settings.dest_time - current_time) * 1000), True", "INTERP-1"),
        M("fade start colour read after the old entry is gone", LT, "        if fade_ms:\n            dest_time = start_time + (fade_ms / 1000)\n            color_below = self.get_color_below(priority, key)\n        else:\n            dest_time = 0\n            color_below = None\n\n        if self.stack:\n            self._remove_from_stack_by_key(key)\n", "        if self.stack:\n            self._remove_from_stack_by_key(key)\n\n        if fade_ms:\n            dest_time = start_time + (fade_ms / 1000)\n            color_below = self.get_color_below(priority, key)\n        else:\n            dest_time = 0\n            color_below = None\n", "FADE-2"),
        M("colour-below fast path ignores the priority", LT, "        if self.stack[0].key == key and self.stack[0].priority == priority:", "        if self.stack[0].key == key:", "FADE-2"),
        M("colour-below scan skips the entry's own key", LT, "            if entry.priority <= priority and entry.key <= key:", "            if entry.priority <= priority and entry.key < key:", "FADE-2"),
        M("twin: colour-below scan as nested ifs", LT, "            if entry.priority <= priority and entry.key <= key:\n                stack = self.stack[i:]\n                break", "            if entry.priority <= priority:\n                if entry.key <= key:\n                    stack = self.stack[i:]\n                    break", None),
        M("twin: colour-below scan with a guard clause", LT, "            if entry.priority <= priority and entry.key <= key:\n                stack = self.stack[i:]\n                break", "            if not (entry.priority <= priority and entry.key <= key):\n                continue\n            stack = self.stack[i:]\n            break", None),
        M("twin: colour-below comparisons mirrored", LT, "            if entry.priority <= priority and entry.key <= key:", "            if priority >= entry.priority and key >= entry.key:", None),
        M("every batched fade step cached as final", BL, "            brightness = target_brightness\n            self._last_brightness = brightness\n            done = True\n\n        return brightness, fade_ms, done", "            brightness = target_brightness\n            done = True\n\n        self._last_brightness = brightness\n        return brightness, fade_ms, done", "BATCH-2"),
        M("sequential loader restarts the colour's channel list per letter", LT, "            if full_color_name not in self.hw_drivers:\n                self.hw_drivers[full_color_name] = []\n            channel = {'subtype': self.config['subtype'], 'platform': self.config['platform'],\n                       'platform_settings': self.config['platform_settings'], 'number': next_channel}", "            self.hw_drivers[full_color_name] = []\n            channel = {'subtype': self.config['subtype'], 'platform': self.config['platform'],\n                       'platform_settings': self.config['platform_settings'], 'number': next_channel}", "SIB-3"),
        M("fade start colour of another priority", LT, "            color_below = self.get_color_below(priority, key)", "            color_below = self.get_color_below(0, key)", "FADE-2"),
        M("twin: ratio on one line", LT, "            ratio = ((target_time - color_settings.start_time) /\n                     (color_settings.dest_time - color_settings.start_time))", "            ratio = (target_time - color_settings.start_time) / (color_settings.dest_time - color_settings.start_time)", None),
        M("start brightness of the white channel split differently from the target", LT, "                    if start_color.red == start_color.green == start_color.blue:\n                        start_brightness = start_color.red / 255.0", "                    if start_color.red == start_color.green:\n                        start_brightness = start_color.red / 255.0", "SIB-9"),
        M("lights batched although not adjacent", BL, "                elif light.is_successor_of(sequential_lights[-1]):", "                elif light.is_successor_of(sequential_lights[-1]) or len(sequential_lights) < 2:", "BATCH-4"),
        M("brightness list ignores the fade tolerance", BL, "            if -max_fade_tolerance < common_fade_ms - fade_ms < max_fade_tolerance and \\\n                    len(sequential_brightness_list) < self.max_batch_size:", "            if len(sequential_brightness_list) < self.max_batch_size:", "BATCH-4"),
        M("keys of some entries are not found when removing", LT, "            if entry.key == key:\n                stack = self.stack[i:]", "            if entry.key == key and entry.priority:\n                stack = self.stack[i:]", "DOM-19"),
        M("dirty flag cleared before the sleep", BL, "            await self.dirty_lights_changed.wait()\n            self.dirty_lights_changed.clear()", "            self.dirty_lights_changed.clear()\n            await self.dirty_lights_changed.wait()", "BATCH-2"),
        M("all fade-outs of a light share one clean-up timer", LT, "name=\"remove_fade_{}\".format(key))", "name=\"remove_fade_out\")", "PAIR-24"),
        M("fade-out starts from the visible colour", LT, "            color_of_key = self._get_color_and_fade(stack, 0)[0]", "            color_of_key = self.get_color()", "FADE-2"),
        M("twin: fade-out timer named with an f-string", LT, "name=\"remove_fade_{}\".format(key))", "name=f\"remove_fade_{key}\")", None),
        M("same-target shortcut compares with the remembered start colour", LT, "target_color == self._last_fade_target[2] and", "target_color == self._last_fade_target[0] and", "SUPP-1"),
        M("fade-ended test reads the remembered start time", LT, "(self._last_fade_target[3] < 0 or self._last_fade_target[3] < self.machine.clock.get_time())", "(self._last_fade_target[1] < 0 or self._last_fade_target[1] < self.machine.clock.get_time())", "SUPP-1"),
        M("finished fade wipes the task handle", LI, "            if target_fade_ms <= max_fade_ms:\n                return\n            await asyncio.sleep(interval)", "            if target_fade_ms <= max_fade_ms:\n                self.task = None\n                return\n            await asyncio.sleep(interval)", "PAIR-23"),
        M("machine default correction profile overrides the light's own", LT, "            if self.config['color_correction_profile'] is not None:\n                profile_name = self.config['color_correction_profile']\n            elif 'light_settings' in self.machine.config and \\", "            profile_name = self.config['color_correction_profile']\n            if 'light_settings' in self.machine.config and \\", "CORR-2"),
    ]


def thorough(chk):
    from sa.battery import run_battery
    run_battery(chk, battery())
