"""C17 — shows run on schedule without drift and clean up after themselves (structural clauses).

DOM-31  steps are scheduled at an absolute, accumulated time: next += duration / speed (exactly), call_at(next);
        the accumulator is re-based on the clock only in the user-control methods
UNIT-5  sync / duration arithmetic         DOM-32  loop accounting
PAIR-20 every player a step used is remembered and cleared with the show's context on stop; stop is idempotent,
        removes the pending step, runs before completion events
FLOW-8  what a show-capable player registers at a device is removed by clear_context under the same key
"""
import ast
import re

from sa.model import src, short, dotted, call_attr, kwarg, walk_local, AnalysisError, const_value
from sa.index import get_index
from sa.units import Units, load_spec, MS, S, ABS

SH = "mpf/assets/show.py"
RS = "RunningShow"
LP = "mpf/config_players/light_player.py"


def check(chk):
    repo = chk.repo
    idx = get_index(repo)
    units = Units(repo, load_spec(repo))
    chk.explanation = ("C17: absolute accumulated step schedule without rounding or clock re-reads on the step path; loop counter "
                       "accounting; remembered players cleared under the show context on every stop; key agreement between what "
                       "players register at devices and what clear_context removes. k-th step instants under speed updates and "
                       "concurrent shows on one light are not decided.")
    rs = repo.cls(SH, RS)
    f = rs.methods["_run_next_step"]
    chk.analysed(f)
    cfg = f.cfg()
    # ------------------------------------------------------------ DOM-31
    ca = [(n, c) for n, c in cfg.calls_named("call_at")]
    chk.expect(bool(ca), "C17: call_at vanished from _run_next_step")
    for n, c in ca:
        when = kwarg(c, "when") or (c.args[0] if c.args else None)
        cb = kwarg(c, "callback") or (c.args[1] if len(c.args) > 1 else None)
        ok = when is not None and src(when) == "self.next_step_time" and cb is not None and src(cb) == "self._run_next_step"
        chk.ob("DOM-31", "the next step is scheduled at the absolute accumulated time", ok, f.where(c), detail=src(c), construct=f.ident,
               text="call_at(" + src(when) + ")")
    for c in f.calls():
        if call_attr(c) in ("call_later", "schedule_once", "get_time", "time"):
            chk.ob("DOM-31", "the step path neither schedules relative to now nor reads the clock (`%s`)" % call_attr(c), False, f.where(c),
                   detail="every late wake-up would shift all later steps", construct=f.ident, text="clock use on step path: " + call_attr(c))
    accs = [n for n in cfg.nodes_where(lambda n: n.kind == "stmt" and isinstance(n.ast, (ast.AugAssign, ast.Assign)) and
                                       src(n.ast.target if isinstance(n.ast, ast.AugAssign) else n.ast.targets[0]) == "self.next_step_time")]
    chk.ob("DOM-31", "the schedule is an accumulator", len(accs) == 1 and isinstance(accs[0].ast, ast.AugAssign) and isinstance(accs[0].ast.op, ast.Add),
           f.where(), construct=f.ident, text="accumulator form")
    if accs and isinstance(accs[0].ast, ast.AugAssign):
        inc = accs[0].ast.value
        e = inc
        if isinstance(inc, ast.Name):
            defs = [x for x in walk_local(f.node) if isinstance(x, ast.Assign) and src(x.targets[0]) == inc.id]
            e = defs[0].value if len(defs) == 1 else None
        ok = isinstance(e, ast.BinOp) and isinstance(e.op, ast.Div) and "['duration']" in src(e.left) and src(e.right) == "self.show_config.speed" and \
            "self.current_step_index" in src(e.left)
        chk.ob("DOM-31", "the increment is exactly duration(current step) / speed - no rounding, no truncation", ok, f.where(accs[0].ast),
               detail="increment is `%s`: a per-step rounding error accumulates over steps and loops" % (src(e) if e is not None else "?"),
               construct=f.ident, text="increment " + (src(e) if e is not None else "?"))
        ok = all(cfg.dominates(accs[0].id, n.id) for n, c in ca)
        chk.ob("DOM-31", "the accumulator is advanced before the step is scheduled", ok, f.where(), construct=f.ident, text="advance before call_at")
        for n, c in ca:
            g = cfg.guards_at(n.id)
            ok = g.get("self.show_config.manual_advance") is False and g.get("time_to_next_step > 0") is True and g.get("pause_after_step") is False
            chk.ob("DOM-31", "a step is auto-scheduled unless manual advance, zero duration or start-paused", ok, f.where(c),
                   detail="guards %s" % sorted(g.items()), construct=f.ident, text="schedule guards")
        h = [n for n in cfg.nodes_where(lambda n: n.kind == "stmt" and isinstance(n.ast, ast.Assign) and src(n.ast.targets[0]) == "self._delay_handler")]
        chk.ob("DOM-31", "the scheduled handle is kept (so pause/stop can cancel it)", bool(h), f.where(), construct=f.ident, text="handle kept")
    REBASE = {"resume", "advance", "step_back"}
    # user control re-bases the schedule *exactly* on the clock, before the step it triggers runs
    for nm in sorted(REBASE):
        m = rs.methods.get(nm)
        if m is None:
            continue
        chk.analysed(m)
        mc = m.cfg()
        runs = [n for n, c in mc.calls_named("_run_next_step")]
        rb = [n for n in mc.nodes_where(lambda n: n.kind == "stmt" and isinstance(n.ast, ast.Assign) and src(n.ast.targets[0]) == "self.next_step_time")]
        ok = bool(rb) and all(src(n.ast.value) == "self.machine.clock.get_time()" for n in rb) and bool(runs) and \
            all(any(mc.dominates(b.id, r.id) for b in rb) for r in runs)
        chk.ob("DOM-31", "RunningShow.%s restarts the schedule at exactly the current time (not at the old deadline)" % nm, ok, m.where(),
               detail="rebase: %s" % [src(n.ast.value) for n in rb], construct=m.ident, text="exact rebase in " + nm)
    for m in rs.methods.values():
        for x in walk_local(m.node):
            if isinstance(x, ast.Assign) and src(x.targets[0]) == "self.next_step_time" and "get_time()" in src(x.value):
                chk.ob("DOM-31", "the schedule is re-based on the clock only by user control (%s)" % m.name, m.name in REBASE, m.where(x),
                       construct=m.ident, text="rebase in " + m.name)
    st = rs.methods["_start_play"]
    chk.analysed(st)
    env = units.env_for(st)
    for kind, node, detail in units.scan_function(st):
        if kind in ("arith", "sink", "assign"):
            chk.ob("UNIT-5", "sync arithmetic is dimensionally consistent", False, st.where(node), detail=detail, construct=st.ident,
                   text="%s %s" % (kind, short(node, 80)))
    so = [c for c in st.calls() if call_attr(c) == "schedule_once"]
    ok = bool(so) and src(so[0].args[1]) == "delay_secs" and any(
        isinstance(x, ast.Assign) and src(x.targets[0]) == "delay_secs" and src(x.value).replace(" ", "") == "self.next_step_time-self.machine.clock.get_time()"
        for x in walk_local(st.node))
    chk.ob("UNIT-5", "a synchronised start waits (sync point - now) seconds", ok, st.where(), construct=st.ident, text="sync wait")
    sy = [x for x in walk_local(st.node) if isinstance(x, ast.AugAssign) and src(x.target) == "self.next_step_time"]
    ok = bool(sy) and src(sy[0].value).replace(" ", "").replace("(", "").replace(")", "") == \
        "self.show_config.sync_ms/1000.0-self.next_step_time%self.show_config.sync_ms/1000.0"
    chk.ob("UNIT-5", "the start is moved to the next multiple of sync_ms (in seconds)", ok, st.where(), detail=src(sy[0].value) if sy else "",
           construct=st.ident, text="sync formula")
    idxs = [x for x in walk_local(st.node) if isinstance(x, ast.Assign) and src(x.targets[0]) == "self.next_step_index"]
    vals = sorted(src(x.value).replace(" ", "") for x in idxs)
    chk.ob("DOM-32", "start step: n>0 -> n-1, n<0 -> counted from the end, 0 -> first", vals == sorted(["self.start_step-1", "self.start_step%self._total_steps", "0"]),
           st.where(), detail=str(vals), construct=st.ident, text="start step " + ";".join(vals))

    # ------------------------------------------------------------ DOM-32
    dec = [n for n in cfg.nodes_where(lambda n: n.kind == "stmt" and isinstance(n.ast, ast.AugAssign) and src(n.ast.target) == "self.loops")]
    ok = len(dec) == 1 and isinstance(dec[0].ast.op, ast.Sub) and const_value(dec[0].ast.value) == 1
    if ok:
        g = cfg.guards_at(dec[0].id)
        ok = g.get("self.loops > 0") is True and g.get("self.next_step_index >= self._total_steps") is True
    chk.ob("DOM-32", "a finite loop count drops by one per wrap, only when it is positive", ok, f.where(), construct=f.ident, text="loop decrement")
    stops = [(n, c) for n, c in cfg.calls_named("stop") if dotted(c.func.value) == "self"]
    ok = bool(stops)
    for n, c in stops:
        g = cfg.guards_at(n.id)
        ok = ok and g.get("self.loops > 0") is False and g.get("self.loops < 0") is False and g.get("self.next_step_index >= self._total_steps") is True
    chk.ob("DOM-32", "the show ends exactly when it reaches its end with no loops left", ok, f.where(), construct=f.ident, text="end condition")
    wraps = [n for n in cfg.nodes_where(lambda n: n.kind == "stmt" and isinstance(n.ast, ast.Assign) and src(n.ast.targets[0]) == "self.next_step_index"
                                        and src(n.ast.value) == "0")]
    chk.ob("DOM-32", "finite and infinite loops both wrap to the first step", len(wraps) == 2, f.where(), construct=f.ident, text="wrap to 0")
    for n, c in stops:
        ev = [x for x in cfg.nodes_where(lambda x: x.kind != "branch") if any(call_attr(y) == "_post_events" for y in x.calls())]
        after = [x for x in ev if cfg.dominates(n.id, x.id)]
        ret = [x for x in cfg.nodes_where(lambda x: x.kind == "stmt" and isinstance(x.ast, ast.Return)) if cfg.dominates(n.id, x.id)]
        chk.ob("PAIR-20", "at the end the show is stopped (effects removed) before its completion events are posted, and no further step runs",
               bool(after) and bool(ret), f.where(c), construct=f.ident, text="stop before completion events")
    adv = [n for n in cfg.nodes_where(lambda n: n.kind == "stmt" and isinstance(n.ast, ast.AugAssign) and src(n.ast.target) == "self.next_step_index"
                                      and isinstance(n.ast.op, (ast.Add, ast.Sub)))]
    ok = len(adv) == 1 and isinstance(adv[0].ast.op, ast.Add) and const_value(adv[0].ast.value) == 1
    chk.ob("DOM-32", "each run executes one step and advances the index by one", ok, f.where(), construct=f.ident, text="index advance")

    # ------------------------------------------------------------ PAIR-20
    plays = [(n, c) for n, c in cfg.calls_named("show_play_callback")]
    adds = [n.id for n, c in cfg.calls_named("add") if src(c.func.value) == "self._players"]
    heads = [h.id for h in cfg.nodes if h.kind == "loop"]
    if not plays:
        chk.missing("PAIR-20", "_run_next_step hands the step's entries to their players (show_play_callback)", f)
    for n, c in plays:
        w = cfg.path_avoiding(n.id, heads + [cfg.exit.id], adds, ignore_exc=True)
        chk.ob("PAIR-20", "every player a step used is remembered for clean-up", w is None and bool(adds), f.where(c),
               path=cfg.fmt_path(w, SH) if w else None, construct=f.ident, text="player not remembered")
        kw = {k.arg: src(k.value) for k in c.keywords}
        ok = kw.get("context") == "self.context" and kw.get("priority") == "self.show_config.priority" and kw.get("start_time") == "self.next_step_time" \
            and kw.get("settings") == "item_dict" and kw.get("show_tokens") == "self.show_config.show_tokens"
        chk.ob("PAIR-20", "steps are played under the show's own context, priority, tokens and scheduled time", ok, f.where(c), detail=str(kw),
               construct=f.ident, text="play args")
    for n, c in cfg.calls_named("add"):
        if src(c.func.value) == "self._players":
            lp = [h for h in cfg.nodes if h.kind == "loop" and any(y is c for st_ in h.ast.body for y in ast.walk(st_))]
            key = src(lp[0].ast.target.elts[0]) if lp and isinstance(lp[0].ast.target, ast.Tuple) else None
            chk.ob("PAIR-20", "the remembered name is the player type the step used", src(c.args[0]) == key, f.where(c), construct=f.ident,
                   text="remembered key")
    s_ = rs.methods["stop"]
    chk.analysed(s_)
    scfg = s_.cfg()
    mark = [n for n in scfg.nodes_where(lambda n: n.kind == "stmt" and isinstance(n.ast, ast.Assign) and src(n.ast.targets[0]) == "self._stopped"
                                        and src(n.ast.value) == "True")]
    ok = bool(mark) and scfg.guards_at(mark[0].id).get("self._stopped") is False
    chk.ob("PAIR-20", "stop() is idempotent", ok, s_.where(), construct=s_.ident, text="stop flag")
    loops = [h for h in scfg.nodes if h.kind == "loop" and src(h.ast.iter) in ("self._players", "list(self._players)")]
    ok = bool(loops) and any(call_attr(c) == "show_stop_callback" and [src(a) for a in c.args] == ["self.context"] and
                             "show_players[%s]" % src(loops[0].ast.target) in src(c.func.value) for st_ in loops[0].ast.body for c in ast.walk(st_)
                             if isinstance(c, ast.Call))
    chk.ob("PAIR-20", "stop() tells every remembered player to clear the show's context", ok, s_.where(), construct=s_.ident, text="clear players")
    if mark and loops:
        w = scfg.must_pass(mark[0].id, [loops[0].id])
        chk.ob("PAIR-20", "… on every path of an accepted stop", w is None, s_.where(), construct=s_.ident, text="clear on all paths")
    rm = [n.id for n, c in scfg.calls_named("_remove_delay_handler")]
    # the helper itself tests for a pending handle, so `if self._delay_handler: self._remove_delay_handler()` is the same thing
    nothing_pending = [b.id for b in scfg.nodes if b.kind == "branch" and src(b.ast) == "self._delay_handler" and b.value is False]
    ok = bool(rm) and bool(mark) and scfg.must_pass(mark[0].id, rm + nothing_pending) is None
    chk.ob("PAIR-20", "stop() cancels the pending step", ok, s_.where(), construct=s_.ident, text="pending step cancelled")
    # a show that replaced another one in sync still owes that show its stop: the pending start callback runs whenever there is one
    for n_ in scfg.nodes:
        if n_.kind == "stmt" and any(isinstance(c, ast.Call) and src(c.func) == "self.start_callback" for c in n_.calls()):
            g = {k: v for k, v in scfg.guards_at(n_.id).items()}
            from sa.cfg import canon_set
            extra = canon_set(g) - canon_set({"self._stopped": False, "self.start_callback": True})
            chk.ob("PAIR-20", "stop() runs a pending start callback whenever there is one (nothing else decides)", not extra, s_.where(n_.ast),
                   detail="additional conditions: %s" % sorted(extra), construct=s_.ident, text="start callback condition in stop")
    if not any(isinstance(c, ast.Call) and src(c.func) == "self.start_callback" for c in ast.walk(s_.node)):
        chk.missing("PAIR-20", "stop() runs a pending start callback (the replaced show is stopped through it)", s_)
    rset = [n for n in scfg.nodes_where(lambda n: n.kind == "stmt" and isinstance(n.ast, ast.Assign) and src(n.ast.targets[0]) == "self._players")]
    ok = bool(rset) and bool(loops) and scfg.dominates(loops[0].id, rset[0].id)
    chk.ob("PAIR-20", "the remembered players are forgotten after they were cleared", ok, s_.where(), construct=s_.ident, text="players reset")
    rd = rs.methods["_remove_delay_handler"]
    ok = any(call_attr(c) == "unschedule" and src(c.args[0]) == "self._delay_handler" for c in rd.calls()) and \
        any(isinstance(x, ast.Assign) and src(x.targets[0]) == "self._delay_handler" and src(x.value) == "None" for x in ast.walk(rd.node))
    chk.ob("PAIR-20", "cancelling the pending step unschedules its handle and forgets it", ok, rd.where(), construct=rd.ident, text="remove delay handler")
    for name in ("pause", "advance", "step_back"):
        m = rs.methods[name]
        ok = any(call_attr(c) == "_remove_delay_handler" for c in m.calls())
        chk.ob("PAIR-20", "%s() cancels the pending step first (no second timer chain)" % name, ok, m.where(), construct=m.ident, text=name + " cancels pending")
    # manual stepping: cancel, rebase and move the index *before* the step runs; the step runs last and once
    for name in ("advance", "step_back"):
        m = rs.methods[name]
        mc = m.cfg()
        run = [n for n, c in mc.calls_named("_run_next_step")]
        idx = [n for n in mc.nodes if n.kind == "stmt" and isinstance(n.ast, (ast.Assign, ast.AugAssign)) and
               src(n.ast.targets[0] if isinstance(n.ast, ast.Assign) else n.ast.target) == "self.next_step_index"]
        pre = [n for n, c in mc.calls_named("_remove_delay_handler")] + \
            [n for n in mc.nodes if n.kind == "stmt" and isinstance(n.ast, ast.Assign) and src(n.ast.targets[0]) == "self.next_step_time"]
        ok = len(run) == 1 and bool(idx) and all(x.id not in mc.reachable([run[0].id], include_start=False) for x in idx + pre) and len(pre) >= 2 and all(mc.dominates(x.id, run[0].id) for x in pre)
        chk.ob("DOM-32", "%s() cancels the pending step, rebases the clock and moves the index before it runs the step (once, last)" % name, ok, m.where(),
               construct=m.ident, text=name + " order")
        # relative moves are relative: the index is added to / subtracted from (the step that runs next is index + 1, hence the -1 / +1);
        # only advance(show_step=N) sets it absolutely, to N - 1
        for x in idx:
            a = x.ast
            if isinstance(a, ast.AugAssign):
                want = ("Add", "steps-1") if name == "advance" else ("Sub", "steps+1")
                okx = (type(a.op).__name__, src(a.value).replace(" ", "")) == want
            else:
                okx = name == "advance" and src(a.value).replace(" ", "") == "show_step-1" and mc.guards_at(x.id).get("show_step is not None") is True
            chk.ob("DOM-32", "%s() moves the index relative to where the show is (absolute only for an explicit show_step)" % name, okx, m.where(a),
                   detail=src(a), construct=m.ident, text="%s index move %s" % (name, src(a)))
    sp = rs.methods["_start_play"]
    spc = sp.cfg()
    ok = any(b.kind == "branch" and src(b.ast) == "self._stopped" for b in spc.nodes)
    chk.ob("PAIR-20", "a show stopped before it started does not start", ok, sp.where(), construct=sp.ident, text="start after stop")
    cpb = repo.func("mpf/core/config_player.py", "ConfigPlayer.show_stop_callback")
    ok = any(call_attr(c) == "clear_context" and [src(a) for a in c.args] == ["context"] for c in cpb.calls())
    chk.ob("PAIR-20", "a player's show-stop callback clears that context", ok, cpb.where(), construct=cpb.ident, text="show_stop_callback")
    chk.floor("PAIR-20", 10)

    _show_events(chk, repo)
    _token_cache(chk, repo)
    _replace_or_advance(chk, repo)
    _plumbing(chk, repo)
    _settings_not_mutated(chk, repo)
    _start_order_and_fadeout_timer(chk, repo)
    _subscription_play_stop_same_key(chk, repo)
    # a show's lights are left as if it had never run also on the hardware: the update shortcuts of the light read the remembered fade correctly (shared with C09)
    # a step drives its players at the step's nominal time: show_play_callback hands start_time on (child shows and fades start on the parent's
    # timeline, not at the moment the step happened to be processed)
    spc = repo.func("mpf/core/config_player.py", "ConfigPlayer.show_play_callback")
    chk.analysed(spc)
    pc_ = [c for c in spc.calls() if call_attr(c) == "play" and dotted(c.func.value) == "self"]
    kw_ = {k.arg: src(k.value) for c in pc_ for k in c.keywords}
    chk.ob("FWD-17", "a show step hands its nominal time to the players it drives (start_time=start_time)", len(pc_) == 1 and kw_.get("start_time") == "start_time" and
           "start_time" in [a.arg for a in spc.node.args.args], spc.where(pc_[0]) if pc_ else spc.where(), detail=str(kw_), construct=spc.ident, text="step time handed to players")
    # a stopping show takes its own effects away before it tells anyone it has stopped: the players' contexts are cleared before the stop
    # callback runs (a follow-up show started from the callback must not have its coils / lights taken away by the finished show's clean-up)
    rst = repo.func("mpf/assets/show.py", "RunningShow.stop")
    chk.analysed(rst)
    rcf = rst.cfg()
    clr_ = [n for n, c in rcf.calls_named("show_stop_callback")]
    cbk_ = [n for n in rcf.nodes if n.kind == "stmt" and any(isinstance(c.func, ast.Attribute) and src(c.func) == "self.callback" for c in n.calls())]
    ok_ = bool(clr_) and bool(cbk_) and all(not rcf.path_avoiding(b.id, [a.id], [], ignore_exc=True) for a in clr_ for b in cbk_)
    chk.ob("REPL-17", "a stopping show clears its players' contexts before its stop callback runs", ok_, rst.where(cbk_[0].ast) if cbk_ else rst.where(), construct=rst.ident,
           text="stop callback before context clean-up")
    from sa.rules.c09 import _suppression as _c09_suppression
    _c09_suppression(chk, repo)
    from sa.rules.c09 import _batch_skip_and_fadeout_source as _c09_bsf
    _c09_bsf(chk, repo)

    # ------------------------------------------------------------ FLOW-8
    lp = repo.cls(LP, "LightPlayer")
    lc = lp.methods["_light_color"]
    cc = lp.methods["clear_context"]
    chk.analysed(lc, cc)
    col = [c for c in lc.calls() if call_attr(c) == "color" and dotted(c.func.value) == "light"]
    st_ = [x for x in walk_local(lc.node) if isinstance(x, ast.Assign) and isinstance(x.targets[0], ast.Subscript) and src(x.targets[0].value) == "instance_dict"]
    ok = bool(col) and bool(st_) and src(kwarg(col[0], "key")) == "full_context" and src(st_[0].targets[0].slice).replace(" ", "").strip("()") == "full_context,light" \
        and src(st_[0].value) == "light"
    chk.ob("FLOW-8", "LightPlayer colours a light under key=full_context and remembers (full_context, light)", ok, lc.where(), construct=lc.ident,
           text="light register key")
    loops = [x for x in walk_local(cc.node) if isinstance(x, ast.For) and "_get_instance_dict(context)" in src(x.iter)]
    ok = bool(loops) and isinstance(loops[0].target, ast.Tuple)
    if ok:
        keyt = loops[0].target.elts[0]
        k0 = src(keyt.elts[0]) if isinstance(keyt, ast.Tuple) else None
        lightv = src(loops[0].target.elts[1])
        rmv = [c for c in ast.walk(loops[0]) if isinstance(c, ast.Call) and call_attr(c) == "remove_from_stack_by_key"]
        ok = bool(rmv) and src(rmv[0].func.value) == lightv and src(rmv[0].args[0]) == k0
    chk.ob("FLOW-8", "clear_context removes from each remembered light the very key it was coloured with", ok, cc.where(), construct=cc.ident,
           text="light clear key")
    lr = lp.methods["_light_remove"]
    rmv = [c for c in lr.calls() if call_attr(c) == "remove_from_stack_by_key"]
    dl = [x for x in ast.walk(lr.node) if isinstance(x, ast.Delete)]
    ok = bool(rmv) and [src(a) for a in rmv[0].args][:1] == ["full_context"] and bool(dl) and src(dl[0].targets[0]).replace(" ", "").replace("(", "").replace(")", "") == "instance_dict[full_context,light]"
    chk.ob("FLOW-8", "an explicit remove uses the same key and forgets the same record", ok, lr.where(), construct=lr.ident, text="light remove key")
    # the light's own removal scans always find the show's entry (otherwise a stopped show's entry stays on the stack)
    from sa.rules.c09 import scan_exits_only_at_key
    for nm in ("remove_from_stack_by_key", "_remove_fade_out"):
        g = repo.func("mpf/devices/light.py", "Light." + nm)
        chk.analysed(g)
        gcfg = g.cfg()
        for h in [h for h in gcfg.nodes if h.kind == "loop" and "self.stack" in src(h.ast.iter)]:
            chk.ob("FLOW-8", "Light.%s scans the stack for the key" % nm, True, g.where(h.ast), nontrivial=False)
            scan_exits_only_at_key(chk, "FLOW-8", g, gcfg, h, nm)
    pl = lp.methods["play"]
    rm_ = lp.methods["_remove"]
    fc1 = [src(x.value) for x in walk_local(pl.node) if isinstance(x, ast.Assign) and src(x.targets[0]) == "full_context"]
    fc2 = [src(x.value) for x in walk_local(rm_.node) if isinstance(x, ast.Assign) and src(x.targets[0]) == "full_context"]
    chk.ob("FLOW-8", "play and remove derive the key from (context + key) in the same way", bool(fc1) and fc1 == fc2, pl.where(), detail="%s vs %s" % (fc1, fc2),
           construct=lp.ident, text="full_context derivation")
    spy = repo.cls("mpf/config_players/show_player.py", "ShowPlayer")
    cc2 = spy.methods["clear_context"]
    ok = any(isinstance(x, ast.For) and "_get_instance_dict(context)" in src(x.iter) and any(call_attr(c) == "stop" for c in ast.walk(x) if isinstance(c, ast.Call))
             for x in walk_local(cc2.node))
    chk.ob("FLOW-8", "ShowPlayer.clear_context stops every show it started in that context", ok, cc2.where(), construct=cc2.ident, text="show player clear")
    cpl = repo.cls("mpf/config_players/coil_player.py", "CoilPlayer")
    cc3 = cpl.methods["clear_context"]
    ok = any(call_attr(c) == "disable" for c in cc3.calls())
    chk.ob("FLOW-8", "CoilPlayer.clear_context disables the coils it enabled in that context", ok, cc3.where(), construct=cc3.ident, text="coil player clear")


def _show_events(chk, repo):
    """EVT-17: played / looped / completed / stopped events are posted once each, at their moment; START-17: start step."""
    rs = repo.cls(SH, "RunningShow")
    f = rs.methods["_run_next_step"]
    cfg = f.cfg()
    ext = {}
    for n in cfg.nodes:
        if n.kind == "branch":
            continue
        for c in n.calls():
            if call_attr(c) in ("extend", "append") and src(c.func.value) == "events" and c.args:
                t_ = src(c.args[0])
                m_ = re.search(r"events_when_\w+", t_)
                ext.setdefault("self.show_config." + m_.group(0) if m_ else t_, []).append((n, c))
    END = "self.next_step_index >= self._total_steps"
    wraps = [n for n in cfg.nodes_where(lambda n: n.kind == "stmt" and isinstance(n.ast, ast.Assign) and src(n.ast.targets[0]) == "self.next_step_index"
                                        and src(n.ast.value) == "0")]
    looped = ext.get("self.show_config.events_when_looped", [])
    for wn in wraps:
        gw = cfg.guards_at(wn.id)
        key = tuple(sorted((k, v) for k, v in gw.items() if k.startswith("self.loops")))
        same = [n for n, c in looped if tuple(sorted((k, v) for k, v in cfg.guards_at(n.id).items() if k.startswith("self.loops"))) == key
                and cfg.guards_at(n.id).get(END) is True]
        chk.ob("EVT-17", "every wrap to the first step queues the looped events", bool(same), f.where(wn.ast),
               detail="wrap under %s" % (key,), construct=f.ident, text="looped events on wrap %s" % (key,))
    for n, c in looped:
        g = cfg.guards_at(n.id)
        ok = g.get(END) is True and (g.get("self.loops > 0") is True or g.get("self.loops < 0") is True)
        chk.ob("EVT-17", "looped events are queued only when the show wraps", ok, f.where(c), detail="guards %s" % sorted(g.items()),
               construct=f.ident, text="looped events guard")
    comp = ext.get("self.show_config.events_when_completed", [])
    chk.ob("EVT-17", "completion events are queued at the end of the show", len(comp) == 1, f.where(), construct=f.ident, text="completed events present")
    for n, c in comp:
        g = cfg.guards_at(n.id)
        ok = g.get(END) is True and g.get("self.loops > 0") is False and g.get("self.loops < 0") is False
        chk.ob("EVT-17", "completion events are queued only when the show ends (no loops left)", ok, f.where(c),
               detail="guards %s" % sorted(g.items()), construct=f.ident, text="completed events guard")
    # whatever was queued is posted before the step function returns
    posts = [n.id for n, c in cfg.calls_named("_post_events") if c.args and src(c.args[0]) == "events"]
    for key, lst in ext.items():
        for n, c in lst:
            w = cfg.path_avoiding(n.id, [cfg.exit.id], posts, ignore_exc=True)
            # a path that skips the post because `events` is empty is impossible after an extend with a non-empty list; accept the
            # `if events:` false branch only when the extend itself was conditional on a truthy list
            if w is not None:
                falsy = [b.id for b in cfg.nodes if b.kind == "branch" and src(b.ast) == "events" and b.value is False]
                w = cfg.path_avoiding(n.id, [cfg.exit.id], posts + falsy, ignore_exc=True)
            chk.ob("EVT-17", "events queued from `%s` are posted before the step returns" % key.split(".")[-1], w is None, f.where(c),
                   path=cfg.fmt_path(w, SH) if w else None, construct=f.ident, text="queued events posted: " + key.split(".")[-1])
    pe = ext.get("post_events", [])
    # the caller's events get into the list that is posted, and that list is the step's own: the looped / completed events are
    # extended *into* it, so it must not be the caller's (configured) list itself
    from sa.helpers import is_snapshot
    binds = [x for x in walk_local(f.node) if isinstance(x, ast.Assign) and src(x.targets[0]) == "events"]
    def _fresh(e):
        if isinstance(e, ast.IfExp):
            return _fresh(e.body) and _fresh(e.orelse)
        if isinstance(e, ast.BoolOp):      # `post_events or []` yields the caller's list when it is non-empty
            return all(_fresh(v) for v in e.values)
        return isinstance(e, (ast.List, ast.ListComp)) or is_snapshot(e) or (isinstance(e, ast.BinOp) and isinstance(e.op, ast.Add))
    fresh = bool(binds) and all(_fresh(x.value) for x in binds)
    carried = bool(pe) or any("post_events" in src(x.value) for x in binds)
    chk.ob("EVT-17", "the events handed in by the caller (played / advanced ...) are queued", carried, f.where(), construct=f.ident,
           text="post_events queued")
    chk.ob("EVT-17", "the list the step extends and posts is its own (a new list or a copy), never the caller's configured event list", fresh, f.where(),
           detail="events bound as %s: extending it in place adds the looped / completed events to the show's configured advanced / played events for good"
           % [src(x.value) for x in binds], construct=f.ident, text="events list aliased")
    sn = rs.methods["_start_now"]
    c = [x for x in sn.calls() if call_attr(x) == "_run_next_step"]
    ok = bool(c) and kwarg(c[0], "post_events") is not None and src(kwarg(c[0], "post_events")) == "self.show_config.events_when_played"
    chk.ob("EVT-17", "the played events go out with the first step", ok, sn.where(), construct=sn.ident, text="played events")
    st = rs.methods["stop"]
    scfg = st.cfg()
    sp = [(n, c) for n, c in scfg.calls_named("_post_events") if c.args and src(c.args[0]) == "self.show_config.events_when_stopped"]
    flag = [n for n in scfg.nodes_where(lambda n: n.kind == "stmt" and isinstance(n.ast, ast.Assign) and src(n.ast.targets[0]) == "self._stopped"
                                        and src(n.ast.value) == "True")]
    ok = len(sp) == 1 and bool(flag) and scfg.dominates(flag[0].id, sp[0][0].id) and \
        all(k in ("self._stopped", "self.show_config.events_when_stopped") for k in scfg.guards_at(sp[0][0].id))
    chk.ob("EVT-17", "the stopped events are posted once, by the stop that actually stops the show", ok, st.where(), construct=st.ident,
           text="stopped events")
    for meth, attr in (("pause", "events_when_paused"), ("resume", "events_when_resumed"), ("advance", "events_when_advanced"),
                       ("step_back", "events_when_stepped_back"), ("update", "events_when_updated")):
        m = rs.methods.get(meth)
        if m is None:
            continue
        chk.analysed(m)
        txt = src(m.node)
        # not among the events the property names (played / looped / completed / stopped): reported, never gating
        if ("self.show_config." + attr) not in txt:
            chk.observe("EVT-17", "RunningShow.%s does not post the configured %s" % (meth, attr), m.where())
    chk.floor("EVT-17", 10)
    # ---- START-17
    sp_ = rs.methods["_start_play"]
    chk.analysed(sp_)
    pcfg = sp_.cfg()
    sts = [n for n in pcfg.nodes_where(lambda n: n.kind == "stmt" and isinstance(n.ast, ast.Assign) and src(n.ast.targets[0]) == "self.next_step_index")]
    seen = set()
    for n in sts:
        g = pcfg.guards_at(n.id)
        v = src(n.ast.value).replace(" ", "")
        pos, neg = g.get("self.start_step > 0"), g.get("self.start_step < 0")
        if v == "self.start_step-1":
            ok = pos is True
            seen.add("pos")
        elif v == "self.start_step%self._total_steps":
            ok = neg is True and pos is not True
            seen.add("neg")
        elif v == "0":
            ok = pos is False and neg is False
            seen.add("zero")
        else:
            ok = False
        chk.ob("START-17", "the first step index follows the start step (1-based; negative counts from the end; 0 = first)", ok,
               sp_.where(n.ast), detail="value %s under %s" % (v, sorted(g.items())), construct=sp_.ident, text="start index " + v)
    chk.ob("START-17", "positive, negative and zero start steps are all handled", seen == {"pos", "neg", "zero"}, sp_.where(), construct=sp_.ident,
           text="start step cases %s" % sorted(seen))
    tot = [n for n in pcfg.nodes_where(lambda n: n.kind == "stmt" and isinstance(n.ast, ast.Assign) and src(n.ast.targets[0]) == "self._total_steps")]
    ok = bool(tot) and src(tot[0].ast.value).replace(" ", "") == "len(self.show_steps)" and all(pcfg.dominates(tot[0].id, n.id) for n in sts)
    chk.ob("START-17", "the step count is the number of steps of the show, known before the start index is computed", ok, sp_.where(),
           construct=sp_.ident, text="total steps")
    # negative index (step back past the first step) wraps before it is used
    mods = [n for n in cfg.nodes_where(lambda n: n.kind == "stmt" and isinstance(n.ast, ast.AugAssign) and src(n.ast.target) == "self.next_step_index"
                                       and isinstance(n.ast.op, ast.Mod))]
    use = [n for n in cfg.nodes_where(lambda n: n.kind == "stmt" and isinstance(n.ast, ast.Assign) and src(n.ast.targets[0]) == "self.current_step_index")]
    ok = bool(mods) and bool(use) and all(cfg.guards_at(m.id).get("self.next_step_index < 0") is True and src(m.ast.value) == "self._total_steps" for m in mods)
    if ok:
        neg_b = [b.id for b in cfg.nodes if b.kind == "branch" and src(b.ast) == "self.next_step_index < 0" and b.value is True]
        ok = all(cfg.path_avoiding(b, [u.id for u in use], [m.id for m in mods], ignore_exc=True) is None for b in neg_b)
    chk.ob("START-17", "a negative step index (stepping back past the start) wraps around before the step is taken", ok, f.where(), construct=f.ident,
           text="negative index wrap")
    # light player: stop colour removes, everything else colours with the step's start time
    lp = repo.cls(LP, "LightPlayer")
    lc = lp.methods["_light_color"]
    lcfg = lc.cfg()
    rm = [(n, c) for n, c in lcfg.calls_named("_light_remove")]
    col = [(n, c) for n, c in lcfg.calls_named("color") if dotted(c.func.value) == "light"]
    for n, c in rm:
        g = lcfg.guards_at(n.id)
        ok = g.get("color == 'stop'") is True
        chk.ob("FLOW-8", "the colour `stop` removes the show's entry from the light", ok, lc.where(c), detail="guards %s" % sorted(g.items()),
               construct=lc.ident, text="stop colour guard")
        ret_after = lcfg.path_avoiding(n.id, [x.id for x, _ in col], [], ignore_exc=True)
        chk.ob("FLOW-8", "after a `stop` colour nothing is coloured", ret_after is None, lc.where(c), construct=lc.ident, text="stop then colour")
    chk.ob("FLOW-8", "LightPlayer handles the `stop` colour", bool(rm), lc.where(), construct=lc.ident, text="stop colour present")
    for n, c in col:
        kw = {k.arg: src(k.value) for k in c.keywords}
        ok = kw.get("fade_ms") == "fade_ms" and kw.get("priority") == "priority" and kw.get("start_time") == "start_time"
        chk.ob("FLOW-8", "the light is coloured with the step's fade, priority and start time", ok, lc.where(c), detail=str(kw), construct=lc.ident,
               text="colour arguments")


def _replace_or_advance(chk, repo):
    """SYNC-17: replace_or_advance_show keeps or advances the running instance instead of replacing it only when that instance has
    already run a step (current_step_index is not None) and stands exactly at / one step before the requested step.  A show that is
    still waiting for its sync point has run nothing: treating it as "one step behind" advances it off the sync grid.
    UPD-17: update() applies every value that was given (is not None) -- also False / 0."""
    SC = "mpf/core/show_controller.py"
    f = repo.func(SC, "ShowController.replace_or_advance_show")
    chk.analysed(f)
    cfg = f.cfg()
    keep = [n for n in cfg.nodes if n.kind == "stmt" and isinstance(n.ast, ast.Return) and n.ast.value is not None and src(n.ast.value) == "old_instance"]
    adv = [n for n, c in cfg.calls_named("advance") if src(c.func.value) == "old_instance"]
    chk.need(keep and adv, "SYNC-17", "replace_or_advance_show can keep or advance the running instance", f)
    RAN = "old_instance.current_step_index is not None"
    n_k = 0
    for n in keep:
        g = cfg.guards_at(n.id)
        if g.get("start_step is None") is True:
            continue        # the "same config, no step requested" shortcut
        n_k += 1
        at = g.get("old_instance.current_step_index + 1 == start_step") is True
        behind = g.get("old_instance.current_step_index + 2 == start_step") is True
        chk.ob("SYNC-17", "the running instance is kept only if it has run a step and stands at (or was just advanced to) the requested step", g.get(RAN) is True and (at or behind),
               f.where(n.ast), detail=str(sorted((k, v) for k, v in g.items() if "step" in k)), construct=f.ident, text="keep running instance guard")
    for n in adv:
        g = cfg.guards_at(n.id)
        ok = g.get(RAN) is True and g.get("old_instance.current_step_index + 2 == start_step") is True
        chk.ob("SYNC-17", "the running instance is advanced only if it has run a step and is exactly one step behind", ok, f.where(n.ast),
               detail=str(sorted((k, v) for k, v in g.items() if "step" in k)), construct=f.ident, text="advance running instance guard")
    chk.ob("SYNC-17", "keep / advance shortcuts examined", n_k >= 2 and len(adv) == 1, f.where(), detail="%d keep, %d advance" % (n_k, len(adv)), nontrivial=False)
    u = repo.func(SH, "RunningShow.update")
    chk.analysed(u)
    comps = [x for x in walk_local(u.node) if isinstance(x, ast.DictComp)]
    ok = len(comps) == 1 and len(comps[0].generators) == 1 and len(comps[0].generators[0].ifs) == 1
    if ok:
        t = comps[0].generators[0].ifs[0]
        vv = src(comps[0].value)
        ok = isinstance(t, ast.Compare) and len(t.ops) == 1 and isinstance(t.ops[0], ast.IsNot) and src(t.left) == vv and isinstance(t.comparators[0], ast.Constant) and \
            t.comparators[0].value is None
    chk.ob("UPD-17", "update() applies every value that was given: only None means \"not given\" (False and 0 are values)", ok, u.where(), construct=u.ident,
           text="update value filter")
    rp = [c for c in u.calls() if call_attr(c) == "_replace"]
    chk.ob("UPD-17", "the given values replace the show's configuration", len(rp) == 1 and any(k.arg is None for k in rp[0].keywords), u.where(), construct=u.ident,
           text="update applies values")


EV_NAMES = ["events_when_played", "events_when_stopped", "events_when_looped", "events_when_paused", "events_when_resumed", "events_when_advanced",
            "events_when_stepped_back", "events_when_updated", "events_when_completed"]
CFG_NAMES = ["priority", "speed", "loops", "sync_ms", "manual_advance", "show_tokens"] + EV_NAMES


def _subscription_play_stop_same_key(chk, repo):
    """SUBS-17: a show started by a condition is stopped by that condition under the same key.  In ShowPlayer.handle_subscription_change
    the play call and the stop call address one key expression (the entry's explicit `key:` if it has one, else the subscription key),
    the same instance dict and the same show.  A stop under another key finds nothing and returns silently: the show keeps running, its
    lights stay on their stacks, until the whole context is cleared."""
    SP = "mpf/config_players/show_player.py"
    f = repo.func(SP, "ShowPlayer.handle_subscription_change")
    chk.analysed(f)
    cfg = f.cfg()
    plays = [(n, c) for n, c in cfg.calls_named("_play")]
    stops = [(n, c) for n, c in cfg.calls_named("_stop")]
    chk.need(len(plays) == 1 and len(stops) == 1, "SUBS-17", "handle_subscription_change plays when the condition holds and stops when it does not", f)
    (pn, pc), (sn, sc) = plays[0], stops[0]
    pa, sa_ = [src(a) for a in pc.args[:3]], [src(a) for a in sc.args[:3]]
    chk.ob("SUBS-17", "the conditional show is stopped under the key, instance dict and show name it was played with", pa == sa_ and len(pa) == 3, f.where(sc),
           detail="played with %s, stopped with %s" % (pa, sa_), construct=f.ident, text="subscription play/stop addressing")
    kdef = [x for x in walk_local(f.node) if isinstance(x, ast.Assign) and isinstance(x.targets[0], ast.Name) and pc.args and src(pc.args[0]) == x.targets[0].id]
    ok = len(kdef) == 1 and isinstance(kdef[0].value, ast.IfExp) and "show_settings['key']" in src(kdef[0].value.body).replace('"', "'") and src(kdef[0].value.orelse) == "key"
    chk.ob("SUBS-17", "the key is the entry's own `key:` when it has one, else the subscription's", ok, f.where(kdef[0]) if kdef else f.where(), construct=f.ident,
           text="subscription show key")
    pg, sg = cfg.guards_at(pn.id), cfg.guards_at(sn.id)
    chk.ob("SUBS-17", "play iff the condition's value is true, stop iff it is false", pg.get("value") is True and sg.get("value") is False, f.where(),
           detail="play under %s, stop under %s" % (sorted(pg.items()), sorted(sg.items())), construct=f.ident, text="subscription toggle")


def _plumbing(chk, repo):
    """FWD-17: what the caller asked for (speed, loops, start step, sync, tokens, priority, the nine event lists, start time and the two
    callbacks) reaches the RunningShow under the same name on every route: Show.play, ShowController.play_show_with_config /
    replace_or_advance_show, ShowPlayer._play / _queue.  These are long positional calls: two neighbours swapped type-check and run.
    REPL-17: a replaced show is stopped (now, or by the new show's start callback) on every path that starts its successor.
    TABLE-17: the show player's action table maps each action to its own method, and each instance action calls that method of the
    instance stored under the key (stop also forgets the instance)."""
    from sa.helpers import forwarded, bind_call
    SC = "mpf/core/show_controller.py"
    SP = "mpf/config_players/show_player.py"
    play = repo.func(SH, "Show.play")
    pwc = repo.func(SH, "Show.play_with_config")
    csc = repo.func(SC, "ShowController.create_show_config")
    roa = repo.func(SC, "ShowController.replace_or_advance_show")
    pswc = repo.func(SC, "ShowController.play_show_with_config")
    rinit = repo.func(SH, "RunningShow.__init__")
    sp_play = repo.func(SP, "ShowPlayer._play")
    sp_queue = repo.func(SP, "ShowPlayer._queue")
    chk.analysed(play, pwc, csc, roa, pswc, rinit, sp_play, sp_queue)

    def one(f, name, recv=None):
        cs = [c for c in f.calls() if call_attr(c) == name and (recv is None or src(c.func.value).endswith(recv))]
        chk.need(len(cs) == 1, "FWD-17", "%s calls %s once" % (f.qualname, name), f)
        return cs[0]
    forwarded(chk, "FWD-17", play, one(play, "create_show_config"), csc, same=CFG_NAMES, mapping={"name": {"self.name"}}, require_all=True)
    forwarded(chk, "FWD-17", play, one(play, "play_with_config"), pwc, same=["show_config", "start_time", "start_running", "start_callback", "start_step"],
              mapping={"stop_callback": {"callback"}}, require_all=True)
    # the pool pass-throughs (a show picked from a pool of variants) hand every parameter on under its own name
    for pool_m, target in (("ShowPool.play_with_config", pwc), ("ShowPool.play", play)):
        pm = repo.func(SH, pool_m)
        chk.analysed(pm)
        pc = [c for c in pm.calls() if call_attr(c) == target.name and src(c.func.value) == "self.asset"]
        chk.need(len(pc) == 1, "FWD-17", "%s passes the call on to the picked show" % pool_m, pm)
        names_ = [a.arg for a in pm.node.args.args[1:]] + [a.arg for a in pm.node.args.kwonlyargs]
        forwarded(chk, "FWD-17", pm, pc[0], target, same=names_, require_all=True)
    rs = [c for c in pwc.calls() if isinstance(c.func, ast.Name) and c.func.id == "RunningShow"]
    chk.need(len(rs) == 1, "FWD-17", "play_with_config creates the RunningShow", pwc)
    forwarded(chk, "FWD-17", pwc, rs[0], rinit, same=["machine", "start_time", "start_running", "start_callback", "show_config"],
              mapping={"show": {"self"}, "callback": {"stop_callback"}, "start_step": {"int(start_step)", "start_step"}}, require_all=True)
    # RunningShow.__init__ stores each under its own name
    for a in ("show", "show_config", "callback", "start_step", "start_running", "start_callback"):
        st = [x for x in walk_local(rinit.node) if isinstance(x, ast.Assign) and src(x.targets[0]) == "self." + a]
        chk.ob("FWD-17", "RunningShow keeps `%s` under its own name" % a, len(st) == 1 and src(st[0].value) == a, rinit.where(st[0]) if st else rinit.where(),
               detail=src(st[0].value) if st else "", construct=rinit.ident, text="RunningShow.__init__ " + a)
    st = [x for x in walk_local(rinit.node) if isinstance(x, ast.Assign) and src(x.targets[0]) == "self.next_step_time"]
    chk.ob("FWD-17", "the first step is due at the requested start time", len(st) == 1 and src(st[0].value) == "start_time", rinit.where(), construct=rinit.ident,
           text="RunningShow.__init__ start_time")
    # the record: i-th field built from the parameter of that name
    fields = None
    for x in repo.mod(SH).tree.body:
        if isinstance(x, ast.Assign) and src(x.targets[0]) == "ShowConfig" and isinstance(x.value, ast.Call) and len(x.value.args) == 2:
            fields = const_value(x.value.args[1])
    chk.need(fields and list(fields) == ["name"] + CFG_NAMES, "FWD-17", "ShowConfig fields as the rules name them", csc)
    dflt = [n for n in csc.cfg().nodes if n.kind == "stmt" and isinstance(n.ast, ast.Assign) and isinstance(n.ast.targets[0], ast.Name) and n.ast.targets[0].id in fields]
    for n in dflt:
        g = csc.cfg().guards_at(n.id)
        nm = n.ast.targets[0].id
        chk.ob("FWD-17", "create_show_config replaces `%s` by a default only when none was given (None), never a given 0 / False" % nm,
               g.get("%s is None" % nm) is True and len({k for k in g if nm in k and "None" not in k}) == 0, csc.where(n.ast), detail="guards %s" % sorted(g.items()),
               construct=csc.ident, text="default for " + nm)
    mk = [c for c in csc.calls() if isinstance(c.func, ast.Name) and c.func.id == "ShowConfig"]
    chk.need(len(mk) == 1 and not mk[0].keywords and len(mk[0].args) == len(fields), "FWD-17", "create_show_config builds the record positionally", csc)
    for fld, a in zip(fields, mk[0].args):
        names = {n.id for n in ast.walk(a) if isinstance(n, ast.Name)} - {"int", "float", "bool", "str"}
        chk.ob("FWD-17", "ShowConfig.%s is built from the parameter `%s`" % (fld, fld), names == {fld}, csc.where(a), detail=src(a), construct=csc.ident,
               text="ShowConfig field " + fld)
    forwarded(chk, "FWD-17", roa, one(roa, "play_with_config"), pwc, same=["start_time", "start_running", "stop_callback", "start_callback"],
              mapping={"show_config": {"config"}, "start_step": {"start_step if start_step else 1", "start_step or 1"}}, require_all=True)
    forwarded(chk, "FWD-17", pswc, one(pswc, "play"), play, same=["priority", "speed", "start_step", "loops", "sync_ms", "manual_advance", "show_tokens",
                                                                  "start_time"], require_all=True)
    for f in (sp_play, sp_queue):
        forwarded(chk, "FWD-17", f, one(f, "create_show_config"), csc, same=CFG_NAMES, mapping={"name": {"show"}}, require_all=True)
    forwarded(chk, "FWD-17", sp_play, one(sp_play, "replace_or_advance_show"), roa, same=["start_step", "start_time", "start_running", "stop_callback"],
              mapping={"old_instance": {"previous_show"}, "config": {"show_config"}}, require_all=True)
    forwarded(chk, "FWD-17", sp_queue, one(sp_queue, "enqueue_show"), repo.func("mpf/devices/show_queue.py", "ShowQueue.enqueue_show"),
              mapping={"show_config": {"show_config"}, "start_step": {"start_step"}})
    # local values handed on are the evaluated settings of the same name
    for f in (sp_play, sp_queue):
        for loc in ("start_step", "speed") + (("start_running",) if f is sp_play else ()):
            st = [x for x in walk_local(f.node) if isinstance(x, ast.Assign) and src(x.targets[0]) == loc]
            ok = len(st) == 1 and src(st[0].value).replace('"', "'") == "show_settings['%s'].evaluate(placeholder_args)" % loc
            chk.ob("FWD-17", "%s: `%s` is the evaluated setting of that name" % (f.qualname, loc), ok, f.where(st[0]) if st else f.where(), construct=f.ident,
                   text="%s local %s" % (f.name, loc))
    st = [x for x in walk_local(sp_play.node) if isinstance(x, ast.Assign) and src(x.targets[0]) == "instance_dict[key]"]
    ok = len(st) == 1 and isinstance(st[0].value, ast.Call) and call_attr(st[0].value) == "replace_or_advance_show"
    chk.ob("FWD-17", "the show player remembers the instance it was handed under the key", ok, sp_play.where(), construct=sp_play.ident, text="instance remembered")
    pv = [x for x in walk_local(sp_play.node) if isinstance(x, ast.Assign) and src(x.targets[0]) == "previous_show"]
    ok = len(pv) == 1 and src(pv[0].value).replace(" ", "") in ("instance_dict.get(key,None)", "instance_dict.get(key)")
    chk.ob("FWD-17", "the instance to replace is the one remembered under the same key", ok, sp_play.where(), construct=sp_play.ident, text="previous instance")

    # ------------------------------------------------------------ REPL-17
    cfg = roa.cfg()
    pn = [n for n, c in cfg.calls_named("play_with_config")]
    stops = [n.id for n in cfg.nodes if n.kind == "stmt" and (
        (isinstance(n.ast, ast.Expr) and isinstance(n.ast.value, ast.Call) and src(n.ast.value.func) == "old_instance.stop") or
        (isinstance(n.ast, ast.Assign) and src(n.ast.targets[0]) == "start_callback" and src(n.ast.value) == "old_instance.stop"))]
    live = [n for n in cfg.nodes if n.kind == "branch" and n.value is False and src(n.ast) == "old_instance.stopped"]
    chk.need(pn and stops and live, "REPL-17", "replace_or_advance_show: running old instance, stop sites and the successor's start", roa)
    w = cfg.path_avoiding(live[0].id, [pn[0].id], stops, ignore_exc=True)
    chk.ob("REPL-17", "a running show that is replaced is stopped (at once or by the successor's start callback) on every path that starts the successor",
           w is None, roa.where(pn[0].ast), path=cfg.fmt_path(w, roa.relpath) if w else None, construct=roa.ident, text="replaced show not stopped")
    for sid in stops:
        n = cfg.nodes[sid]
        g = cfg.guards_at(sid)
        if isinstance(n.ast, ast.Assign):
            chk.ob("REPL-17", "the old show is left to the successor's start only when the successor starts on the sync grid", g.get("config.sync_ms") is True,
                   roa.where(n.ast), construct=roa.ident, text="deferred stop guard")
        else:
            chk.ob("REPL-17", "without a sync grid the old show is stopped at once", g.get("config.sync_ms") is False, roa.where(n.ast), construct=roa.ident,
                   text="immediate stop guard")

    # ------------------------------------------------------------ TABLE-17
    init = repo.func(SP, "ShowPlayer.__init__")
    chk.analysed(init)
    tab = [x for x in walk_local(init.node) if isinstance(x, ast.Assign) and src(x.targets[0]) == "self._actions" and isinstance(x.value, ast.Dict)]
    chk.need(len(tab) == 1, "TABLE-17", "ShowPlayer action table", init)
    n_a = 0
    for k, v in zip(tab[0].value.keys, tab[0].value.values):
        n_a += 1
        chk.ob("TABLE-17", "action `%s` is carried out by its own method" % const_value(k), src(v) == "self._%s" % const_value(k), init.where(k), detail=src(v),
               construct=init.ident, text="action table %s" % const_value(k))
    chk.ob("TABLE-17", "action table entries", n_a >= 8, init.where(), detail=str(n_a), nontrivial=False)
    for act in ("stop", "pause", "resume", "advance", "step_back", "update"):
        m = repo.func(SP, "ShowPlayer._" + act)
        chk.analysed(m)
        mc = m.cfg()
        cs = [(n, c) for n, c in mc.calls_named(act) if src(c.func.value) == "instance_dict[key]"]
        ok = len(cs) == 1
        if ok:
            from sa.cfg import canon_set, canon_fact
            ok = set(canon_set(mc.guards_at(cs[0][0].id))) == {canon_fact("key in instance_dict", True)}
        chk.ob("TABLE-17", "`%s` calls %s() of the instance remembered under the key, whenever there is one" % (act, act), ok, m.where(), construct=m.ident,
               text="instance action " + act)
    sm = repo.func(SP, "ShowPlayer._stop")
    mc = sm.cfg()
    dl = [n for n in mc.nodes if n.kind == "stmt" and isinstance(n.ast, ast.Delete) and src(n.ast.targets[0]) == "instance_dict[key]"]
    sc_ = [n for n, c in mc.calls_named("stop")]
    chk.ob("TABLE-17", "a stopped instance is forgotten (after it was stopped)", len(dl) == 1 and len(sc_) == 1 and mc.dominates(sc_[0].id, dl[0].id), sm.where(),
           construct=sm.ident, text="stop forgets instance")


def _settings_not_mutated(chk, repo):
    """MUT-17: a config player never writes into the settings it is handed: they are the mode's parsed config or a cached show step and
    are handed out again at the next play.  A value that is changed per play (priority raised by the caller's priority, the action
    popped off) is changed in a private copy: every store into / mutating call on a name that came out of `settings` is dominated by
    a re-binding of that name to a copy of itself."""
    MUTATORS = {"pop", "update", "setdefault", "clear", "append", "extend", "remove", "popitem", "insert"}
    COPIERS = {"dict", "deepcopy", "copy", "list"}
    n = 0
    for rel, m in sorted(repo.modules.items()):
        if not rel.startswith("mpf/config_players/"):
            continue
        for c in m.classes.values():
            f = c.methods.get("play")
            if f is None or "settings" not in [a.arg for a in f.node.args.args]:
                continue
            taint = {"settings"}
            for x in walk_local(f.node):
                if isinstance(x, ast.For) and any(isinstance(y, ast.Name) and y.id in taint for y in ast.walk(x.iter)):
                    taint |= {t.id for t in ast.walk(x.target) if isinstance(t, ast.Name)}
            cfg = None
            for x in walk_local(f.node):
                names = []
                tg = x.targets if isinstance(x, (ast.Assign, ast.Delete)) else ([x.target] if isinstance(x, ast.AugAssign) else [])
                for t in tg:
                    if isinstance(t, ast.Subscript) and isinstance(t.value, ast.Name) and t.value.id in taint:
                        names.append(t.value.id)
                if isinstance(x, ast.Expr) or isinstance(x, ast.Assign):
                    for y in ast.walk(x):
                        if isinstance(y, ast.Call) and isinstance(y.func, ast.Attribute) and isinstance(y.func.value, ast.Name) and y.func.value.id in taint and \
                                y.func.attr in MUTATORS:
                            names.append(y.func.value.id)
                for nm in names:
                    n += 1
                    chk.analysed(f)
                    cfg = cfg or f.cfg()
                    here = [q for q in cfg.nodes if q.kind == "stmt" and q.ast is x]
                    copies = [q for q in cfg.nodes if q.kind == "stmt" and isinstance(q.ast, ast.Assign) and src(q.ast.targets[0]) == nm and isinstance(q.ast.value, ast.Call) and
                              ((call_attr(q.ast.value) or getattr(q.ast.value.func, "id", "")) in COPIERS) and
                              ([src(a) for a in q.ast.value.args] == [nm] or (isinstance(q.ast.value.func, ast.Attribute) and src(q.ast.value.func.value) == nm))]
                    ok = bool(here) and any(cfg.dominates(cp.id, here[0].id) for cp in copies)
                    chk.ob("MUT-17", "%s.play changes `%s` only after it made its own copy of it" % (c.name, nm), ok, f.where(x),
                           detail="`%s` writes into the settings object that is handed out again at the next play" % short(x, 60) if not ok else "", construct=f.ident,
                           text="handed settings mutated: %s in %s" % (nm, c.name))
    chk.ob("MUT-17", "writes into handed settings examined (%d)" % n, n >= 2, "mpf/config_players/show_player.py:1", nontrivial=False)


def _start_order_and_fadeout_timer(chk, repo):
    """REPL-17 (order): when a show starts at its sync point, the show it replaces is stopped (start callback) *before* the first step of
    the new show runs: non-stacked effects (a coil both shows hold) set by the new step would otherwise be cleared by the old show's stop.
    PAIR-24 (shared with C09): a light's fade-out entry of one key is removed by a timer of its own (the delay name varies with the key):
    two shows fading out on one light must not cancel each other's clean-up."""
    f = repo.func(SH, "RunningShow._start_now")
    chk.analysed(f)
    cfg = f.cfg()
    cb = [n for n in cfg.nodes if n.kind == "stmt" and isinstance(n.ast, ast.Expr) and isinstance(n.ast.value, ast.Call) and src(n.ast.value.func) == "self.start_callback"]
    run = [n for n, c in cfg.calls_named("_run_next_step")]
    clr = [n for n in cfg.nodes if n.kind == "stmt" and isinstance(n.ast, ast.Assign) and src(n.ast.targets[0]) == "self.start_callback" and src(n.ast.value) == "None"]
    ok = len(cb) == 1 and len(run) == 1 and len(clr) == 1 and cfg.path_avoiding(run[0].id, [cb[0].id], [], ignore_exc=True) is None and \
        cfg.guards_at(cb[0].id).get("self.start_callback") is True and cfg.dominates(cb[0].id, clr[0].id)
    chk.ob("REPL-17", "at its start a show first runs its start callback (which stops the show it replaces), once, and then its first step", ok, f.where(),
           construct=f.ident, text="start callback before first step")
    LTF = "mpf/devices/light.py"
    g = repo.func(LTF, "Light.remove_from_stack_by_key")
    chk.analysed(g)
    rs = [c for c in g.calls() if call_attr(c) == "reset" and "delay" in src(c.func.value)]
    chk.need(len(rs) == 1, "PAIR-24", "a faded removal books the removal of its fade-out entry", g)
    nm = kwarg(rs[0], "name")
    cbk = kwarg(rs[0], "callback")
    ok = nm is not None and any(isinstance(y, ast.Name) and y.id == "key" for y in ast.walk(nm)) and cbk is not None and "key=key" in src(cbk).replace(" ", "")
    chk.ob("PAIR-24", "each key's fade-out has a clean-up timer of its own, bound to that key", ok, g.where(rs[0]), detail="name=%s" % (src(nm) if nm is not None else None),
           construct=g.ident, text="fadeout timer per key")


def _token_cache(chk, repo):
    """CACHE-17: the per-token step cache is keyed by the whole token mapping.  The cached steps depend on token *names and values*
    (both are substituted); a key built from part of the mapping (`.values()`, `.keys()`, a single entry, `len`) makes two different
    substitutions share one entry: the second show plays the first one's steps."""
    f = repo.func(SH, "Show.get_show_steps_with_token")
    chk.analysed(f)
    stores = [x for x in walk_local(f.node) if isinstance(x, ast.Assign) and isinstance(x.targets[0], ast.Subscript) and src(x.targets[0].value) == "self._step_cache"]
    reads = [x for x in walk_local(f.node) if isinstance(x, ast.Subscript) and src(x.value) == "self._step_cache" and isinstance(x.ctx, ast.Load)]
    chk.need(stores and reads, "CACHE-17", "get_show_steps_with_token caches the substituted steps", f)
    keyn = src(stores[0].targets[0].slice)
    same = all(src(r.slice) == keyn for r in reads)
    kd = [x for x in walk_local(f.node) if isinstance(x, ast.Assign) and src(x.targets[0]) == keyn]
    whole = False
    detail = "key %s" % keyn
    if len(kd) == 1:
        e = kd[0].value
        detail = "key = %s" % src(e)
        # every mention of the mapping inside the key expression is the mapping as a whole or its items()
        uses = [y for y in ast.walk(e) if isinstance(y, ast.Name) and y.id == "show_tokens"]
        partial = [y for y in ast.walk(e) if isinstance(y, ast.Attribute) and isinstance(y.value, ast.Name) and y.value.id == "show_tokens" and y.attr not in ("items",)]
        sub = [y for y in ast.walk(e) if isinstance(y, ast.Subscript) and isinstance(y.value, ast.Name) and y.value.id == "show_tokens"]
        lens = [y for y in ast.walk(e) if isinstance(y, ast.Call) and isinstance(y.func, ast.Name) and y.func.id in ("len", "bool", "id", "type")]
        whole = bool(uses) and not partial and not sub and not lens
    chk.ob("CACHE-17", "the step cache is read and written under the same key, built from the whole token mapping (names and values)", same and whole, f.where(),
           detail=detail, construct=f.ident, text="step cache " + detail)
    # the value cached is the substituted copy, and substitution happens on a copy of the show's steps
    cp = [x for x in walk_local(f.node) if isinstance(x, ast.Assign) and src(x.targets[0]) == src(stores[0].value) and isinstance(x.value, ast.Call)
          and call_attr(x.value) == "get_show_steps"]
    chk.ob("CACHE-17", "tokens are substituted in a copy of the show's steps (get_show_steps()), never in the shared steps", len(cp) == 1, f.where(), construct=f.ident,
           text="substitution on a copy")


def battery():
    from sa.battery import M
    return [
        M("stop callback runs before the contexts are cleared", "mpf/assets/show.py", "        # clear context in used players\n        for player in self._players:\n            self.machine.show_controller.show_players[player].show_stop_callback(self.context)\n\n        self._players = set()\n\n        if self.callback and callable(self.callback):\n            self.callback()\n", "        if self.callback and callable(self.callback):\n            self.callback()\n\n        # clear context in used players\n        for player in self._players:\n            self.machine.show_controller.show_players[player].show_stop_callback(self.context)\n\n        self._players = set()\n", "REPL-17"),
        M("fade-out starts from the colour on top of the stack", "mpf/devices/light.py", "            color_of_key = self._get_color_and_fade(stack, 0)[0]", "            color_of_key = self._get_color_and_fade(self.stack, 0)[0]", "FADE-2"),
        M("step time not handed to the players", "mpf/core/config_player.py", "show_tokens=show_tokens, context=context, start_time=start_time)", "show_tokens=show_tokens, context=context)", "FWD-17"),
        M("remembered fade compared by its start colour", "mpf/devices/light.py", "target_color == self._last_fade_target[2]", "target_color == self._last_fade_target[0]", "SUPP-1"),
        M("conditional show stopped under the subscription key", "mpf/config_players/show_player.py", "                self._stop(show_key, instance_dict, show.name, show_settings, False, None, {})", "                self._stop(key, instance_dict, show.name, show_settings, False, None, {})", "SUBS-17"),
        M("step time rounded to ms", SH, "        time_to_next_step = self.show_steps[self.current_step_index]['duration'] / self.show_config.speed", "        time_to_next_step = round(self.show_steps[self.current_step_index]['duration'] / self.show_config.speed, 3)", "DOM-31"),
        M("relative scheduling", SH, "            self._delay_handler = self.machine.clock.loop.call_at(when=self.next_step_time,\n                                                                  callback=self._run_next_step)", "            self._delay_handler = self.machine.clock.loop.call_later(time_to_next_step, self._run_next_step)", "DOM-31"),
        M("rebased every step", SH, "            self.next_step_time += time_to_next_step\n", "            self.next_step_time = self.machine.clock.get_time() + time_to_next_step\n", "DOM-31"),
        M("speed multiplies", SH, "['duration'] / self.show_config.speed", "['duration'] * self.show_config.speed", "DOM-31"),
        M("sync wait in ms", SH, "            delay_secs = self.next_step_time - self.machine.clock.get_time()", "            delay_secs = (self.next_step_time - self.machine.clock.get_time()) * 1000", "UNIT-5"),
        M("sync without /1000", SH, "            self.next_step_time += (self.show_config.sync_ms / 1000.0) - (self.next_step_time %\n                                                                          (self.show_config.sync_ms / 1000.0))", "            self.next_step_time += self.show_config.sync_ms - (self.next_step_time % self.show_config.sync_ms)", "UNIT-5"),
        M("loops decremented twice", SH, "                self.loops -= 1\n                self.next_step_index = 0", "                self.loops -= 2\n                self.next_step_index = 0", "DOM-32"),
        M("infinite loop ends", SH, "            elif self.loops < 0:\n                self.next_step_index = 0", "            elif self.loops < -1:\n                self.next_step_index = 0", "DOM-32"),
        M("completion events before stop", SH, "                self.stop()\n                if self.show_config.events_when_completed:\n                    events.extend(self.show_config.events_when_completed)\n                self._post_events(events)\n                return", "                if self.show_config.events_when_completed:\n                    events.extend(self.show_config.events_when_completed)\n                self._post_events(events)\n                self.stop()\n                return", "PAIR-20"),
        M("player not remembered", SH, "            self._players.add(item_type)\n", "", "PAIR-20"),
        M("played under global context", SH, "                context=self.context,\n                calling_context=self.current_step_index,", "                context=self.name,\n                calling_context=self.current_step_index,", "PAIR-20"),
        M("stop keeps pending step", SH, "        self._remove_delay_handler()\n\n        # clear context in used players", "        # clear context in used players", "PAIR-20"),
        M("stop clears first player only", SH, "        for player in self._players:\n            self.machine.show_controller.show_players[player].show_stop_callback(self.context)", "        for player in list(self._players)[:1]:\n            self.machine.show_controller.show_players[player].show_stop_callback(self.context)", "PAIR-20"),
        M("light cleared with context not full key", LP, "        for (full_context, _), light in self._get_instance_dict(context).items():\n            light.remove_from_stack_by_key(full_context)", "        for (full_context, _), light in self._get_instance_dict(context).items():\n            light.remove_from_stack_by_key(context)", "FLOW-8"),
        M("light coloured under bare context", LP, "        light.color(color, key=full_context, fade_ms=fade_ms, priority=priority, start_time=start_time)", "        light.color(color, key=instance_dict and full_context[:-1], fade_ms=fade_ms, priority=priority, start_time=start_time)", "FLOW-8"),
        M("fade-out entry of a stopped show never found", "mpf/devices/light.py", "                # found entry above the removed which is non-transparent\n                color_change = False\n", "                # found entry above the removed which is non-transparent\n                color_change = False\n                break\n", "FLOW-8"),
        # twins
        M("twin: inline increment", SH, "            self.next_step_time += time_to_next_step\n", "            self.next_step_time += self.show_steps[self.current_step_index]['duration'] / self.show_config.speed\n", None),
        M("twin: snapshot players", SH, "        for player in self._players:\n            self.machine.show_controller.show_players[player].show_stop_callback(self.context)", "        for player in list(self._players):\n            self.machine.show_controller.show_players[player].show_stop_callback(self.context)", None),
        M("infinite loops post no looped events", SH, "            elif self.loops < 0:\n                self.next_step_index = 0\n                if self.show_config.events_when_looped:\n                    events.extend(self.show_config.events_when_looped)", "            elif self.loops < 0:\n                self.next_step_index = 0", "EVT-17"),
        M("completed events queued but never posted", SH, "                    events.extend(self.show_config.events_when_completed)\n                self._post_events(events)\n                return", "                    events.extend(self.show_config.events_when_completed)\n                return", "EVT-17"),
        M("completion events on every wrap", SH, "                self.loops -= 1\n                self.next_step_index = 0\n", "                self.loops -= 1\n                self.next_step_index = 0\n                events.extend(self.show_config.events_when_completed or [])\n", "EVT-17"),
        M("played events not posted", SH, "self._run_next_step(post_events=self.show_config.events_when_played,", "self._run_next_step(post_events=None,", "EVT-17"),
        M("stopped events posted by every stop call", SH, "        if self._stopped:\n            return\n        self.machine.show_controller.debug_log(\"Stopping show %s\", self.show.name)", "        if self.show_config.events_when_stopped:\n            self._post_events(self.show_config.events_when_stopped)\n        if self._stopped:\n            return\n        self.machine.show_controller.debug_log(\"Stopping show %s\", self.show.name)", "EVT-17"),
        M("start step 0 starts at the last step", SH, "        if self.start_step > 0:\n            self.next_step_index = self.start_step - 1", "        if self.start_step >= 0:\n            self.next_step_index = self.start_step - 1", "START-17"),
        M("start step off by one", SH, "            self.next_step_index = self.start_step - 1\n        elif", "            self.next_step_index = self.start_step\n        elif", "START-17"),
        M("negative index not wrapped", SH, "        if self.next_step_index < 0:\n            self.next_step_index %= self._total_steps\n", "", "START-17"),
        M("stop colour ignored", LP, "        if isinstance(color, str) and color == \"stop\":\n            self._light_remove(light, instance_dict, full_context, fade_ms)\n            return\n", "", "FLOW-8"),
        M("light coloured without the step's start time", LP, "priority=priority, start_time=start_time)", "priority=priority)", "FLOW-8"),
        M("resume keeps the old deadline", SH, "        self.next_step_time = self.machine.clock.get_time()\n        self._run_next_step(post_events=self.show_config.events_when_resumed)", "        self.next_step_time = max(self.next_step_time, self.machine.clock.get_time())\n        self._run_next_step(post_events=self.show_config.events_when_resumed)", "DOM-31"),
        M("pending start callback only while the start timer is pending", SH, "        if self.start_callback:\n            self.start_callback()\n            self.start_callback = None\n\n        self._remove_delay_handler()\n\n        # clear context in used players", "        if self._delay_handler:\n            if self.start_callback:\n                self.start_callback()\n                self.start_callback = None\n            self._remove_delay_handler()\n\n        # clear context in used players", "PAIR-20"),
        M("twin: pending step removed only when there is one", SH, "        self._remove_delay_handler()\n\n        # clear context in used players", "        if self._delay_handler:\n            self._remove_delay_handler()\n\n        # clear context in used players", None),
        M("step_back runs the step before it moves the index", "mpf/assets/show.py", "        self.next_step_index -= steps + 1\n\n        self._run_next_step(post_events=self.show_config.events_when_stepped_back)", "        self._run_next_step(post_events=self.show_config.events_when_stepped_back)\n        self.next_step_index -= steps + 1", "DOM-32"),
        M("advance(steps=n) jumps to an absolute step", "mpf/assets/show.py", "            self.next_step_index += steps - 1", "            self.next_step_index = steps - 1", "DOM-32"),
        M("step extends the caller's configured event list in place", SH, "        events = []\n        if post_events:\n            events.extend(post_events)", "        events = post_events if post_events else []", "EVT-17"),
        M("twin: caller's events copied", SH, "        events = []\n        if post_events:\n            events.extend(post_events)", "        events = list(post_events) if post_events else []", None),
        M("step cache keyed by the token values only", SH, "            token_hash = hash(str(show_tokens))", "            token_hash = hash(tuple(show_tokens.values()))", "CACHE-17"),
        M("twin: step cache keyed by the sorted items", SH, "            token_hash = hash(str(show_tokens))", "            token_hash = hash(tuple(sorted(show_tokens.items())))", None),
        M("a show still waiting for its sync point is advanced", "mpf/core/show_controller.py", "            elif old_instance.current_step_index is not None and \\\n                    old_instance.current_step_index + 2 == start_step:", "            elif old_instance.next_step_index + 1 == start_step:", "SYNC-17"),
        M("update() drops falsy values", SH, "updated_values = {k: v for k, v in kwargs.items() if v is not None}", "updated_values = {k: v for k, v in kwargs.items() if v}", "UPD-17"),
        M("speed and loops swapped on the way into the show config", SH, "            self.name, priority, speed, loops, sync_ms, manual_advance, show_tokens, events_when_played,", "            self.name, priority, loops, speed, sync_ms, manual_advance, show_tokens, events_when_played,", "FWD-17"),
        M("start and stop callbacks swapped", SH, "return self.play_with_config(show_config, start_time, start_running, start_callback, callback, start_step)", "return self.play_with_config(show_config, start_time, start_running, callback, start_callback, start_step)", "FWD-17"),
        M("looped / paused event lists swapped in the record", "mpf/core/show_controller.py", "show_tokens, events_when_played, events_when_stopped, events_when_looped,\n                          events_when_paused,", "show_tokens, events_when_played, events_when_stopped, events_when_paused,\n                          events_when_looped,", "FWD-17"),
        M("show player passes start_time as start_step", "mpf/config_players/show_player.py", "                                                                                  start_step, start_time,\n", "                                                                                  start_time, start_step,\n", "FWD-17"),
        M("config-played show ignores its start step", "mpf/core/show_controller.py", "                                 start_step=config['start_step'], loops=config['loops'],", "                                 loops=config['loops'],", "FWD-17"),
        M("replaced show keeps running when the successor is not synced", "mpf/core/show_controller.py", "            else:\n                # stop the current show instantly\n                old_instance.stop()", "            else:\n                # stop the current show instantly\n                pass", "REPL-17"),
        M("pause action resumes", "mpf/config_players/show_player.py", "            instance_dict[key].pause()", "            instance_dict[key].resume()", "TABLE-17"),
        M("stop action keeps the stopped instance", "mpf/config_players/show_player.py", "            instance_dict[key].stop()\n            del instance_dict[key]", "            instance_dict[key].stop()", "TABLE-17"),
        M("advance mapped to step_back", "mpf/config_players/show_player.py", "            'advance': self._advance,", "            'advance': self._step_back,", "TABLE-17"),
        M("show player raises the priority inside the shared settings", "mpf/config_players/show_player.py", "                show_settings = dict(show_settings)\n", "", "MUT-17"),
        M("explicit sync_ms 0 replaced by the machine default", "mpf/core/show_controller.py", "        if sync_ms is None:\n            sync_ms = self.machine.config['mpf']['default_show_sync_ms']", "        if not sync_ms:\n            sync_ms = self.machine.config['mpf']['default_show_sync_ms']", "FWD-17"),
        M("show pool swaps start_step and start_running", SH, "        return self.asset.play_with_config(show_config, start_time, start_running, start_callback, stop_callback,\n                                           start_step)", "        return self.asset.play_with_config(show_config, start_time, start_step, start_callback, stop_callback,\n                                           start_running)", "FWD-17"),
        M("first step runs before the replaced show is stopped", SH, "        if self.start_callback:\n            self.start_callback()\n            self.start_callback = None\n        pause_after_step = not self.start_running\n        self._run_next_step(post_events=self.show_config.events_when_played,\n                            pause_after_step=pause_after_step)", "        pause_after_step = not self.start_running\n        self._run_next_step(post_events=self.show_config.events_when_played,\n                            pause_after_step=pause_after_step)\n        if self.start_callback:\n            self.start_callback()\n            self.start_callback = None", "REPL-17"),
        M("fade-out clean-up timers of a light share one name", "mpf/devices/light.py", "name=\"remove_fade_{}\".format(key))", "name=\"remove_fade_{}\".format(self.name))", "PAIR-24"),
    ]


def thorough(chk):
    from sa.battery import run_battery
    run_battery(chk, battery())
