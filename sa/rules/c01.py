"""C01 — event dispatch complete, priority-ordered, serial (structural clauses).

OWN-1  single dispatcher            OWN-2  no re-entrant drain
OWN-3  registry ownership           DOM-1  deferred posting
QDISC-1 queue disciplines           SNAP-1 snapshot iteration
SORT-1 sorted after insert          FLOW-1 kwargs merge order
DOM-2  condition before call        DOM-3  callback once, after drain
"""
import ast

from sa.model import src, short, dotted, call_attr, call_recv, kwarg, walk_local, AnalysisError, const_value
from sa.helpers import (own, recv_is, self_in_classes, is_snapshot, base_container, merge_sources,
                        feasible_paths, container_ops)
from sa.index import get_index

EV = "mpf/core/events.py"
EM = "EventManager"


def _events_recv(repo):
    em = {repo.cls(EV, EM).ident}
    by_self = self_in_classes(repo, em)

    def pred(u):
        t = u.recv_text
        if t in ("self", "cls"):
            return by_self(u)
        if t is None:
            return None
        if t.endswith(".events") or t == "events":
            return True
        return None
    return pred


def check(chk):
    repo = chk.repo
    chk.explanation = ("C01: who-may-call over the whole repository for the dispatcher internals, deque "
                       "disciplines, snapshot iteration, sort-after-insert, kwargs merge order, condition "
                       "dominance and callback placement in mpf/core/events.py; decided on AST/CFG/call edges. "
                       "The behavioural property (exactly-once, depth-first order for every posting tree) is not decided.")
    em = repo.cls(EV, EM)
    f_peq = repo.func(EV, EM + ".process_event_queue")
    f_pe = repo.func(EV, EM + "._process_event")
    f_pqe = repo.func(EV, EM + "._process_queue_event")
    f_rh = repo.func(EV, EM + "._run_handlers")
    f_rhs = repo.func(EV, EM + "._run_handlers_sequential")
    f_post = repo.func(EV, EM + "._post")
    f_add = repo.func(EV, EM + ".add_handler")
    chk.analysed(f_peq, f_pe, f_pqe, f_rh, f_rhs, f_post, f_add)
    ours = _events_recv(repo)

    # ------------------------------------------------------------- OWN-1
    own(chk, "OWN-1", "_process_event", {(EV, EM + ".process_event_queue"): "the drain loop"}, ours)
    own(chk, "OWN-1", "_process_queue_event", {(EV, EM + ".process_event_queue"): "the drain loop"}, ours)
    own(chk, "OWN-1", "_run_handlers", {(EV, EM + "._process_event"): "dispatch of one event"}, ours)
    own(chk, "OWN-1", "_run_handlers_sequential", {(EV, EM + "._process_queue_event"): "queue events run as a task"}, ours)
    chk.floor("OWN-1", 4)
    # handler invocation: `<x>.callback(...)` inside events.py only in the two run loops
    n_cb = 0
    for f in em.methods.values():
        for c in [x for x in ast.walk(f.node) if isinstance(x, ast.Call)]:
            fn = c.func
            is_handler_call = False
            if isinstance(fn, ast.Attribute) and fn.attr == "callback" and isinstance(fn.value, ast.Name):
                is_handler_call = True
            # rh[0](...) / handler[0](...)
            if isinstance(fn, ast.Subscript) and isinstance(fn.value, ast.Name) and fn.value.id in (
                    "handler", "rh", "handler_tup"):
                is_handler_call = True
            if is_handler_call:
                n_cb += 1
                chk.ob("OWN-1", "registered handler invoked in %s" % f.qualname,
                       f.name in ("_run_handlers", "_run_handlers_sequential"), f.where(c),
                       detail="handlers may only be invoked by the two dispatch loops",
                       construct=f.ident, text="handler call " + short(c, 60))
    for f in (f_rh, f_rhs):
        here = [c for c in ast.walk(f.node) if isinstance(c, ast.Call) and isinstance(c.func, ast.Attribute)
                and c.func.attr == "callback" and isinstance(c.func.value, ast.Name)]
        if not here:
            chk.missing("OWN-1", "the dispatch loop invokes the registered handler", f)

    # ------------------------------------------------------------- OWN-2
    ROOTS = {
        ("mpf/core/delays.py", "DelayManager._process_delay_callback"): "runs from the clock (deferred), drains afterwards",
        ("mpf/core/switch_controller.py", "SwitchController._process_active_timed_switches"): "runs from the clock (deferred)",
        ("mpf/core/machine.py", "MachineController._do_stop"): "final drain on shutdown",
        (EV, EM + "._post"): "call_soon(self.process_event_queue) - deferred",
    }
    uses = own(chk, "OWN-2", "process_event_queue", ROOTS, ours)
    chk.floor("OWN-2", 4)
    for u in uses:
        if (u.relpath, u.scope) == (EV, EM + "._post"):
            # must be a deferred reference handed to call_soon, never a direct call
            ok = u.call is None and isinstance(u.parent, ast.Call) and call_attr(u.parent) in ("call_soon", "call_later", "call_at")
            chk.ob("OWN-2", "_post only *schedules* the drain (call_soon reference)", ok, u.where(),
                   detail="a direct call would dispatch inside the poster (nesting)", construct=u.ident,
                   text="process_event_queue in _post " + short(u.parent, 80))
    # the loop-entry functions have only deferred in-edges (or run-loop roots)
    idx = get_index(repo)
    DEFERRED_REGISTRARS = {"partial", "schedule_once", "schedule_interval", "call_soon", "call_later", "call_at",
                           "add_done_callback"}
    for (rel, scope), reason in list(ROOTS.items())[:2]:
        name = scope.split(".")[1]
        found = 0
        for u in idx.uses(name):
            if u.store:
                continue
            found += 1
            deferred = u.call is None and isinstance(u.parent, ast.Call) and call_attr(u.parent) in DEFERRED_REGISTRARS
            chk.ob("OWN-2", "%s has only deferred in-edges" % scope, deferred, u.where(),
                   detail="a direct call from handler-reachable code would drain the queue inside a dispatch",
                   construct=u.ident, text="use of %s: %s" % (name, short(u.parent, 80)))
            if deferred and call_attr(u.parent) == "partial" and u.func is not None:
                # the bound draining callable may only be handed to the loop/clock; stored anywhere else it can be
                # invoked synchronously later (e.g. DelayManager.run_now calling a stored record from inside a handler)
                sink_ok, why = _flows_only_to_scheduler(u.func.node, u.parent)
                chk.ob("OWN-2", "the draining callable built in %s flows only into the scheduler" % u.scope, sink_ok, u.where(),
                       detail=why, construct=u.ident, text="draining partial escapes: " + why)
        chk.require(found >= 1, "C01: no registration site of %s found" % scope)
    stop_roots = {("mpf/core/machine.py", "MachineController._run_loop"), ("mpf/core/machine.py", "MachineController._crash_shutdown"),
                  ("mpf/core/machine.py", "MachineController.shutdown")}
    for u in idx.uses("_do_stop"):
        if u.store:
            continue
        chk.ob("OWN-2", "_do_stop is called only from the run-loop roots", (u.relpath, u.scope) in stop_roots,
               u.where(), construct=u.ident, text="use of _do_stop " + short(u.parent, 80))

    # ------------------------------------------------------------- OWN-3
    for attr in ("registered_handlers", "event_queue", "callback_queue"):
        for u in idx.uses(attr):
            rel = ours(u)
            if rel is False:
                continue
            if u.relpath == EV and u.cls == EM:
                continue
            # outside EventManager: only non-mutating reads
            p = u.parent
            mut = u.store
            if isinstance(p, ast.Subscript) and isinstance(getattr(p, "ctx", None), (ast.Store, ast.Del)):
                mut = True
            if isinstance(p, ast.Attribute) and p.attr in ("append", "appendleft", "pop", "popleft", "remove", "clear",
                                                           "insert", "extend", "sort", "update", "setdefault", "popitem"):
                mut = True
            chk.ob("OWN-3", "%s used outside EventManager is read-only (%s)" % (attr, u.scope), not mut, u.where(),
                   construct=u.ident, text="%s %s" % (attr, short(p, 80)))
    # inside: every mutation of registered_handlers sits in the registration API
    REG_API = {"__init__", "add_handler", "replace_handler", "remove_all_handlers_for_event", "remove_handler",
               "remove_handler_by_event", "remove_handler_by_key", "_remove_event_if_empty"}
    for f in em.methods.values():
        ops = container_ops(f.node, lambda e: "registered_handlers" in src(e) or _alias_of_registry(f.node, e))
        for op, n in ops:
            chk.ob("OWN-3", "registry mutation `%s` in %s" % (op, f.qualname), f.name in REG_API, f.where(n),
                   detail="handler lists are changed only by the add/remove API", construct=f.ident,
                   text="%s %s" % (op, short(n, 80)))
    chk.floor("OWN-3", 6)

    # ------------------------------------------------------------- DOM-1
    # No direct path from the posting API to a handler invocation.
    posting = ["post", "post_boolean", "post_queue", "post_relay", "_post", "post_async", "post_relay_async",
               "post_queue_async"]
    forbidden = {"process_event_queue", "_process_event", "_process_queue_event", "_run_handlers",
                 "_run_handlers_sequential"}
    for name in posting:
        f = repo.func(EV, EM + "." + name)
        chk.analysed(f)
        reach = _direct_self_reach(repo, em, f)
        bad = reach & forbidden
        chk.ob("DOM-1", "%s never dispatches synchronously" % name, not bad, f.where(),
               detail="direct call chain reaches %s" % sorted(bad) if bad else "", construct=f.ident,
               text="posting api reaches dispatcher")
    # _post: every path that passes the early returns appends to event_queue
    cfg = f_post.cfg()
    appends = [n for n, c in cfg.calls_named("append", "appendleft") if "event_queue" in src(c.func)]
    chk.ob("DOM-1", "_post enqueues the event", bool(appends), f_post.where(),
           construct=f_post.ident, text="_post appends to event_queue")
    if appends:
        # returns that are not the two sanctioned early exits
        for ret in cfg.nodes_where(lambda n: n.kind == "stmt" and isinstance(n.ast, ast.Return)):
            if any(cfg.dominates(a.id, ret.id) for a in appends):
                continue        # a return after the event was enqueued skips nothing that matters (guard-clause form of a trailing `if`)
            facts = dict(cfg.facts_at(ret.id))
            sanctioned = facts.get("self._stopped") is True or (
                facts.get("callback") is False and any("registered_handlers" in k and v is True and "not in" in k
                                                       for k, v in facts.items()))
            chk.ob("DOM-1", "early return of _post is one of the sanctioned fast paths", sanctioned, f_post.where(ret.ast),
                   detail="facts: %s" % sorted(facts.items()), construct=f_post.ident,
                   text="early return under " + ";".join("%s=%s" % kv for kv in sorted(facts.items())))
        w = cfg.must_pass(cfg.entry.id, [a.id for a in appends] + [r.id for r in cfg.nodes_where(
            lambda n: n.kind == "stmt" and isinstance(n.ast, ast.Return))])
        chk.ob("DOM-1", "every fall-through path of _post enqueues", w is None, f_post.where(),
               path=cfg.fmt_path(w, EV) if w else None, construct=f_post.ident, text="fallthrough without append")
        # fast path must not drop events that have a callback / are monitored
        for ret in cfg.nodes_where(lambda n: n.kind == "stmt" and isinstance(n.ast, ast.Return)):
            if any(cfg.dominates(a.id, ret.id) for a in appends):
                continue
            facts = dict(cfg.facts_at(ret.id))
            if facts.get("self._stopped") is True:
                continue
            need = [("callback", False), ("self.monitor_events", False)]
            ok = all(facts.get(k) is v for k, v in need) and facts.get("event not in self.registered_handlers") is True
            chk.ob("DOM-1", "no-handler fast path requires: no callback, no monitor, event unknown", ok,
                   f_post.where(ret.ast), detail="facts: %s" % sorted(facts.items()), construct=f_post.ident,
                   text="fast path guard")
    # scheduling of the drain: guarded by the queue being empty *before* the append
    sched = [(n, c) for n, c in cfg.calls_named("call_soon") if "process_event_queue" in src(c)]
    chk.ob("DOM-1", "_post schedules the drain via call_soon", bool(sched), f_post.where(), construct=f_post.ident,
           text="call_soon(process_event_queue) present")
    for n, c in sched:
        facts = dict(cfg.facts_at(n.id))
        ok = facts.get("self.event_queue") is False
        before = all(not cfg.dominates(a.id, n.id) for a in appends)
        chk.ob("DOM-1", "drain is scheduled when (and only when) the queue was empty, before enqueueing",
               ok and before, f_post.where(c), detail="facts: %s" % sorted(facts.items()), construct=f_post.ident,
               text="call_soon guard")

    # ------------------------------------------------------------ QDISC-1
    _qdisc(chk, em, f_peq)

    # ------------------------------------------------------------- SNAP-1
    n_snap = 0
    for f in em.methods.values():
        for n in walk_local(f.node):
            if isinstance(n, (ast.For, ast.AsyncFor)):
                it = n.iter
                base = base_container(it)
                bt = src(base)
                if "registered_handlers[" in bt or bt in _handler_list_aliases(f.node):
                    n_snap += 1
                    mut = _body_mutates_or_calls_out(n)
                    ok = is_snapshot(it) or not mut
                    chk.ob("SNAP-1", "loop over a handler list in %s iterates a copy" % f.qualname, ok, f.where(n),
                           detail="body calls handlers / mutates the list; iterating the live list skips or repeats entries",
                           construct=f.ident, text="for over " + bt)
    chk.floor("SNAP-1", 6)

    # ------------------------------------------------------------- SORT-1
    _sort_rule(chk, f_add)
    _removal_complete(chk, repo)
    # "delivered to each handler": the dispatch loop of _run_handlers is left before the last handler only by a boolean event whose handler
    # returned False (shared with C02 DOM-5); relay and plain events always reach every handler
    rh_f = repo.func(EV, EM + "._run_handlers")
    rcfg = rh_f.cfg()
    heads_ = [h for h in rcfg.nodes if h.kind == "loop"]
    chk.need(heads_, "DOM-2", "_run_handlers loops over the handlers", rh_f)
    leaves_ = [n for n in rcfg.nodes if n.kind == "stmt" and isinstance(n.ast, (ast.Break, ast.Return)) and any(y is n.ast for y in ast.walk(heads_[0].ast))]
    for n in leaves_:
        g = rcfg.guards_at(n.id)
        ok = g.get("ev_type == 'boolean'") is True and any(k.endswith(" is False") and v is True for k, v in g.items())
        chk.ob("DOM-2", "the dispatch loop is left before the last handler only by a boolean event whose handler returned False", ok, rh_f.where(n.ast),
               detail="guards %s" % sorted((k, v) for k, v in g.items() if v is True)[:5], construct=rh_f.ident, text="dispatch loop left early")
    chk.ob("DOM-2", "early exits of the dispatch loop examined", len(leaves_) >= 1, rh_f.where(), detail=str(len(leaves_)), nontrivial=False)
    # "not removed before its turn" presupposes that removal by key finds the registration: the returned key carries the parsed event name and
    # the stored key (obligation shared with C07)
    from sa.rules.c07 import _handler_keys
    _handler_keys(chk, repo)

    # ------------------------------------------------------------- FLOW-1 / DOM-2
    for f in (f_rh, f_rhs):
        _merge_and_condition(chk, f)

    # ------------------------------------------------------------- DOM-3
    _callbacks(chk, f_pe, f_rhs, f_peq, f_pqe)

    # ------------------------------------------------------------- FRESH-0
    _fresh_queue(chk, f_peq)
    _resume_before_stacking(chk, f_peq)
    # a coroutine handler of a queue event holds the event while its task runs: whatever way the task ends (result, exception passed on,
    # cancellation) the hold is released - or the handlers behind it never get the event and the completion callback never runs
    adh = chk.repo.func(EV, EM + "._async_handler_done")
    chk.analysed(adh)
    acfg = adh.cfg()
    clr_ = [n.id for n, c in acfg.calls_named("clear") if src(c.func.value) == "queue"]
    w_ = acfg.path_avoiding(acfg.entry.id, [acfg.exit.id], clr_, ignore_exc=False) if clr_ else [acfg.entry.id]
    chk.ob("DOM-3", "the done-callback of a coroutine handler releases the queue event on every returning path (cancellation included)", w_ is None, adh.where(),
           construct=adh.ident, text="coroutine handler hold released", path=acfg.fmt_path(w_, adh) if w_ and len(w_) > 1 else None, nontrivial=True)

    # ------------------------------------------------------------- FWD-1
    _forwarding(chk, repo, em)

    # ------------------------------------------------------------- PRIO-1
    _priority_value(chk, f_add)


def _fresh_queue(chk, f_peq):
    """FRESH-0: the deque being drained is never the deque posts are appended to.  Every binding of a local to
    `self.event_queue` is followed, before any dispatch call can run, by re-binding `self.event_queue` to a fresh
    deque -- otherwise events posted by a handler join the queue being drained (breadth-first instead of
    depth-first: they run after events that were already waiting)."""
    cfg = f_peq.cfg()
    dispatch = [n.id for n, c in cfg.calls_named("_process_event", "_process_queue_event")]
    if not dispatch:
        chk.missing("FRESH-0", "process_event_queue dispatches events (_process_event / _process_queue_event call)", f_peq)
        return

    def rebinds_fresh(n):
        if n.kind != "stmt" or not isinstance(n.ast, (ast.Assign, ast.AnnAssign)):
            return False
        tgts = n.ast.targets if isinstance(n.ast, ast.Assign) else [n.ast.target]
        vals = [n.ast.value]
        pairs = []
        for t in tgts:
            if isinstance(t, ast.Tuple) and isinstance(n.ast.value, ast.Tuple) and len(t.elts) == len(n.ast.value.elts):
                pairs += list(zip(t.elts, n.ast.value.elts))
            else:
                pairs.append((t, vals[0]))
        for t, v in pairs:
            if src(t) == "self.event_queue" and isinstance(v, ast.Call) and dotted(v.func) in ("deque", "collections.deque") \
                    and not v.args:
                return True
        return False

    fresh = [n.id for n in cfg.nodes if rebinds_fresh(n)]
    k = 0
    for n in cfg.nodes:
        if n.kind != "stmt" or not isinstance(n.ast, (ast.Assign, ast.AnnAssign)) or n.ast.value is None:
            continue
        v = n.ast.value
        takes = src(v) == "self.event_queue" or (isinstance(v, ast.Tuple) and any(src(e) == "self.event_queue" for e in v.elts))
        if not takes:
            continue
        k += 1
        if n.id in fresh:       # swapped in one statement
            ok, path = True, None
        else:
            path = cfg.path_avoiding(n.id, dispatch, fresh, ignore_exc=True)
            ok = path is None
        chk.ob("FRESH-0", "after taking self.event_queue for draining a fresh deque is installed before any dispatch",
               ok, f_peq.where(n.ast),
               detail="events posted by a handler would be appended to the deque being drained and run after events that "
                      "were already waiting (breadth-first)", construct=f_peq.ident,
               text="drained deque aliased with event_queue: " + short(n.ast, 60),
               path=cfg.fmt_path(path, f_peq) if path else None)
    if k < 2:
        chk.missing("FRESH-0", "the drain loop takes the pending deque at its start and after every dispatch that posted events (`<local> = self.event_queue`, found %d of 2)" % k, f_peq)


def _resume_before_stacking(chk, f_peq):
    """RESUME-1: a batch that is stacked on the suspended batches is either non-empty or the stack below it is
    empty.  Between taking an event out of the current batch and stacking that batch (`<inner>.appendleft(<batch>)`)
    every path passes one of: the resume step (`<batch> = <inner>.popleft()`), the outcome "nothing is suspended"
    of a test of <inner>, or the outcome "the batch still has events" of a test of <batch>.  Otherwise an emptied
    batch lands on top of a suspended one, the drain loop ends when the top runs empty and the suspended events
    are never dispatched (and completion callbacks run without them)."""
    cfg = f_peq.cfg()
    pushes = []
    for n in cfg.nodes:
        if n.kind != "stmt":
            continue
        for c in n.calls():
            if isinstance(c.func, ast.Attribute) and c.func.attr in ("appendleft", "append", "insert") \
                    and isinstance(c.func.value, ast.Name) and c.args and isinstance(c.args[-1], ast.Name):
                pushes.append((n, c.func.value.id, c.args[-1].id))
    # only deques of batches: the pushed name is also drained with popleft()
    drained = {}
    for n in cfg.nodes:
        if n.kind == "stmt" and isinstance(n.ast, ast.Assign) and isinstance(n.ast.value, ast.Call) \
                and isinstance(n.ast.value.func, ast.Attribute) and n.ast.value.func.attr == "popleft" \
                and isinstance(n.ast.value.func.value, ast.Name):
            drained.setdefault(n.ast.value.func.value.id, []).append(n)
    pushes = [(n, inner, batch) for n, inner, batch in pushes if batch in drained and inner in drained]
    if not pushes:
        chk.missing("RESUME-1", "process_event_queue stacks the current batch on the suspended ones (`<inner>.appendleft(<batch>)`)", f_peq)
        return
    for pn, inner, batch in pushes:
        takes = [n for n in drained[batch] if not (isinstance(n.ast.targets[0], ast.Name) and n.ast.targets[0].id == inner)]
        resumes = [n.id for n in drained[inner] if isinstance(n.ast.targets[0], ast.Name) and n.ast.targets[0].id == batch]
        chk.ob("RESUME-1", "a suspended batch is resumed when the current one runs empty (`%s = %s.popleft()`)" % (batch, inner),
               bool(resumes), f_peq.where(pn.ast), construct=f_peq.ident, text="resume step present for " + batch)
        via = set(resumes)
        for b in cfg.nodes:
            if b.kind == "branch" and b.tag not in ("iter", "exhausted") and isinstance(b.ast, ast.Name):
                if (b.ast.id == inner and b.value is False) or (b.ast.id == batch and b.value is True):
                    via.add(b.id)
        for t in takes:
            path = cfg.path_avoiding(t.id, [pn.id], via, ignore_exc=True)
            chk.ob("RESUME-1", "no emptied batch is stacked above a suspended one", path is None, f_peq.where(pn.ast),
                   detail="after `%s` the batch may be empty while batches are suspended; stacking it hides them: the "
                          "loop ends when it is popped again and the suspended events are never dispatched"
                          % short(t.ast, 50),
                   construct=f_peq.ident, text="stack %s on %s after taking an event" % (batch, inner),
                   path=cfg.fmt_path(path, f_peq) if path else None, nontrivial=True)
    chk.floor("RESUME-1", 2)


def _names_in_args(call):
    out = set()
    for a in list(call.args) + [k.value for k in call.keywords]:
        for x in ast.walk(a):
            if isinstance(x, ast.Name):
                out.add(x.id)
    return out


def _forwarding(chk, repo, em):
    """FWD-1: the thin public wrappers hand everything they were given to the worker they wrap: posted kwargs,
    the completion callback, the handler's registration kwargs / priority.  A dropped `**kwargs` compiles, passes
    every test that posts without arguments, and silently strips the arguments from every event of that type."""
    TABLE = [
        # wrapper, callee, parameters that must appear in the call
        ("post", "_post", ("event", "callback", "kwargs")),
        ("post_boolean", "_post", ("event", "callback", "kwargs")),
        ("post_queue", "_post", ("event", "callback", "kwargs")),
        ("post_relay", "_post", ("event", "callback", "kwargs")),
        ("post_async", "post", ("event", "kwargs")),
        ("post_relay_async", "post_relay", ("event", "kwargs")),
        ("post_queue_async", "post_queue", ("event", "kwargs")),
        ("add_async_handler", "add_handler", ("event", "handler", "priority", "blocking_facility", "kwargs")),
        ("_async_handler_coroutine", "_coroutine", ("kwargs",)),
    ]
    for wname, callee, need in TABLE:
        f = em.methods.get(wname)
        if f is None:
            chk.expect(False, "C01: EventManager.%s vanished" % wname)
            continue
        chk.analysed(f)
        calls = [c for c in ast.walk(f.node) if isinstance(c, ast.Call) and (
            (isinstance(c.func, ast.Attribute) and c.func.attr == callee) or
            (isinstance(c.func, ast.Name) and c.func.id == callee))]
        if not calls:
            chk.missing("FWD-1", "%s hands over to %s" % (wname, callee), f)
            continue
        params = set(f.params()) | ({f.vararg_kw} if f.vararg_kw else set())
        for c in calls:
            got = _names_in_args(c)
            for p_ in need:
                if p_ not in params:
                    continue        # the wrapper no longer has that parameter: nothing to forward
                ok = p_ in got
                if p_ == f.vararg_kw:
                    ok = any(k.arg is None and isinstance(k.value, ast.Name) and k.value.id == p_ for k in c.keywords)
                chk.ob("FWD-1", "%s forwards `%s` to %s" % (wname, p_, callee), ok, f.where(c),
                       detail="the argument is silently dropped for every event / handler going through this wrapper",
                       construct=f.ident, text="%s does not forward %s" % (wname, p_))
    # the callbacks the dispatcher invokes get the kwargs that were queued with them
    for fname, what in (("process_event_queue", "completion callback popped from callback_queue"),
                        ("_run_handlers_sequential", "completion callback of a queue event")):
        f = em.methods[fname]
        for c in ast.walk(f.node):
            if isinstance(c, ast.Call) and isinstance(c.func, ast.Name) and c.func.id == "callback":
                ok = any(k.arg is None for k in c.keywords)
                chk.ob("FWD-1", "%s is called with its kwargs" % what, ok, f.where(c), construct=f.ident,
                       text="callback called without **kwargs in " + fname)
    chk.floor("FWD-1", 20)


def _priority_value(chk, f_add):
    """PRIO-1: the priority stored with a handler is the caller's `priority` plus the documented additive
    adjustments (".N" suffix of the event string, relative_priority of the handler) -- never reduced or replaced."""
    recs = [c for c in ast.walk(f_add.node) if isinstance(c, ast.Call) and dotted(c.func) == "RegisteredHandler"]
    if not recs:
        chk.missing("PRIO-1", "add_handler builds the RegisteredHandler record", f_add)
        return
    for c in recs:
        pr = c.args[1] if len(c.args) > 1 else kwarg(c, "priority")
        chk.ob("PRIO-1", "the record's priority field is the `priority` variable", pr is not None and src(pr) == "priority",
               f_add.where(c), construct=f_add.ident, text="priority field " + (src(pr) if pr is not None else "?"))
    adds = 0
    for n in ast.walk(f_add.node):
        tgt = None
        if isinstance(n, ast.AugAssign) and isinstance(n.target, ast.Name) and n.target.id == "priority":
            ok = isinstance(n.op, ast.Add)
            adds += 1
            chk.ob("PRIO-1", "priority adjustments are additive", ok, f_add.where(n), construct=f_add.ident,
                   text="priority adjusted with " + type(n.op).__name__)
        elif isinstance(n, ast.Assign) and any(isinstance(t, ast.Name) and t.id == "priority" for t in n.targets):
            ok = isinstance(n.value, ast.BinOp) and isinstance(n.value.op, ast.Add) and "priority" in src(n.value)
            adds += 1
            chk.ob("PRIO-1", "priority is only ever increased by an adjustment, not replaced", ok, f_add.where(n),
                   construct=f_add.ident, text="priority rebound: " + short(n, 60))
    # the ".N" suffix parsed from the event string is used
    used = any(isinstance(n, ast.Name) and n.id == "additional_priority" and isinstance(n.ctx, ast.Load)
               for n in ast.walk(f_add.node))
    names_bound = any(isinstance(t, ast.Name) and t.id == "additional_priority"
                      for n in ast.walk(f_add.node) if isinstance(n, ast.Assign)
                      for tt in n.targets for t in (tt.elts if isinstance(tt, ast.Tuple) else [tt]))
    if names_bound:
        chk.ob("PRIO-1", "the priority suffix parsed from the event string is applied", used, f_add.where(),
               construct=f_add.ident, text="additional_priority parsed but unused")
    # ... and it is the whole suffix: the number is parsed from everything after the dot, the event name is everything before it
    f_par = chk.repo.func(EV, EM + ".get_event_and_condition_from_string")
    chk.analysed(f_par)
    dots = [x for x in walk_local(f_par.node) if isinstance(x, ast.Assign) and isinstance(x.targets[0], ast.Name) and isinstance(x.value, ast.Call) and
            call_attr(x.value) == "find" and x.value.args and isinstance(x.value.args[0], ast.Constant) and x.value.args[0].value == "."]
    chk.need(len(dots) == 1, "PRIO-1", "the event-string parser looks for the priority suffix (`.N`)", f_par)
    dv, subj = dots[0].targets[0].id, src(dots[0].value.func.value)
    nums = [x for x in walk_local(f_par.node) if isinstance(x, ast.Assign) and src(x.targets[0]) == "additional_priority" and isinstance(x.value, ast.Call)]
    ok = False
    if len(nums) == 1 and isinstance(nums[0].value.func, ast.Name) and nums[0].value.func.id == "int" and len(nums[0].value.args) == 1:
        a = nums[0].value.args[0]
        ok = isinstance(a, ast.Subscript) and src(a.value) == subj and isinstance(a.slice, ast.Slice) and a.slice.upper is None and a.slice.step is None and \
            a.slice.lower is not None and src(a.slice.lower).replace(" ", "") in (dv + "+1", "1+" + dv)
    chk.ob("PRIO-1", "the priority suffix is the whole text after the dot (`event.12` adds 12, not 1)", ok, f_par.where(nums[0]) if nums else f_par.where(),
           detail=src(nums[0].value) if nums else "no int(...) of the suffix", construct=f_par.ident, text="priority suffix extent")
    cuts = [x for x in walk_local(f_par.node) if isinstance(x, ast.Assign) and src(x.targets[0]) == subj and isinstance(x.value, ast.Subscript) and
            src(x.value.value) == subj and isinstance(x.value.slice, ast.Slice) and x.value.slice.upper is not None and src(x.value.slice.upper) == dv]
    ok = any(x.value.slice.lower is None or const_value(x.value.slice.lower) == 0 for x in cuts)
    chk.ob("PRIO-1", "the event name is the whole text before the dot", ok, f_par.where(), construct=f_par.ident, text="event name before the suffix")
    # the @event_handler(relative_priority) decorator of this module stores the attribute on handlers
    decorated = any(isinstance(n, ast.Attribute) and n.attr == "relative_priority" and isinstance(n.ctx, ast.Store)
                    for m in chk.repo.modules.values() for n in ast.walk(m.tree) if m.relpath.startswith("mpf/core/"))
    if decorated:
        applied = any(isinstance(n, (ast.AugAssign, ast.Assign)) and "relative_priority" in src(n.value)
                      and "priority" in src(n.target if isinstance(n, ast.AugAssign) else n.targets[0])
                      for n in ast.walk(f_add.node) if isinstance(n, (ast.AugAssign, ast.Assign)))
        chk.ob("PRIO-1", "a handler's relative_priority (set by @event_handler) is applied", applied, f_add.where(),
               construct=f_add.ident, text="relative_priority not applied")
    chk.floor("PRIO-1", 3)


SCHEDULERS = {"schedule_once", "schedule_interval", "call_soon", "call_later", "call_at", "add_done_callback"}


def _parent_of(root, node):
    for x in ast.walk(root):
        for ch in ast.iter_child_nodes(x):
            if ch is node:
                return x
    return None


def _flows_only_to_scheduler(fn, value):
    par = _parent_of(fn, value)
    if isinstance(par, ast.Call) and call_attr(par) in SCHEDULERS and value in par.args:
        return True, ""
    if isinstance(par, ast.keyword):
        gp = _parent_of(fn, par)
        if isinstance(gp, ast.Call) and call_attr(gp) in SCHEDULERS:
            return True, ""
    if isinstance(par, ast.Assign) and len(par.targets) == 1 and isinstance(par.targets[0], ast.Name):
        nm = par.targets[0].id
        for x in ast.walk(fn):
            if isinstance(x, ast.Name) and x.id == nm and isinstance(x.ctx, ast.Load):
                p2 = _parent_of(fn, x)
                if isinstance(p2, ast.Call) and call_attr(p2) in SCHEDULERS and x in p2.args:
                    continue
                return False, "local `%s` holding the draining callable is also used in `%s`" % (nm, short(p2, 70))
        return True, ""
    return False, "draining callable used in `%s`" % short(par, 70)


def _alias_of_registry(fn, e):
    return False


def _handler_list_aliases(fn):
    """Local names bound to a handler list: `for event, handler_list in self.registered_handlers.items()`."""
    out = set()
    for n in walk_local(fn):
        if isinstance(n, ast.For) and "registered_handlers" in src(n.iter) and isinstance(n.target, ast.Tuple):
            if len(n.target.elts) == 2 and isinstance(n.target.elts[1], ast.Name):
                out.add(n.target.elts[1].id)
        if isinstance(n, ast.Assign) and "registered_handlers[" in src(n.value) and isinstance(n.value, ast.Subscript) \
                and not isinstance(n.value.slice, ast.Slice):
            for t in n.targets:
                if isinstance(t, ast.Name):
                    out.add(t.id)
    return out


def _body_mutates_or_calls_out(loop):
    for st in loop.body:
        for x in ast.walk(st):
            if isinstance(x, ast.Call):
                n = call_attr(x)
                if n in ("remove", "append", "pop", "insert", "clear", "sort") or n == "callback":
                    return True
                if isinstance(x.func, ast.Attribute) and x.func.attr == "callback":
                    return True
            if isinstance(x, ast.Await):
                return True
            if isinstance(x, ast.Delete):
                return True
    return False


def _direct_self_reach(repo, cls, f, depth=6):
    """Names of methods of `cls` reachable from f through direct self.<m>() calls."""
    seen = set()
    todo = [f]
    while todo and depth:
        nxt = []
        for g in todo:
            for c in [x for x in ast.walk(g.node) if isinstance(x, ast.Call)]:
                if isinstance(c.func, ast.Attribute) and dotted(c.func.value) == "self":
                    nm = c.func.attr
                    if nm not in seen:
                        seen.add(nm)
                        m = repo.lookup_method(cls, nm)
                        if m is not None:
                            nxt.append(m)
        todo = nxt
        depth -= 1
    return seen


def _qdisc(chk, em, f_peq):
    """Deque disciplines inside EventManager."""
    # classify receivers
    #   posted  : self.event_queue, and locals assigned from it or from inner_queue.popleft()
    #   inner   : local `inner_queue`-like deque of deques (the one that receives appendleft(<posted>))
    #   cbq     : self.callback_queue
    ALLOWED = {
        "posted": {"append", "popleft"},
        "inner": {"appendleft", "popleft"},
        "cbq": {"append", "pop"},
    }
    seen = {k: set() for k in ALLOWED}
    for f in em.methods.values():
        posted_alias = set()
        inner_alias = set()
        for n in walk_local(f.node):
            if isinstance(n, ast.Assign) and len(n.targets) == 1 and isinstance(n.targets[0], ast.Name):
                v = n.value
                if src(v) == "self.event_queue":
                    posted_alias.add(n.targets[0].id)
        # inner: deque that has posted aliases pushed into it
        for n in walk_local(f.node):
            if isinstance(n, ast.Call) and isinstance(n.func, ast.Attribute) and isinstance(n.func.value, ast.Name) \
                    and n.func.attr in ("append", "appendleft", "insert") and n.args \
                    and isinstance(n.args[-1], ast.Name) and n.args[-1].id in posted_alias:
                inner_alias.add(n.func.value.id)
        for n in walk_local(f.node):
            if isinstance(n, ast.Assign) and len(n.targets) == 1 and isinstance(n.targets[0], ast.Name) \
                    and isinstance(n.value, ast.Call) and isinstance(n.value.func, ast.Attribute) \
                    and isinstance(n.value.func.value, ast.Name) and n.value.func.value.id in inner_alias:
                posted_alias.add(n.targets[0].id)

        def kind_of(e):
            t = src(e)
            if t == "self.event_queue" or (isinstance(e, ast.Name) and e.id in posted_alias):
                return "posted"
            if isinstance(e, ast.Name) and e.id in inner_alias:
                return "inner"
            if t == "self.callback_queue":
                return "cbq"
            return None
        for n in walk_local(f.node):
            if isinstance(n, ast.Call) and isinstance(n.func, ast.Attribute):
                k = kind_of(n.func.value)
                op = n.func.attr
                if k and op in ("append", "appendleft", "pop", "popleft", "insert", "extend", "extendleft", "remove",
                                "rotate", "reverse", "clear"):
                    ok = op in ALLOWED[k]
                    if op == "pop" and n.args:
                        ok = False      # pop(i) is not the LIFO end
                    seen[k].add(op)
                    chk.ob("QDISC-1", "%s deque uses `%s` in %s" % (k, op, f.qualname), ok, f.where(n),
                           detail="discipline %s is %s; another end turns depth-first into breadth-first / reorders callbacks"
                                  % (k, sorted(ALLOWED[k])), construct=f.ident, text="%s.%s %s" % (k, op, short(n, 60)))
            if isinstance(n, ast.Subscript) and kind_of(n.value) and not isinstance(n.ctx, ast.Load):
                chk.ob("QDISC-1", "indexed store into %s deque" % kind_of(n.value), False, f.where(n),
                       construct=f.ident, text="indexed store " + short(n, 60))
    for k, ops in ALLOWED.items():
        if not ops <= seen[k]:
            chk.missing("QDISC-1", "%s deque is used with both of its ends %s (saw %s)" % (k, sorted(ops), sorted(seen[k])),
                        f_peq)
    chk.floor("QDISC-1", 6)


def _removal_complete(chk, repo):
    """REMOVE-1: the removal API takes away *every* registration it is asked to: the scan over a handler list is never left early and
    removes exactly the entries that match (handler / key), so that delivery after a removal is complete with respect to the history
    of registrations and removals (a callable registered twice is gone after one remove)."""
    from sa.helpers import inloop_guards, positive
    from sa.cfg import canon_fact, canon_set
    n = 0
    for name, match in (("remove_handler", ("handler_tup[0] == method",)), ("remove_handler_by_event", ("handler_tup[0] == handler",)),
                        ("remove_handler_by_key", ("handler_tup.key == key.key",))):
        f = repo.func(EV, EM + "." + name)
        chk.analysed(f)
        cfg = f.cfg()
        rms = [(x, c) for x, c in cfg.calls_named("remove") if c.args and isinstance(c.args[0], ast.Name)]
        chk.need(rms, "REMOVE-1", "%s removes registrations from a handler list" % name, f)
        for x, c in rms:
            lps = [h for h in cfg.nodes if h.kind == "loop" and any(y is c for y in ast.walk(h.ast))]
            chk.need(lps, "REMOVE-1", "%s scans a handler list" % name, f)
            lp = lps[-1]
            n += 1
            early = [y for y in ast.walk(lp.ast) if isinstance(y, (ast.Break, ast.Return))]
            chk.ob("REMOVE-1", "%s removes every matching registration (the scan is never left early)" % name, not early, f.where(early[0]) if early else f.where(lp.ast),
                   detail="a callable registered twice keeps one registration" if early else "", construct=f.ident, text="removal scan left early in " + name)
            got = inloop_guards(cfg, x.id, lp.id)
            want = {canon_fact(m_, True) for m_ in match}
            chk.ob("REMOVE-1", "%s removes exactly the registrations that match" % name, got == want, f.where(c), detail="selected by %s" % sorted(got),
                   construct=f.ident, text="removal match in " + name)
    chk.ob("REMOVE-1", "removal scans examined", n >= 3, EV + ":1", detail=str(n), nontrivial=False)
    # replace_handler: takes away exactly the old registrations of that handler (with these kwargs, when kwargs are given) and always registers
    f = repo.func(EV, EM + ".replace_handler")
    chk.analysed(f)
    cfg = f.cfg()
    rms = [(x, c) for x, c in cfg.calls_named("remove") if c.args and isinstance(c.args[0], ast.Name)]
    chk.need(len(rms) in (1, 2), "REMOVE-1", "replace_handler removes old registrations", f)
    if len(rms) == 1:
        # one scan for both cases: selected by `same handler and (no kwargs given or same kwargs)`
        x, c = rms[0]
        lps = [h for h in cfg.nodes if h.kind == "loop" and any(y is c for y in ast.walk(h.ast))]
        chk.need(lps, "REMOVE-1", "replace_handler scans the handler list", f)
        v = src(c.args[0])
        got = inloop_guards(cfg, x.id, lps[-1].id, compound=True)
        atoms = {g for g in got if " or " not in g[0]}
        comp = [g for g in got if " or " in g[0]]
        ok = atoms == {canon_fact("%s[0] == handler" % v, True)} and len(comp) == 1 and comp[0][1] is True
        if ok:
            parts = {canon_fact(p_.strip(), True) for p_ in comp[0][0].split(" or ")}
            ok = parts == {canon_fact("not kwargs", True), canon_fact("%s[2] == kwargs" % v, True)}
        early = [y for y in ast.walk(lps[-1].ast) if isinstance(y, (ast.Break, ast.Return))]
        chk.ob("REMOVE-1", "replace_handler removes every old registration of that handler - with these kwargs when kwargs are given, whatever its kwargs otherwise",
               ok and not early, f.where(c), detail="selected by %s" % sorted(got), construct=f.ident, text="replace_handler removal merged")
        rms = []
    for x, c in rms:
        lps = [h for h in cfg.nodes if h.kind == "loop" and any(y is c for y in ast.walk(h.ast))]
        chk.need(lps, "REMOVE-1", "replace_handler scans the handler list", f)
        lp = lps[-1]
        v = src(c.args[0])
        with_kw = cfg.guards_at(lp.id).get("kwargs") is True
        want = {canon_fact("%s[0] == handler" % v, True)} | ({canon_fact("%s[2] == kwargs" % v, True)} if with_kw else set())
        got = inloop_guards(cfg, x.id, lp.id)
        early = [y for y in ast.walk(lp.ast) if isinstance(y, (ast.Break, ast.Return))]
        chk.ob("REMOVE-1", "replace_handler (%s kwargs) removes exactly the old registrations of that handler, all of them" % ("with" if with_kw else "without"),
               got == want and not early, f.where(c), detail="selected by %s" % sorted(got), construct=f.ident,
               text="replace_handler removal %s" % ("kw" if with_kw else "plain"))
    adds = [x for x, c in cfg.calls_named("add_handler") if [src(a) for a in c.args] == ["event", "handler", "priority"] and
            [(k.arg, src(k.value)) for k in c.keywords] == [(None, "kwargs")]]
    ok = len(adds) == 1 and cfg.must_pass(cfg.entry.id, [adds[0].id], ends=[cfg.exit.id]) is None
    chk.ob("REMOVE-1", "replace_handler always registers the new handler (event, handler, priority, **kwargs)", ok, f.where(), construct=f.ident,
           text="replace_handler registers")
    # an event's entry is dropped only when its list is empty
    f = repo.func(EV, EM + "._remove_event_if_empty")
    chk.analysed(f)
    cfg = f.cfg()
    dels = [x for x in cfg.nodes if x.kind == "stmt" and isinstance(x.ast, ast.Delete) and "registered_handlers" in src(x.ast)]
    chk.need(len(dels) == 1, "REMOVE-1", "_remove_event_if_empty drops the entry", f)
    g = positive(set(canon_set(cfg.guards_at(dels[0].id))))
    ok = canon_fact("self.registered_handlers[event]", False) in g and src(dels[0].ast.targets[0]) == "self.registered_handlers[event]"
    chk.ob("REMOVE-1", "an event's handler list is dropped only when it is empty", ok, f.where(dels[0].ast), detail=str(sorted(g)), construct=f.ident,
           text="drop only empty")
    # waiting for one of several events: one handler per name, all of them removed by the first that fires, which resolves the future with its kwargs
    f = repo.func(EV, EM + ".wait_for_any_event")
    w = repo.func(EV, EM + "._wait_handler")
    chk.analysed(f, w)
    cfg = f.cfg()
    ah = [(x, c) for x, c in cfg.calls_named("add_handler")]
    lps = [h for h in cfg.nodes if h.kind == "loop"]
    ok = len(ah) == 1 and len(lps) == 1 and not inloop_guards(cfg, ah[0][0].id, lps[0].id) and src(lps[0].ast.iter) == "event_names" and \
        not [y for y in ast.walk(lps[0].ast) if isinstance(y, (ast.Break, ast.Return, ast.Continue))]
    if ok:
        c = ah[0][1]
        part = c.args[1] if len(c.args) > 1 else None
        ok = src(c.args[0]) == src(lps[0].ast.target) and isinstance(part, ast.Call) and src(part.args[0]) == "self._wait_handler" and \
            {(k.arg, src(k.value)) for k in part.keywords} >= {("_future", "future"), ("_keys", "keys")}
        par = [y for y in ast.walk(f.node) if isinstance(y, ast.Call) and call_attr(y) == "append" and src(y.func.value) == "keys" and y.args and y.args[0] is c]
        ok = ok and len(par) == 1
    chk.ob("REMOVE-1", "wait_for_any_event registers one waiter per event name, all sharing the future and the key list they are recorded in", ok, f.where(),
           construct=f.ident, text="wait_for_any_event registration")
    wc = w.cfg()
    rm = [(x, c) for x, c in wc.calls_named("remove_handler_by_key")]
    lps = [h for h in wc.nodes if h.kind == "loop"]
    ok = len(rm) == 1 and len(lps) == 1 and not inloop_guards(wc, rm[0][0].id, lps[0].id) and src(lps[0].ast.iter) == "_keys" and \
        [src(a) for a in rm[0][1].args] == [src(lps[0].ast.target)] and not [y for y in ast.walk(lps[0].ast) if isinstance(y, (ast.Break, ast.Return, ast.Continue))]
    chk.ob("REMOVE-1", "the first waiter that fires removes every waiter of the group", ok, w.where(), construct=w.ident, text="waiter group removed")
    sr = [(x, c) for x, c in wc.calls_named("set_result")]
    ok = len(sr) == 1 and [src(a) for a in sr[0][1].args] == ["kwargs"] and \
        positive(set(canon_set(wc.guards_at(sr[0][0].id)))) == {canon_fact("_future.cancelled()", False)} and bool(lps) and wc.dominates(lps[0].id, sr[0][0].id)
    chk.ob("REMOVE-1", "the waiting future gets the event's kwargs unless it was cancelled, after the waiters are gone", ok, w.where(), construct=w.ident,
           text="waiter result")


def _sort_rule(chk, f_add):
    cfg = f_add.cfg()
    # local aliases of the handler list (`handlers = self.registered_handlers[event]`) are the list itself
    aliases = {t.id for a in ast.walk(f_add.node) if isinstance(a, ast.Assign) and isinstance(a.value, (ast.Subscript, ast.Attribute))
               and "registered_handlers" in src(a.value) for t in a.targets if isinstance(t, ast.Name)}

    def is_reg(e):
        t = src(e)
        return "registered_handlers" in t or (isinstance(e, ast.Attribute) and isinstance(e.value, ast.Name) and e.value.id in aliases) or \
            (isinstance(e, ast.Name) and e.id in aliases)
    ins = [(n, c) for n, c in cfg.calls_named("append", "insert", "extend") if is_reg(c.func)]
    if not ins:
        chk.missing("SORT-1", "add_handler inserts the handler into registered_handlers[event]", f_add)
        return
    sorts = []
    for n, c in cfg.calls_named("sort"):
        if is_reg(c.func):
            sorts.append((n, c))
    for n in cfg.nodes_where(lambda n: n.kind == "stmt" and isinstance(n.ast, ast.Assign)):
        v = n.ast.value
        if isinstance(v, ast.Call) and call_attr(v) == "sorted" and ("registered_handlers" in src(n.ast) or any(
                isinstance(y, ast.Name) and y.id in aliases for y in ast.walk(n.ast))):
            sorts.append((n, v))
    for n, c in ins:
        if call_attr(c) == "insert":
            # accepted only with a bisected position
            ok = "bisect" in src(c)
            chk.ob("SORT-1", "insertion at the bisected position", ok, f_add.where(c), construct=f_add.ident,
                   text="insert " + short(c, 70))
            continue
        via = [s.id for s, _ in sorts]
        # a `len(...) > 1` guard is accepted: treat its False branch as passing
        lens = {"len(self.registered_handlers[event])"} | {"len(%s)" % a for a in aliases}
        lenf = [b.id for b in cfg.nodes_where(lambda b: b.kind == "branch" and b.value is False and
                                              src(b.ast).replace(" ", "") in {l + ">1" for l in lens} | {l + ">=2" for l in lens})]
        w = cfg.must_pass(n.id, via + lenf)
        chk.ob("SORT-1", "append to a handler list is followed by the priority sort on every path", w is None,
               f_add.where(c), path=cfg.fmt_path(w, f_add.relpath) if w else None,
               detail="a path returns with the list unsorted", construct=f_add.ident, text="append without sort")
    for n, c in sorts:
        key = kwarg(c, "key")
        rev = kwarg(c, "reverse")
        key_ok = key is not None and "priority" in src(key) and "-" not in src(key)
        if key is not None and isinstance(key, ast.Lambda):
            body = key.body
            key_ok = (isinstance(body, ast.Attribute) and body.attr == "priority") or \
                     (isinstance(body, ast.Subscript) and src(body.slice) == "1")
        rev_ok = rev is not None and isinstance(rev, ast.Constant) and rev.value is True
        chk.ob("SORT-1", "sort key is the handler priority, descending", key_ok and rev_ok, f_add.where(c),
               detail="key=%s reverse=%s" % (src(key), src(rev)), construct=f_add.ident,
               text="sort " + short(c, 80))
    chk.floor("SORT-1", 2)


def _merge_and_condition(chk, f):
    """FLOW-1 (handler kwargs override posted kwargs) and DOM-2 (condition
    evaluated on the merged kwargs before the handler is called)."""
    cfg = f.cfg()
    calls = [(n, c) for n, c in cfg.calls_named("callback")
             if isinstance(c.func, ast.Attribute) and isinstance(c.func.value, ast.Name)]
    if not calls:
        chk.missing("DOM-2", "handler call reachable in the dispatch loop", f)
        return
    posted = "kwargs"
    for n, c in calls:
        hv = c.func.value.id        # loop variable holding the RegisteredHandler
        star = [k.value for k in c.keywords if k.arg is None]
        chk.ob("FLOW-1", "%s passes one **dict to the handler" % f.qualname, len(star) == 1, f.where(c),
               construct=f.ident, text="handler call kwargs " + short(c, 60))
        if len(star) != 1 or not isinstance(star[0], ast.Name):
            continue
        mv = star[0].id
        # loop header of the handler loop
        loops = [h for h in cfg.nodes if h.kind == "loop" and any(isinstance(t, ast.Name) and t.id == hv for t in ast.walk(h.ast.target))
                 and _in_body(h.ast, c)]
        chk.need(loops, "DOM-2", "handlers are called one by one in a loop over the registered handlers", f)
        head = loops[-1]
        it = [b for b in cfg.nodes if b.kind == "branch" and b.test == head.id and b.tag == "iter"][0]
        # ---- DOM-2c: a condition is evaluated when its handler is reached -- in the dispatch loop, in the handler's own iteration,
        # after the earlier handlers ran (they may change what the condition reads; a queue handler may even be waited for)
        ev_all = [x for x in ast.walk(f.node) if isinstance(x, ast.Call) and call_attr(x) == "evaluate" and ".condition" in src(x.func)]
        for x in ev_all:
            chk.ob("DOM-2", "%s evaluates a handler's condition when that handler is reached (inside the dispatch loop)" % f.qualname,
                   _in_body(head.ast, x), f.where(x), detail="evaluated ahead of the loop the condition is stale for every handler but the first",
                   construct=f.ident, text="condition evaluated outside the dispatch loop")
        # definitions of mv inside the loop
        defs = [d for d in cfg.nodes_where(lambda d: d.kind == "stmt" and isinstance(d.ast, ast.Assign) and
                                           any(isinstance(t, ast.Name) and t.id == mv for t in d.ast.targets))]
        if not defs:
            # the merge may be written as an expression elsewhere (a comprehension element): order of its sources is still decidable
            exprs = [x for x in ast.walk(f.node) if isinstance(x, (ast.Call, ast.Dict)) and (merge_sources(x) or []) and
                     any(s_.endswith(".kwargs") for s_ in merge_sources(x)) and posted in merge_sources(x)]
            chk.need(exprs, "FLOW-1", "posted and handler kwargs are merged for the handler call", f)
            for x in exprs:
                srcs = merge_sources(x)
                hs = [s_ for s_ in srcs if s_.endswith(".kwargs")][0]
                ok = max(i for i, s_ in enumerate(srcs) if s_ == hs) > max(i for i, s_ in enumerate(srcs) if s_ == posted)
                chk.ob("FLOW-1", "handler kwargs are merged after (override) posted kwargs in %s" % f.qualname, ok, f.where(x),
                       detail="merge order %s" % srcs, construct=f.ident, text="merge order " + ",".join(srcs))
            continue
        full = 0
        for d in defs:
            srcs = merge_sources(d.ast.value)
            where = f.where(d.ast)
            if srcs is None:
                chk.ob("FLOW-1", "merge expression recognised", False, where,
                       detail="unrecognised dict builder: %s" % short(d.ast.value), construct=f.ident,
                       text="merge " + short(d.ast.value, 80))
                continue
            h_src = "%s.kwargs" % hv
            if h_src in srcs and posted in srcs:
                full += 1
                ok = max(i for i, s in enumerate(srcs) if s == h_src) > max(i for i, s in enumerate(srcs) if s == posted)
                chk.ob("FLOW-1", "handler kwargs are merged after (override) posted kwargs in %s" % f.qualname, ok, where,
                       detail="merge order %s" % srcs, construct=f.ident, text="merge order " + ",".join(srcs))
            elif srcs == [h_src] or srcs == [posted]:
                other = posted if srcs == [h_src] else h_src
                # fast path: accepted only when the other dict is known empty on every feasible path
                paths = feasible_paths(cfg, it.id, [d.id])
                ok = bool(paths) and all(fx.get(other) is False for _, fx in paths)
                chk.ob("FLOW-1", "fast path `%s = %s` only when %s is empty" % (mv, srcs[0], other), ok, where,
                       detail="on some feasible path %s may be non-empty and would be dropped" % other if not ok else "",
                       construct=f.ident, text="fast path %s without %s" % (srcs[0], other))
            else:
                chk.ob("FLOW-1", "merge sources are the posted and the handler kwargs", False, where,
                       detail="sources %s" % srcs, construct=f.ident, text="merge sources " + ",".join(srcs))
        chk.ob("FLOW-1", "%s has a full merge of posted and handler kwargs" % f.qualname, full >= 1, f.where(),
               construct=f.ident, text="full merge present")
        # later .update() on mv with posted kwargs would flip the order
        for n2, c2 in cfg.calls_named("update"):
            if isinstance(c2.func.value, ast.Name) and c2.func.value.id == mv and c2.args and src(c2.args[0]) == posted \
                    and cfg.dominates(n2.id, n.id) is True:
                chk.ob("FLOW-1", "posted kwargs are not re-applied over the merge", False, f.where(c2),
                       construct=f.ident, text="update(kwargs) after merge")

        # ---- DOM-2
        tests = [t for t in cfg.nodes if t.kind == "test" and ".condition" in src(t.ast) and hv in src(t.ast)]
        evals = [t for t in tests if any(call_attr(x) == "evaluate" for x in ast.walk(t.ast) if isinstance(x, ast.Call))]
        chk.ob("DOM-2", "%s evaluates the handler condition" % f.qualname, bool(evals), f.where(),
               detail="no `%s.condition.evaluate(...)` test in the loop" % hv, construct=f.ident,
               text="condition evaluate present")
        for t in evals:
            ev_call = [x for x in ast.walk(t.ast) if isinstance(x, ast.Call) and call_attr(x) == "evaluate"][0]
            a_ok = len(ev_call.args) == 1 and src(ev_call.args[0]) == mv
            chk.ob("DOM-2", "condition is evaluated on the merged kwargs", a_ok, f.where(t.ast),
                   detail="evaluate(%s), handler receives **%s" % (", ".join(src(a) for a in ev_call.args), mv),
                   construct=f.ident, text="evaluate arg " + short(ev_call, 60))
            # the False outcome must not reach the handler call within the iteration
            for b in cfg.nodes:
                if b.kind == "branch" and b.test == t.id and b.value is False:
                    reach = cfg.reachable([b.id], avoid=[head.id], ignore_exc=True)
                    chk.ob("DOM-2", "a false condition skips the handler", n.id not in reach, f.where(t.ast),
                           detail="handler call reachable although the condition evaluated False", construct=f.ident,
                           text="false condition reaches call")
        # every iteration tests the condition before the call
        if tests:
            w = cfg.path_avoiding(it.id, [n.id], [t.id for t in tests], ignore_exc=True)
            chk.ob("DOM-2", "no path to the handler call bypasses the condition test", w is None, f.where(c),
                   path=cfg.fmt_path(w, f.relpath) if w else None, construct=f.ident, text="bypass of condition test")
        # ---- DOM-2b: the only other way to skip a handler is the blocking test (`_min_priority`): a `continue`
        # in the handler loop before the call must be guarded, on every feasible path, by a posted _min_priority,
        # a handler that takes part in blocking, and a *strict* `minimum > handler.priority` comparison
        skips = [x for x in cfg.nodes if x.kind == "stmt" and isinstance(x.ast, ast.Continue) and _in_body(head.ast, x.ast)
                 and cfg.path_avoiding(x.id, [n.id], [], ignore_exc=True) is not None and not cfg.dominates(n.id, x.id)]     # a `continue` after the call skips no handler
        cond_tests = {t.id for t in tests}
        for sk in skips:
            dom = cfg.dominators(True).get(sk.id, ())
            if any(d in cond_tests for d in dom) and any(
                    b.kind == "branch" and b.test in cond_tests and b.id in dom for b in cfg.nodes):
                continue        # the condition-false skip, decided above
            for path, facts in feasible_paths(cfg, it.id, [sk.id]):
                prio_true = [k for k, v in facts.items() if v is True and ".priority" in k and ">" in k]
                # the comparisons *as written* between a posted minimum and the handler's priority are strict, minimum on the greater side
                shape_ok = True
                for tn in [t_ for t_ in cfg.nodes if t_.kind == "test" and _in_body(head.ast, t_.ast)]:
                    for e in [x for x in ast.walk(tn.ast) if isinstance(x, ast.Compare) and len(x.ops) == 1]:
                        l, r = src(e.left), src(e.comparators[0])
                        if not ((".priority" in l and "_min_priority" in r) or (".priority" in r and "_min_priority" in l)):
                            continue
                        strict = (isinstance(e.ops[0], ast.Gt) and r.endswith(".priority") and "_min_priority" in l) or \
                                 (isinstance(e.ops[0], ast.Lt) and l.endswith(".priority") and "_min_priority" in r)
                        if not strict:
                            shape_ok = False
                has_min = any(v is True and "_min_priority" in k and " in " in k and "not in" not in k and ".priority" not in k
                              and "blocking_facility in" not in k for k, v in facts.items())
                takes_part = any(v is True and k.endswith(".blocking_facility") for k, v in facts.items())
                fac_cmp = [k for k in prio_true if "blocking_facility]" in k]
                all_cmp = [k for k in prio_true if "blocking_facility]" not in k]
                member = any(v is True and "blocking_facility in " in k for k, v in facts.items())
                ok = bool(prio_true) and shape_ok and has_min and takes_part and (bool(all_cmp) or (bool(fac_cmp) and member))
                chk.ob("DOM-2", "a handler is skipped by blocking only when a posted minimum is strictly above its priority",
                       ok, f.where(sk.ast), detail="path facts: %s" % sorted((k, v) for k, v in facts.items()
                                                                              if "priority" in k or "blocking" in k),
                       construct=f.ident, text="blocking skip guard", path=cfg.fmt_path(path, f.relpath))
    chk.floor("FLOW-1", 4)
    chk.floor("DOM-2", 6)


def _callbacks(chk, f_pe, f_rhs, f_peq, f_pqe):
    # _process_event: callback never called, appended exactly at one position, outside loops
    cfg = f_pe.cfg()
    direct = [(n, c) for n in cfg.nodes_where(lambda n: n.kind != "branch") for c in n.calls()
              if isinstance(c.func, ast.Name) and c.func.id == "callback"]
    chk.ob("DOM-3", "_process_event never calls the completion callback itself", not direct, f_pe.where(),
           detail="the callback must wait in callback_queue until the event queue is empty", construct=f_pe.ident,
           text="direct callback call in _process_event")
    apps = [(n, c) for n, c in cfg.calls_named("append", "appendleft", "insert") if "callback_queue" in src(c.func)]
    chk.ob("DOM-3", "_process_event queues the callback at exactly one site", len(apps) == 1, f_pe.where(),
           detail="%d sites" % len(apps), construct=f_pe.ident, text="callback_queue.append sites")
    for n, c in apps:
        facts = dict(cfg.facts_at(n.id))
        ok = facts.get("callback") is True
        chk.ob("DOM-3", "callback queued iff one was given", ok, f_pe.where(c), construct=f_pe.ident,
               text="append guard")
        # after the handlers have run
        rh = [m for m, _ in cfg.calls_named("_run_handlers")]
        if not rh:
            chk.missing("DOM-3", "_process_event runs the handlers (reachable _run_handlers call)", f_pe)
            continue
        after = all(not cfg.path_avoiding(n.id, [m.id], [], ignore_exc=True) for m in rh)
        chk.ob("DOM-3", "callback is queued after the handlers ran", after, f_pe.where(c), construct=f_pe.ident,
               text="append before handlers")
    # _process_queue_event: fast path appends, otherwise task
    cfg = f_pqe.cfg()
    apps = [(n, c) for n, c in cfg.calls_named("append") if "callback_queue" in src(c.func)]
    for n, c in apps:
        facts = dict(cfg.facts_at(n.id))
        chk.ob("DOM-3", "queue-event fast path only without handlers", facts.get("event not in self.registered_handlers") is True,
               f_pqe.where(c), detail="facts %s" % sorted(facts.items()), construct=f_pqe.ident, text="fast path guard")
    tasks = [(n, c) for n, c in cfg.calls_named("_run_handlers_sequential")]
    chk.ob("DOM-3", "queue events with handlers run the sequential dispatcher", bool(tasks), f_pqe.where(),
           construct=f_pqe.ident, text="sequential dispatcher started")
    # _run_handlers_sequential: callback call after the loop, only under `if callback`
    cfg = f_rhs.cfg()
    direct = [(n, c) for n in cfg.nodes_where(lambda n: n.kind != "branch") for c in n.calls()
              if isinstance(c.func, ast.Name) and c.func.id == "callback"]
    ids_ = [n.id for n, _ in direct]
    twice = [n for n, _ in direct if cfg.path_avoiding(n.id, ids_, [], ignore_exc=True) is not None]
    chk.ob("DOM-3", "sequential dispatcher calls the callback at most once on any path", bool(direct) and not twice,
           f_rhs.where(twice[0].ast) if twice else f_rhs.where(),
           detail="%d sites; a second call site is reachable from %s" % (len(direct), twice[0].text(40)) if twice else "%d sites" % len(direct),
           construct=f_rhs.ident, text="callback call sites")
    loops = [h for h in cfg.nodes if h.kind == "loop"]
    for n, c in direct:
        inloop = any(_in_body(h.ast, c) for h in loops)
        chk.ob("DOM-3", "callback call is outside the handler loop", not inloop, f_rhs.where(c),
               construct=f_rhs.ident, text="callback in loop")
        facts = {k: v for k, v in cfg.facts_at(n.id) if not k.startswith("self._debug") and k != "self._debug"}
        extra = {k: v for k, v in facts.items() if k != "callback" and k not in ("event not in self.registered_handlers",
                                                                                 "event in self.registered_handlers")}
        chk.ob("DOM-3", "callback call guarded only by `if callback`", facts.get("callback") is True and not extra,
               f_rhs.where(c), detail="facts %s" % sorted(facts.items()), construct=f_rhs.ident, text="callback guard")
        # all handler-loop exits lead to the callback (no return inside the loop skipping it)
        for h in loops:
            ex = [b for b in cfg.nodes if b.kind == "branch" and b.test == h.id and b.tag == "exhausted"]
            for r in cfg.nodes_where(lambda r: r.kind == "stmt" and isinstance(r.ast, ast.Return)):
                if _in_body(h.ast, r.ast):
                    chk.ob("DOM-3", "no return inside the handler loop (would drop the callback)", False,
                           f_rhs.where(r.ast), construct=f_rhs.ident, text="return in loop")
    # await on the queue's event is inside the loop, after the handler call (shared with C02 DOM-4)
    # process_event_queue: callback pop+call outside the inner draining loop
    cfg = f_peq.cfg()
    pops = [(n, c) for n, c in cfg.calls_named("pop", "popleft") if "callback_queue" in src(c.func)]
    if not pops:
        chk.missing("DOM-3", "process_event_queue pops and runs completion callbacks (reachable callback_queue.pop)", f_peq)
    whiles = [x for x in ast.walk(f_peq.node) if isinstance(x, ast.While)]
    inner = [w for w in whiles if "next_queue" in src(w.test) or any(
        isinstance(p, ast.While) and w is not p and _in_body(p, w) for p in whiles)]
    for n, c in pops:
        in_inner = any(_in_body(w, c) for w in inner)
        chk.ob("DOM-3", "callbacks are popped outside the event-draining inner loop", not in_inner, f_peq.where(c),
               detail="a callback would run before everything posted by its event is dispatched", construct=f_peq.ident,
               text="callback pop in inner loop")
        # guarded: the event queue branch has been fully drained first in the same iteration
    # the callback pop must come after the `if self.event_queue:` block in the outer loop body
    outer = [w for w in whiles if w not in inner]
    for w in outer:
        idx_ev = [i for i, st in enumerate(w.body) if isinstance(st, ast.If) and "event_queue" in src(st.test)]
        idx_cb = [i for i, st in enumerate(w.body) if "callback_queue.pop" in src(st)]
        if idx_ev and idx_cb:
            chk.ob("DOM-3", "outer loop drains events before running one callback", min(idx_cb) > max(idx_ev),
                   f_peq.where(w), construct=f_peq.ident, text="drain order")
            # exactly one callback per outer iteration (then events again)
            st = w.body[idx_cb[0]]
            one = not any(isinstance(x, (ast.While, ast.For)) for x in ast.walk(st))
            chk.ob("DOM-3", "one callback per outer iteration, then events again", one, f_peq.where(st),
                   detail="running all callbacks in a row would run a parent's callback before the events posted by "
                          "a child's callback", construct=f_peq.ident, text="callback loop")
        # the outer loop continues while either queue is non-empty
        t = src(w.test)
        chk.ob("DOM-3", "drain loop runs while events or callbacks are pending",
               "self.event_queue" in t and "self.callback_queue" in t and " or " in t, f_peq.where(w),
               detail="test: " + t, construct=f_peq.ident, text="outer loop test " + t)
    chk.floor("DOM-3", 8)


def _in_body(compound, node):
    for st in getattr(compound, "body", []):
        for x in ast.walk(st):
            if x is node:
                return True
    return False


# ------------------------------------------------------------------ battery
def battery():
    from sa.battery import M
    E = EV
    return [
        M("breadth-first: appendleft->append", E, "inner_queue.appendleft(next_queue)", "inner_queue.append(next_queue)", "QDISC-1"),
        M("callbacks FIFO", E, "callback, kwargs = self.callback_queue.pop()", "callback, kwargs = self.callback_queue.popleft()", "QDISC-1"),
        M("event queue LIFO", E, "event = next_queue.popleft()", "event = next_queue.pop()", "QDISC-1"),
        M("post at the front", E, "self.event_queue.append(posted_event)", "self.event_queue.appendleft(posted_event)", "QDISC-1"),
        M("no snapshot in _run_handlers", E, "for handler in self.registered_handlers[event][:]:", "for handler in self.registered_handlers[event]:", "SNAP-1", nth=1),
        M("no snapshot in sequential", E, "for handler in self.registered_handlers[event][:]:", "for handler in self.registered_handlers[event]:", "SNAP-1", nth=0),
        M("no snapshot in remove_handler_by_key", E, "for handler_tup in self.registered_handlers[key.event][:]:", "for handler_tup in self.registered_handlers[key.event]:", "SNAP-1"),
        M("sort ascending", E, "sort(key=lambda x: x.priority, reverse=True)", "sort(key=lambda x: x.priority)", "SORT-1"),
        M("sort by key uuid", E, "sort(key=lambda x: x.priority, reverse=True)", "sort(key=lambda x: x.key, reverse=True)", "SORT-1"),
        M("sort removed", E, "            self.registered_handlers[event].sort(key=lambda x: x.priority, reverse=True)", "            pass", "SORT-1"),
        M("posted kwargs override (dispatch)", E, "merged_kwargs = dict(list(kwargs.items()) + list(handler.kwargs.items()))", "merged_kwargs = dict(list(handler.kwargs.items()) + list(kwargs.items()))", "FLOW-1", nth=1),
        M("posted kwargs override (sequential)", E, "merged_kwargs = dict(list(kwargs.items()) + list(handler.kwargs.items()))", "merged_kwargs = {**handler.kwargs, **kwargs}", "FLOW-1", nth=0),
        M("fast path drops posted kwargs", E, "            if handler.kwargs and kwargs:\n", "            if handler.kwargs and kwargs and len(kwargs) > 1:\n", "FLOW-1"),
        M("condition on posted kwargs only", E, "not handler.condition.evaluate(merged_kwargs)", "not handler.condition.evaluate(kwargs)", "DOM-2", nth=1),
        M("condition inverted", E, "if handler.condition is not None and not handler.condition.evaluate(merged_kwargs):", "if handler.condition is not None and handler.condition.evaluate(merged_kwargs):", "DOM-2", nth=0),
        M("condition dropped in sequential", E, "            if handler.condition is not None and not handler.condition.evaluate(merged_kwargs):\n                continue\n\n            # log if debug is enabled and this event is not the timer tick", "            # log if debug is enabled and this event is not the timer tick", "DOM-2"),
        M("cancelled coroutine handler keeps its hold on the queue event", E, "        except asyncio.CancelledError:\n            pass\n        queue.clear()", "        except asyncio.CancelledError:\n            return\n        queue.clear()", "DOM-3"),
        M("resume only when nothing was posted", E, "                    if not next_queue and inner_queue:\n                        next_queue = inner_queue.popleft()\n\n                    if event.type", "                    if event.type", "RESUME-1",
          also=[(E, "                        self.event_queue = deque()\n\n            # when all", "                        self.event_queue = deque()\n                    elif not next_queue and inner_queue:\n                        next_queue = inner_queue.popleft()\n\n            # when all")]),
        M("twin: stack only a non-empty batch, resume afterwards", E, "                    if not next_queue and inner_queue:\n                        next_queue = inner_queue.popleft()\n\n                    if event.type", "                    if event.type", None,
          also=[(E, "                        inner_queue.appendleft(next_queue)\n                        next_queue = self.event_queue\n                        self.event_queue = deque()\n\n            # when all", "                        if next_queue:\n                            inner_queue.appendleft(next_queue)\n                        next_queue = self.event_queue\n                        self.event_queue = deque()\n                    elif not next_queue and inner_queue:\n                        next_queue = inner_queue.popleft()\n\n            # when all")]),
        M("synchronous dispatch when idle", E, "            self.machine.clock.loop.call_soon(self.process_event_queue)", "            self.process_event_queue()", ("OWN-2", "DOM-1")),
        M("handler drains the queue", "mpf/core/mode.py", "        self._setup_device_control_events()\n", "        self._setup_device_control_events()\n        self.machine.events.process_event_queue()\n", "OWN-2"),
        M("callback called directly", E, "            self.callback_queue.append((callback, kwargs))\n\n    def process_event_queue", "            callback(**kwargs)\n\n    def process_event_queue", "DOM-3"),
        M("callback popped in inner loop", E, "                    # make sure the handler created during this handler are called first\n", "                    if self.callback_queue:\n                        cb, kw = self.callback_queue.pop()\n                        cb(**kw)\n", "DOM-3"),
        M("all callbacks in a row", E, "            if self.callback_queue:\n                callback, kwargs = self.callback_queue.pop()\n                callback(**kwargs)", "            while self.callback_queue:\n                callback, kwargs = self.callback_queue.pop()\n                callback(**kwargs)", "DOM-3"),
        M("callback inside handler loop", E, "            if queue.waiter:\n                queue.event = asyncio.Event()\n                await queue.event.wait()\n", "            if queue.waiter:\n                queue.event = asyncio.Event()\n                await queue.event.wait()\n            if callback:\n                callback(**kwargs)\n", "DOM-3"),
        M("fast path ignores callback", E, "if not callback and not self.monitor_events and event not in self.registered_handlers:", "if not self.monitor_events and event not in self.registered_handlers:", "DOM-1"),
        M("foreign module mutates registry", "mpf/core/bcp/bcp_interface.py", "self.machine.events.registered_handlers.get(", "self.machine.events.registered_handlers.pop(", "OWN-3"),
        M("draining callable stored in the delay record", "mpf/core/delays.py", "        self.delays[name] = (self.machine.clock.schedule_once(\n            partial(self._process_delay_callback, name, callback, **kwargs),\n            ms / 1000.0), partial(callback, **kwargs))", "        delay_callback = partial(self._process_delay_callback, name, callback, **kwargs)\n        self.delays[name] = (self.machine.clock.schedule_once(delay_callback, ms / 1000.0), delay_callback)", "OWN-2"),
        M("twin: draining callable via local", "mpf/core/delays.py", "        self.delays[name] = (self.machine.clock.schedule_once(\n            partial(self._process_delay_callback, name, callback, **kwargs),\n            ms / 1000.0), partial(callback, **kwargs))", "        delay_callback = partial(self._process_delay_callback, name, callback, **kwargs)\n        self.delays[name] = (self.machine.clock.schedule_once(delay_callback, ms / 1000.0), partial(callback, **kwargs))", None),
        M("foreign module dispatches", "mpf/core/delays.py", "        self.machine.events.process_event_queue()", "        self.machine.events._process_event('x', None)\n        self.machine.events.process_event_queue()", "OWN-1"),
        M("drain scheduled after append", E, "        if not self.event_queue and hasattr(self.machine.clock, \"loop\"):\n            self.machine.clock.loop.call_soon(self.process_event_queue)\n\n        posted_event = PostedEvent(event, ev_type, callback, kwargs)", "        posted_event = PostedEvent(event, ev_type, callback, kwargs)\n        self.event_queue.append(posted_event)\n        if not self.event_queue and hasattr(self.machine.clock, \"loop\"):\n            self.machine.clock.loop.call_soon(self.process_event_queue)\n", "DOM-1"),
        M("drained deque stays the posting deque (outer)", E, "                next_queue = self.event_queue\n                self.event_queue = deque()\n                while next_queue:", "                next_queue = self.event_queue\n                while next_queue:", "FRESH-0"),
        M("drained deque stays the posting deque (nested)", E, "                        next_queue = self.event_queue\n                        self.event_queue = deque()\n", "                        next_queue = self.event_queue\n", "FRESH-0"),
        M("post_boolean drops posted kwargs", E, "self._post(event, 'boolean', callback, **kwargs)", "self._post(event, 'boolean', callback)", "FWD-1"),
        M("post_relay drops the callback", E, "self._post(event, 'relay', callback, **kwargs)", "self._post(event, 'relay', None, **kwargs)", "FWD-1"),
        M("async handler loses registration kwargs", E, "return self.add_handler(event, partial(self._async_handler_coroutine, handler), priority, blocking_facility,\n                                **kwargs)", "return self.add_handler(event, partial(self._async_handler_coroutine, handler), priority, blocking_facility)", "FWD-1"),
        M("async handler loses priority", E, "partial(self._async_handler_coroutine, handler), priority, blocking_facility,", "partial(self._async_handler_coroutine, handler), 1, blocking_facility,", "FWD-1"),
        M("async coroutine called without kwargs", E, "asyncio.create_task(_coroutine(**kwargs))", "asyncio.create_task(_coroutine())", "FWD-1"),
        M("queue callback without kwargs", E, "        if callback:\n            callback(**kwargs)", "        if callback:\n            callback()", "FWD-1"),
        M("priority suffix read as one digit", E, "                additional_priority = int(event_string[priority_start + 1:])", "                additional_priority = int(event_string[priority_start + 1])", "PRIO-1"),
        M("event-string priority suffix ignored", E, "        priority += additional_priority\n", "", "PRIO-1"),
        M("relative priority subtracted", E, "priority += handler.relative_priority", "priority -= handler.relative_priority", "PRIO-1"),
        M("relative priority not applied", E, "            priority += handler.relative_priority\n", "            pass\n", "PRIO-1"),
        M("blocking compares >=", E, "kwargs['_min_priority']['all'] > handler.priority", "kwargs['_min_priority']['all'] >= handler.priority", "DOM-2"),
        M("blocking applies to handlers outside any facility", E, "if '_min_priority' in kwargs and handler.blocking_facility and \\\n", "if '_min_priority' in kwargs and \\\n", "DOM-2"),
        M("handler call deleted", E, "                result = handler.callback(**merged_kwargs)", "                result = None", ("OWN-1", "DOM-2")),
        M("callbacks never run", E, "            if self.callback_queue:\n                callback, kwargs = self.callback_queue.pop()\n                callback(**kwargs)", "            self.callback_queue.clear()", ("DOM-3", "QDISC-1")),
        # twins: behaviour-preserving rewrites must stay silent
        M("twin: swap deques in one statement", E, "                next_queue = self.event_queue\n                self.event_queue = deque()\n                while next_queue:", "                next_queue, self.event_queue = self.event_queue, deque()\n                while next_queue:", None),
        M("twin: additive priority spelled out", E, "        priority += additional_priority\n", "        priority = priority + additional_priority\n", None),
        M("twin: list() snapshot", E, "for handler in self.registered_handlers[event][:]:", "for handler in list(self.registered_handlers[event]):", None, nth=-1),
        M("twin: {**a, **b} merge", E, "merged_kwargs = dict(list(kwargs.items()) + list(handler.kwargs.items()))", "merged_kwargs = {**kwargs, **handler.kwargs}", None, nth=-1),
        M("twin: dict(a, **b) merge", E, "merged_kwargs = dict(list(kwargs.items()) + list(handler.kwargs.items()))", "merged_kwargs = dict(kwargs, **handler.kwargs)", None, nth=-1),
        M("twin: unconditional sort", E, "        if len(self.registered_handlers[event]) > 1:\n            self.registered_handlers[event].sort(key=lambda x: x.priority, reverse=True)", "        self.registered_handlers[event].sort(key=lambda x: x.priority, reverse=True)", None),
        M("twin: early-continue condition", E, "            if handler.condition is not None and not handler.condition.evaluate(merged_kwargs):\n                continue\n\n            if self._debug:", "            if handler.condition is not None:\n                if not handler.condition.evaluate(merged_kwargs):\n                    continue\n\n            if self._debug:", None),
        M("twin: renamed local", E, "posted_event", "pe", None, nth=-1),
        M("conditions of a queue event evaluated once before the dispatch loop", EV, "        for handler in self.registered_handlers[event][:]:", "        for handler in [h for h in self.registered_handlers[event] if h.condition is None or h.condition.evaluate(dict(list(kwargs.items()) + list(h.kwargs.items())))]:", "DOM-2", nth=0),
        M("twin: dispatch loop over a tuple-unpacked snapshot", EV, "        for handler in self.registered_handlers[event][:]:", "        for handler, _prio in [(h, h.priority) for h in self.registered_handlers[event]]:", None, nth=0),
        M("sort skipped when the new handler does not outrank the last one (decided before the relative priority is added)", EV, "        if len(self.registered_handlers[event]) > 1:\n            self.registered_handlers[event].sort(key=lambda x: x.priority, reverse=True)", "        if self.registered_handlers[event][-2:-1] and self.registered_handlers[event][-2].priority < priority:\n            self.registered_handlers[event].sort(key=lambda x: x.priority, reverse=True)", "SORT-1"),
        M("twin: handler list aliased in add_handler", EV, "        self.registered_handlers[event].append(RegisteredHandler(handler, priority, kwargs, key, condition,\n                                                                 blocking_facility))", "        handlers = self.registered_handlers[event]\n        handlers.append(RegisteredHandler(handler, priority, kwargs, key, condition,\n                                                                 blocking_facility))", None),
        M("remove_handler_by_event removes only the first registration", EV, "                    events_to_delete_if_empty.append(event)\n\n        for this_event in events_to_delete_if_empty:", "                    events_to_delete_if_empty.append(event)\n                    break\n\n        for this_event in events_to_delete_if_empty:", "REMOVE-1"),
        M("removal by key also needs the same priority", EV, "            if handler_tup.key == key.key:", "            if handler_tup.key == key.key and handler_tup.priority >= 0:", "REMOVE-1"),
        M("replace_handler with kwargs removes every registration of the handler", EV, "                    if rh[0] == handler and rh[2] == kwargs:", "                    if rh[0] == handler:", "REMOVE-1"),
        M("replace_handler stops at the first old registration", EV, "                    if rh[0] == handler:\n                        self.registered_handlers[event].remove(rh)\n\n", "                    if rh[0] == handler:\n                        self.registered_handlers[event].remove(rh)\n                        break\n\n", "REMOVE-1"),
        M("event entry dropped while handlers remain", EV, "        if not self.registered_handlers[event]:  # if value is empty list", "        if self.registered_handlers[event]:  # if value is empty list", "REMOVE-1"),
        M("waiter group: only the fired waiter is removed", EV, "        for key in _keys:\n            self.remove_handler_by_key(key)\n", "        for key in _keys[:1]:\n            self.remove_handler_by_key(key)\n", ["REMOVE-1", "RANGE-0"]),
        M("waiting future resolved without the event's kwargs", EV, "        _future.set_result(kwargs)", "        _future.set_result(True)", "REMOVE-1"),
        M("replace_handler without kwargs keeps registrations that carry kwargs", EV, "            if kwargs:\n                # slice the full list [:] to make a copy so we can delete from the\n                # original while iterating\n                for rh in self.registered_handlers[event][:]:\n                    if rh[0] == handler and rh[2] == kwargs:\n                        self.registered_handlers[event].remove(rh)\n            else:\n                for rh in self.registered_handlers[event][:]:\n                    if rh[0] == handler:\n                        self.registered_handlers[event].remove(rh)\n", "            for rh in self.registered_handlers[event][:]:\n                if rh[0] == handler and rh[2] == kwargs:\n                    self.registered_handlers[event].remove(rh)\n", "REMOVE-1"),
        M("twin: replace_handler scans merged correctly", EV, "            if kwargs:\n                # slice the full list [:] to make a copy so we can delete from the\n                # original while iterating\n                for rh in self.registered_handlers[event][:]:\n                    if rh[0] == handler and rh[2] == kwargs:\n                        self.registered_handlers[event].remove(rh)\n            else:\n                for rh in self.registered_handlers[event][:]:\n                    if rh[0] == handler:\n                        self.registered_handlers[event].remove(rh)\n", "            for rh in self.registered_handlers[event][:]:\n                if rh[0] == handler and (not kwargs or rh[2] == kwargs):\n                    self.registered_handlers[event].remove(rh)\n", None),
        M("returned handler key is a fresh uuid", EV, "        return EventHandlerKey(key, event)", "        return EventHandlerKey(uuid.uuid4(), event)", "KEY-7"),
        M("relay events abort on False like boolean ones", EV, "            if ev_type == 'boolean' and result is False:", "            if ev_type and result is False:", "DOM-2"),
    ]


def thorough(chk):
    from sa.battery import run_battery
    run_battery(chk, battery())
