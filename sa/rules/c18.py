"""C18 — logic blocks count, accrue and sequence as specified (structural clauses).

DOM-33  nothing counts while the block is disabled
DOM-34  completion happens once, cancels the block's timeout, posts the completion events, then resets / disables as configured
PAIR-21 the multiple-hit window: entering it arms exactly the delay that leaves it; nothing else cancels that delay
DOM-35  counting direction                DOM-36  accrual / sequence step discipline
TIMER-1 the block timeout is armed on enable/reset, cancelled on disable/complete, and resets the block
"""
import ast

from sa.model import src, short, dotted, call_attr, kwarg, walk_local, AnalysisError, const_value
from sa.units import Units, load_spec, MS

LB = "mpf/devices/logic_blocks.py"


def check(chk):
    repo = chk.repo
    units = Units(repo, load_spec(repo))
    chk.explanation = ("C18: enabled-guards dominate every state change and hit event; completion guard, order and timeout "
                       "cancellation; hit-window pairing and ownership of its delay; direction normalisation and comparison; "
                       "step discipline of accruals and sequences; timeout life cycle. The counting equation over histories "
                       "and timeout races are not decided.")
    base = repo.cls(LB, "LogicBlock")
    counter = repo.cls(LB, "Counter")
    accrual = repo.cls(LB, "Accrual")
    seq = repo.cls(LB, "Sequence")

    # ------------------------------------------------------------ DOM-33
    for cls, meths in ((counter, ["count"]), (accrual, ["hit", "event_advance_random"]), (seq, ["hit"])):
        for mn in meths:
            f = cls.methods[mn]
            chk.analysed(f)
            cfg = f.cfg()
            eff = []
            for n in cfg.nodes_where(lambda n: n.kind == "stmt"):
                if isinstance(n.ast, (ast.AugAssign, ast.Assign)):
                    t = src(n.ast.target if isinstance(n.ast, ast.AugAssign) else n.ast.targets[0])
                    if t.startswith("self.value") or t == "self.ignore_hits":
                        eff.append((n, "store " + t))
            for n, c in cfg.calls_named("_post_hit_events", "complete", "hit"):
                if dotted(c.func.value) == "self":
                    eff.append((n, "call " + call_attr(c)))
            chk.ob("DOM-33", "%s.%s has effects" % (cls.name, mn), bool(eff), f.where(), construct=f.ident, text="effects in " + mn)
            for n, what in eff:
                g = cfg.guards_at(n.id)
                ok = g.get("self.enabled") is True or g.get("not self.enabled") is False
                chk.ob("DOM-33", "%s.%s: `%s` happens only while the block is enabled" % (cls.name, mn, what), ok, f.where(n.ast),
                       detail="guards %s" % sorted(g.items()), construct=f.ident, text="%s while disabled in %s.%s" % (what, cls.name, mn))
    # ... and *every* hit on an enabled counter is counted: nothing but `enabled` and the multiple-hit window decides whether the value moves
    # (a completed counter that stays enabled keeps counting; completion is announced once by complete())
    from sa.cfg import canon_set, canon_fact
    from sa.helpers import positive
    cf = counter.methods["count"]
    ccfg = cf.cfg()
    upd = [n for n in ccfg.nodes if n.kind == "stmt" and isinstance(n.ast, ast.AugAssign) and src(n.ast.target) == "self.value"]
    ok = len(upd) == 1 and positive(set(canon_set(ccfg.guards_at(upd[0].id)))) == positive({canon_fact("self.enabled", True), canon_fact("self.ignore_hits", False)})
    chk.ob("DOM-33", "Counter.count moves the value for every hit on an enabled counter outside the multiple-hit window (no further condition)", ok,
           cf.where(upd[0].ast) if upd else cf.where(), detail="guards %s" % sorted(ccfg.guards_at(upd[0].id).items()) if upd else "", construct=cf.ident,
           text="count selection")
    # every control event reaches the block: a control event with a delay is scheduled as a delay of its own (no name): under a shared name a
    # second count / reset arriving while the first is still waiting would replace it, and N hits inside the delay become one
    n_ce = 0
    for rel_, qn_ in (("mpf/core/device_manager.py", "DeviceManager._control_event_handler"), ("mpf/core/mode.py", "Mode._control_event_handler")):
        h_ = chk.repo.func(rel_, qn_)
        chk.analysed(h_)
        adds_ = [c for c in h_.calls() if call_attr(c) == "add" and "delay" in src(c.func.value).lower()]
        for c in adds_:
            n_ce += 1
            named = kwarg(c, "name") is not None or len(c.args) >= 3
            cb = kwarg(c, "callback") if kwarg(c, "callback") is not None else (c.args[1] if len(c.args) > 1 else None)
            ms_ = kwarg(c, "ms") if kwarg(c, "ms") is not None else (c.args[0] if c.args else None)
            ok = not named and cb is not None and src(cb) == "callback" and ms_ is not None and src(ms_) == "ms_delay"
            chk.ob("DOM-33", "%s schedules each delayed control event as a delay of its own (anonymous), for the configured delay and callback" % qn_, ok, h_.where(c),
                   detail=src(c), construct=h_.ident, text="delayed control event named / altered in " + qn_)
    chk.ob("DOM-33", "delayed control event sites examined", n_ce >= 2, "mpf/core/device_manager.py:1", nontrivial=False)
    chk.floor("DOM-33", 10)
    # a logic block that is unloaded forgets its state object on every path (also a persisted one: its step handlers stay registered with the
    # event manager and are held off only by `enabled` being false without a state; shared with C07 / C11)
    from sa.helpers import unload_cleanup_unconditional
    unload_cleanup_unconditional(chk, "DOM-33")

    # ------------------------------------------------------------ DOM-34
    f = base.methods["complete"]
    chk.analysed(f)
    cfg = f.cfg()
    mark = [n for n in cfg.nodes_where(lambda n: n.kind == "stmt" and isinstance(n.ast, ast.Assign) and src(n.ast.targets[0]) == "self.completed"
                                       and src(n.ast.value) == "True")]
    chk.need(mark, "DOM-34", "complete() marks the block completed", f)
    ok = cfg.guards_at(mark[0].id).get("self.completed") is False
    chk.ob("DOM-34", "a block completes only when it is not completed yet", ok, f.where(mark[0].ast), construct=f.ident, text="complete guard")
    posts = [n for n, c in cfg.calls_named("post")]
    ok = bool(posts) and all(cfg.dominates(mark[0].id, p.id) for p in posts) and any(
        isinstance(x, ast.For) and src(x.iter) == "self.config['events_when_complete']" for x in walk_local(f.node))
    chk.ob("DOM-34", "the completion events are posted once, after the block was marked completed", ok, f.where(), construct=f.ident, text="completion events")
    rm = [n.id for n, c in cfg.calls_named("remove") if "delay" in src(c.func.value) and "'timeout'" in src(c).replace('"', "'")]
    w = cfg.must_pass(mark[0].id, rm)
    chk.ob("DOM-34", "completion cancels the block's timeout on every path", bool(rm) and w is None, f.where(),
           path=cfg.fmt_path(w, LB) if w else None,
           detail="with reset_on_complete and disable_on_complete off the timeout keeps running, later resets the completed block and it completes a second time",
           construct=f.ident, text="timeout survives completion")
    rs = [(n, c) for n, c in cfg.calls_named("reset") if dotted(c.func.value) == "self"]
    ds = [(n, c) for n, c in cfg.calls_named("disable") if dotted(c.func.value) == "self"]
    ok = bool(rs) and bool(ds) and cfg.guards_at(rs[0][0].id).get("self.config['reset_on_complete']") is True and \
        cfg.guards_at(ds[0][0].id).get("self.config['disable_on_complete']") is True
    chk.ob("DOM-34", "reset / disable after completion follow their config flags", ok, f.where(), construct=f.ident, text="post-completion flags")
    # ... each its own flag and nothing else: with both set (the default) the block is reset *and* disabled
    from sa.cfg import canon_set as _cs4, canon_fact as _cf4
    from sa.helpers import positive as _pos4
    base_g = _pos4(set(_cs4(cfg.guards_at(mark[0].id))))
    for nodes_, flag in ((rs, "self.config['reset_on_complete']"), (ds, "self.config['disable_on_complete']")):
        for n, c in nodes_:
            got = _pos4(set(_cs4(cfg.guards_at(n.id)))) - base_g
            chk.ob("DOM-34", "after completion `%s` runs exactly when %s is set (independent of the other flag)" % (src(c), flag), got == _pos4({_cf4(flag, True)}),
                   f.where(c), detail="runs under %s" % sorted(got), construct=f.ident, text="post-completion selection of " + src(c))
    ok = ok and not any(cfg.path_avoiding(x.id, [p.id], []) for p in posts for x in (rs[0][0], ds[0][0])) and \
        not cfg.path_avoiding(ds[0][0].id, [rs[0][0].id], [])
    chk.ob("DOM-34", "order: events, then reset, then disable (a disabled block keeps no running timeout)", ok, f.where(), construct=f.ident,
           text="post-completion order")
    # who calls complete(): only when the goal is reached
    for cls, mn, cond in ((counter, "count", "self.check_complete(count_complete_value)"), (accrual, "hit", "self.value.count(True) == len(self.value)"),
                          (seq, "hit", "self.value >= len(self.config['events'])")):
        g = cls.methods[mn]
        gcfg = g.cfg()
        cs = [(n, c) for n, c in gcfg.calls_named("complete") if dotted(c.func.value) == "self"]
        ok = bool(cs) and all(gcfg.guards_at(n.id).get(cond) is True for n, c in cs)
        chk.ob("DOM-34", "%s.%s completes exactly when the goal is reached (`%s`)" % (cls.name, mn, cond), ok, g.where(),
               detail="guards %s" % [sorted(gcfg.guards_at(n.id).items()) for n, c in cs], construct=g.ident, text="goal test in %s.%s" % (cls.name, mn))
    chk.floor("DOM-34", 6)

    # ------------------------------------------------------------ START-18
    # whether a block starts enabled: an explicit start_enabled (yes *or no*) decides; only a missing one falls back to "enabled unless
    # there are enable_events".  A truthiness test of the setting treats an explicit `no` like a missing one: a block that is armed by
    # restart_events only starts enabled and counts although it was configured off.
    fi = base.methods["_initialize"]
    chk.analysed(fi)
    icfg = fi.cfg()
    st_ = [n for n in icfg.nodes if n.kind == "stmt" and isinstance(n.ast, ast.Assign) and src(n.ast.targets[0]) == "self._start_enabled"]
    chk.need(st_, "START-18", "LogicBlock._initialize decides whether the block starts enabled", fi)
    from sa.cfg import canon_set as _cs0, canon_fact as _cf0
    from sa.helpers import positive as _pos0
    SE = "self.config['start_enabled']"
    cases = []
    for n in st_:
        g0 = dict(icfg.guards_at(n.id))
        if isinstance(n.ast.value, ast.IfExp):      # one conditional expression instead of if/else: the same two cases
            t_ = n.ast.value.test
            neg = isinstance(t_, ast.UnaryOp) and isinstance(t_.op, ast.Not)
            tt = src(t_.operand if neg else t_)
            cases.append((n, n.ast.value.body, dict(g0, **{tt: not neg})))
            cases.append((n, n.ast.value.orelse, dict(g0, **{tt: neg})))
        else:
            cases.append((n, n.ast.value, g0))
    for n, val, g0 in cases:
        g = _pos0(set(_cs0(g0)))
        v = src(val).replace('"', "'")
        if v == SE:
            ok = g == _pos0({_cf0(SE + " is not None", True)}) or g == _pos0({_cf0(SE + " is None", False)})
            what = "the explicit setting is taken exactly when there is one (is not None)"
        elif v == "not self.config['enable_events']":
            ok = g == _pos0({_cf0(SE + " is not None", False)}) or g == _pos0({_cf0(SE + " is None", True)})
            what = "the fallback (no enable_events) applies exactly when start_enabled is missing (is None)"
        else:
            ok, what = False, "start-enabled is either the explicit setting or the enable_events fallback"
        chk.ob("START-18", what, ok, fi.where(n.ast), detail="`%s` under %s" % (v, sorted(g)), construct=fi.ident, text="start enabled source " + v[:40])
    chk.ob("START-18", "both sources of start-enabled present", len(cases) == 2, fi.where(), detail="%d" % len(cases), construct=fi.ident, text="start enabled sources")

    # ------------------------------------------------------------ PAIR-21
    f = counter.methods["count"]
    cfg = f.cfg()
    ent = [n for n in cfg.nodes_where(lambda n: n.kind == "stmt" and isinstance(n.ast, ast.Assign) and src(n.ast.targets[0]) == "self.ignore_hits"
                                      and src(n.ast.value) == "True")]
    arm = [(n, c) for n, c in cfg.calls_named("add", "reset") if "delay" in src(c.func.value) and "stop_ignoring_hits" in src(c)]
    chk.ob("PAIR-21", "the counter has a multiple-hit window", bool(ent) and bool(arm), f.where(), construct=f.ident, text="window present")
    for n in ent:
        w = cfg.must_pass(n.id, [a.id for a, _ in arm])
        chk.ob("PAIR-21", "entering the hit window always arms the delay that leaves it", w is None, f.where(n.ast), path=cfg.fmt_path(w, LB) if w else None,
               construct=f.ident, text="window without exit delay")
        chk.ob("PAIR-21", "the window is entered only when one is configured", cfg.guards_at(n.id).get("self.config['multiple_hit_window']") is True,
               f.where(n.ast), construct=f.ident, text="window guard")
    for n in ent:
        from sa.cfg import canon_set as _cs, canon_fact as _cf
        from sa.helpers import positive as _pos
        got = _pos(set(_cs(cfg.guards_at(n.id))))
        want = _pos({_cf("self.enabled", True), _cf("self.ignore_hits", False), _cf("self.config['multiple_hit_window']", True)})
        chk.ob("PAIR-21", "every accepted hit opens the configured window - also the one that completes the counter (nothing else decides)", got == want,
               f.where(n.ast), detail="window opened under %s, expected exactly %s" % (sorted(got), sorted(want)), construct=f.ident,
               text="window opening condition")
    wname = None
    for n, c in arm + [(x, None) for x in ent]:
        # the window is opened by an *accepted* hit only: a hit that is ignored must not restart it (a steady stream of hits spaced
        # closer than the window would otherwise keep it closed for ever)
        g = cfg.guards_at(n.id)
        ok = g.get("self.ignore_hits") is False
        chk.ob("PAIR-21", "the hit window is (re)started only by an accepted hit, never by an ignored one", ok, f.where(n.ast), detail="guards %s" % sorted(g.items()),
               construct=f.ident, text="window restarted by ignored hits")
    for n, c in arm:
        ms = kwarg(c, "ms")
        d = units.dim(ms, f, units.env_for(f))
        chk.ob("PAIR-21", "the window lasts multiple_hit_window milliseconds", src(ms) == "self.config['multiple_hit_window']" and d == MS, f.where(c),
               detail="%s : %s" % (src(ms), d), construct=f.ident, text="window duration " + src(ms))
        cb = kwarg(c, "callback")
        chk.ob("PAIR-21", "the delay calls stop_ignoring_hits", cb is not None and src(cb) == "self.stop_ignoring_hits", f.where(c), construct=f.ident,
               text="window callback")
        nm = kwarg(c, "name")
        wname = nm.value if isinstance(nm, ast.Constant) else None
    s_ = counter.methods["stop_ignoring_hits"]
    ok = any(isinstance(x, ast.Assign) and src(x.targets[0]) == "self.ignore_hits" and src(x.value) == "False" for x in walk_local(s_.node))
    chk.ob("PAIR-21", "stop_ignoring_hits re-opens the counter", ok, s_.where(), construct=s_.ident, text="window exit")
    # hits inside the window neither change the value nor post
    for n in cfg.nodes_where(lambda n: n.kind == "stmt" and isinstance(n.ast, ast.AugAssign) and src(n.ast.target) == "self.value"):
        g = cfg.guards_at(n.id)
        ok = g.get("self.ignore_hits") is False or g.get("not self.ignore_hits") is True
        chk.ob("PAIR-21", "a hit inside the window is not counted", ok, f.where(n.ast), construct=f.ident, text="count inside window")
    for n, c in cfg.calls_named("_post_hit_events"):
        g = cfg.guards_at(n.id)
        ok = g.get("self.ignore_hits") is False or g.get("not self.ignore_hits") is True
        chk.ob("PAIR-21", "a hit inside the window posts no hit events", ok, f.where(c), construct=f.ident, text="events inside window")
    # nothing else cancels the window delay: delays of a logic block are removed by name, and only the timeout
    for cls in (base, counter, accrual, seq):
        for m in cls.methods.values():
            for c in m.calls():
                if isinstance(c.func, ast.Attribute) and "delay" in src(c.func.value):
                    nm = call_attr(c)
                    if nm == "clear":
                        chk.ob("PAIR-21", "%s.%s does not wipe all delays of the block (the hit window's exit would be lost)" % (cls.name, m.name), False,
                               m.where(c), detail="ignore_hits would stay set for ever: every later hit is dropped", construct=m.ident,
                               text="delay.clear() in %s.%s" % (cls.name, m.name))
                    elif nm == "remove":
                        a = c.args[0] if c.args else kwarg(c, "name")
                        ok = isinstance(a, ast.Constant) and a.value != wname
                        chk.ob("PAIR-21", "%s.%s removes a delay by name, and not the hit window's" % (cls.name, m.name), ok, m.where(c),
                               detail="removes %s" % src(a), construct=m.ident, text="delay.remove(%s) in %s.%s" % (src(a), cls.name, m.name))
    chk.floor("PAIR-21", 8)

    # ------------------------------------------------------------ DOM-35
    f = counter.methods["_initialize"]
    chk.analysed(f)
    cfg = f.cfg()
    flips = [n for n in cfg.nodes_where(lambda n: n.kind == "stmt" and isinstance(n.ast, ast.AugAssign) and src(n.ast.target) == "self.hit_value" and
                                        isinstance(n.ast.op, ast.Mult) and const_value(n.ast.value) == -1)]
    chk.ob("DOM-35", "the hit value's sign is normalised against the direction", len(flips) == 1, f.where(), construct=f.ident, text="sign flip present")
    if flips:
        from sa.helpers import feasible_paths
        paths = feasible_paths(cfg, cfg.entry.id, [flips[0].id])
        ok = bool(paths)
        for _p, fx in paths:
            down = fx.get("self.config['direction'] == 'down'") is True and fx.get("self.hit_value > 0") is True
            up = fx.get("self.config['direction'] == 'up'") is True and fx.get("self.hit_value < 0") is True
            ok = ok and (down or up)
        chk.ob("DOM-35", "the sign is flipped exactly for (down, positive) and (up, negative)", ok, f.where(flips[0].ast), construct=f.ident,
               text="sign flip condition")
    hv = [x for x in walk_local(f.node) if isinstance(x, ast.Assign) and src(x.targets[0]) == "self.hit_value"]
    ok = bool(hv) and src(hv[0].value) == "self.config['count_interval']"
    chk.ob("DOM-35", "one hit moves the counter by count_interval", ok, f.where(), construct=f.ident, text="hit value source")
    f = counter.methods["count"]
    cfg = f.cfg()
    incs = [n for n in cfg.nodes_where(lambda n: n.kind == "stmt" and isinstance(n.ast, ast.AugAssign) and src(n.ast.target) == "self.value")]
    ok = len(incs) == 1 and isinstance(incs[0].ast.op, ast.Add) and src(incs[0].ast.value) == "self.hit_value"
    chk.ob("DOM-35", "an accepted hit adds the (signed) hit value exactly once", ok, f.where(), construct=f.ident, text="count step")
    f = counter.methods["check_complete"]
    cfg = f.cfg()
    rets = {}
    for n in cfg.nodes_where(lambda n: n.kind == "stmt" and isinstance(n.ast, ast.Return) and isinstance(n.ast.value, ast.Compare)):
        g = cfg.guards_at(n.id)
        d = "up" if g.get("self.config['direction'] == 'up'") is True else ("down" if g.get("self.config['direction'] == 'down'") is True else "?")
        rets[d] = src(n.ast.value).replace(" ", "")
    ok = rets == {"up": "self.value>=count_complete_value", "down": "self.value<=count_complete_value"}
    chk.ob("DOM-35", "completion test: >= when counting up, <= when counting down", ok, f.where(), detail=str(rets), construct=f.ident,
           text="completion compare " + str(sorted(rets.items())))
    f = counter.methods["count"]
    args = {}
    cfg = f.cfg()
    for n in cfg.nodes_where(lambda n: n.kind == "stmt" and isinstance(n.ast, ast.Assign) and src(n.ast.targets[0]).startswith("args[")):
        g = cfg.guards_at(n.id)
        d = "down" if g.get("self.config['direction'] == 'down'") is True else "up"
        args[(d, src(n.ast.targets[0]))] = src(n.ast.value).replace(" ", "")
    want = {("down", "args['hits']"): "self.get_start_value()-self.value", ("down", "args['remaining']"): "self.value-count_complete_value",
            ("up", "args['hits']"): "self.value-self.get_start_value()", ("up", "args['remaining']"): "count_complete_value-self.value"}
    chk.ob("DOM-35", "hit events report hits and remaining in the counting direction", args == want, f.where(), detail=str(args), construct=f.ident,
           text="hit event args")

    # ------------------------------------------------------------ DOM-36
    f = seq.methods["hit"]
    cfg = f.cfg()
    incs = [n for n in cfg.nodes_where(lambda n: n.kind == "stmt" and isinstance(n.ast, ast.AugAssign) and src(n.ast.target) == "self.value")]
    ok = len(incs) == 1 and const_value(incs[0].ast.value) == 1 and isinstance(incs[0].ast.op, ast.Add)
    chk.ob("DOM-36", "a sequence advances by one step per accepted hit", ok, f.where(), construct=f.ident, text="sequence step")
    if incs:
        from sa.helpers import feasible_paths
        paths = feasible_paths(cfg, cfg.entry.id, [incs[0].id])
        ok = bool(paths) and all(fx.get("step != self.value") is False or fx.get("step is not None") is False for _p, fx in paths)
        chk.ob("DOM-36", "a sequence ignores the event of any step other than the current one", ok, f.where(incs[0].ast), construct=f.ident,
               text="sequence order")
    sh = seq.methods["setup_event_handlers"]
    ok = any(call_attr(c) == "add_handler" and src(kwarg(c, "step")) == "step" and src(kwarg(c, "priority")) == "step" for c in sh.calls())
    chk.ob("DOM-36", "sequence step handlers carry their step number (and run later steps first so one event advances one step)", ok, sh.where(),
           construct=sh.ident, text="sequence handlers")
    f = accrual.methods["hit"]
    cfg = f.cfg()
    st = [n for n in cfg.nodes_where(lambda n: n.kind == "stmt" and isinstance(n.ast, ast.Assign) and src(n.ast.targets[0]) == "self.value[step]")]
    ph = [(n, c) for n, c in cfg.calls_named("_post_hit_events")]
    ok = bool(st) and bool(ph) and all(cfg.guards_at(n.id).get("self.value[step]") is False or cfg.guards_at(n.id).get("not self.value[step]") is True
                                       for n in st + [p for p, _ in ph])
    chk.ob("DOM-36", "an accrual records and reports a step only the first time it is hit", ok, f.where(), construct=f.ident, text="accrual first hit")
    ah = accrual.methods["setup_event_handlers"]
    ok = any(call_attr(c) == "add_handler" and src(kwarg(c, "step")) == "step" for c in ah.calls())
    chk.ob("DOM-36", "accrual step handlers carry their step number", ok, ah.where(), construct=ah.ident, text="accrual handlers")
    gs = accrual.methods["get_start_value"]
    rets = [x for x in walk_local(gs.node) if isinstance(x, ast.Return)]
    ok = bool(rets) and src(rets[0].value).replace(" ", "") == "[False]*len(self.config['events'])"
    chk.ob("DOM-36", "an accrual starts with one open flag per configured step", ok, gs.where(), construct=gs.ident, text="accrual start value")

    # ------------------------------------------------------------ TIMER-1
    ts = base.methods["_logic_block_timer_start"]
    c = [x for x in ts.calls() if call_attr(x) in ("reset", "add") and "delay" in src(x.func.value)]
    ok = bool(c) and src(kwarg(c[0], "ms")) == "self.config['logic_block_timeout']" and src(kwarg(c[0], "callback")) == "self._logic_block_timeout" and \
        isinstance(kwarg(c[0], "name"), ast.Constant) and kwarg(c[0], "name").value == "timeout" and call_attr(c[0]) == "reset"
    chk.ob("TIMER-1", "the block timeout is (re)armed under the name 'timeout' for logic_block_timeout ms", ok, ts.where(), construct=ts.ident, text="timeout arm")
    for mn in ("enable", "reset"):
        m = base.methods[mn]
        mc = m.cfg()
        nodes = [n.id for n, cc in mc.calls_named("_logic_block_timer_start")]
        ok = bool(nodes) and mc.must_pass(mc.entry.id, nodes) is None
        chk.ob("TIMER-1", "%s() (re)starts the block timeout" % mn, ok, m.where(), construct=m.ident, text="timeout on " + mn)
    m = base.methods["disable"]
    mc = m.cfg()
    nodes = [n.id for n, cc in mc.calls_named("remove") if "delay" in src(cc.func.value) and "timeout" in src(cc)] + \
            [n.id for n, cc in mc.calls_named("clear") if "delay" in src(cc.func.value)]
    ok = bool(nodes) and mc.must_pass(mc.entry.id, nodes) is None
    chk.ob("TIMER-1", "disable() cancels the block timeout", ok, m.where(), construct=m.ident, text="timeout off on disable")
    sets = [x for x in walk_local(m.node) if isinstance(x, ast.Assign) and src(x.targets[0]) == "self.enabled"]
    chk.ob("TIMER-1", "disable() clears the enabled flag", bool(sets) and src(sets[0].value) == "False", m.where(), construct=m.ident, text="disable flag")
    m = base.methods["_logic_block_timeout"]
    calls = [call_attr(x) for x in m.calls()]
    ok = "reset" in calls and any("_timeout" in src(x) for x in m.calls() if call_attr(x) == "post")
    chk.ob("TIMER-1", "an expired timeout posts <name>_timeout and resets the block", ok, m.where(), construct=m.ident, text="timeout action")
    m = base.methods["reset"]
    sets = {src(x.targets[0]): src(x.value) for x in walk_local(m.node) if isinstance(x, ast.Assign)}
    ok = sets.get("self.completed") == "False" and sets.get("self.value") == "self.get_start_value()"
    chk.ob("TIMER-1", "reset() re-opens the block at its start value", ok, m.where(), construct=m.ident, text="reset state")
    m = base.methods["restart"]
    mc = m.cfg()
    r_ = [n for n, cc in mc.calls_named("reset")]
    e_ = [n for n, cc in mc.calls_named("enable")]
    ok = bool(r_) and bool(e_) and mc.dominates(r_[0].id, e_[0].id)
    chk.ob("TIMER-1", "restart() = reset then enable", ok, m.where(), construct=m.ident, text="restart order")


def battery():
    from sa.battery import M
    return [
        M("enable override without a handler priority", LB, "    @event_handler(0)\n    def event_disable(self, **kwargs):", "    def event_enable(self, **kwargs):\n        \"\"\"Enable.\"\"\"\n        del kwargs\n        self.enable()\n\n    @event_handler(0)\n    def event_disable(self, **kwargs):", "EVPRIO-0"),
        M("counter counts while disabled", LB, "        if not self.enabled:\n            return\n\n        count_complete_value =", "        count_complete_value =", "DOM-33"),
        M("sequence advances while disabled", LB, "        del kwargs\n        if not self.enabled:\n            return\n\n        if step is not None and step != self.value:", "        del kwargs\n        if step is not None and step != self.value:", "DOM-33"),
        M("completes twice", LB, "        # if already completed do not complete again\n        if self.completed:\n            return\n", "", "DOM-34"),
        M("timeout survives completion", LB, "        self.completed = True\n        self.delay.remove(\"timeout\")", "        self.completed = True", "DOM-34"),
        M("reset after completion only when the block is not disabled", LB, "        # disable block\n        if self.config['disable_on_complete']:\n            self.disable()", "        # disable block\n        if self.config['disable_on_complete'] and not self.config['reset_on_complete']:\n            self.disable()", "DOM-34"),
        M("disable before reset", LB, "        # call reset to reset completion\n        if self.config['reset_on_complete']:\n            self.reset()\n\n        # disable block\n        if self.config['disable_on_complete']:\n            self.disable()", "        # disable block\n        if self.config['disable_on_complete']:\n            self.disable()\n\n        # call reset to reset completion\n        if self.config['reset_on_complete']:\n            self.reset()", "DOM-34"),
        M("accrual completes one early", LB, "        if self.value.count(True) == len(self.value):", "        if self.value.count(True) >= len(self.value) - 1:", "DOM-34"),
        M("explicit start_enabled: no treated like a missing one", LB, "        if self.config['start_enabled'] is not None:\n            self._start_enabled = self.config['start_enabled']\n        else:\n            self._start_enabled = not self.config['enable_events']", "        self._start_enabled = self.config['start_enabled'] or not self.config['enable_events']", "START-18"),
        M("explicit start_enabled tested for truth", LB, "        if self.config['start_enabled'] is not None:\n            self._start_enabled = self.config['start_enabled']", "        if self.config['start_enabled']:\n            self._start_enabled = self.config['start_enabled']", "START-18"),
        M("twin: start_enabled test inverted", LB, "        if self.config['start_enabled'] is not None:\n            self._start_enabled = self.config['start_enabled']\n        else:\n            self._start_enabled = not self.config['enable_events']", "        if self.config['start_enabled'] is None:\n            self._start_enabled = not self.config['enable_events']\n        else:\n            self._start_enabled = self.config['start_enabled']", None),
        M("twin: start_enabled as one conditional expression", LB, "        if self.config['start_enabled'] is not None:\n            self._start_enabled = self.config['start_enabled']\n        else:\n            self._start_enabled = not self.config['enable_events']", "        self._start_enabled = self.config['start_enabled'] if self.config['start_enabled'] is not None else not self.config['enable_events']", None),
        M("completing hit opens no window", LB, "                self.complete()\n\n            if self.config['multiple_hit_window']:", "                self.complete()\n            elif self.config['multiple_hit_window']:", "PAIR-21"),
        M("window entered without delay", LB, "                self.ignore_hits = True\n                self.delay.add(name='ignore_hits_within_window',\n                               ms=self.config['multiple_hit_window'],\n                               callback=self.stop_ignoring_hits)", "                self.ignore_hits = True", "PAIR-21"),
        M("disable wipes all delays", LB, "        self.post_update_event()\n        self.delay.remove(\"timeout\")\n\n    @event_handler(4)", "        self.post_update_event()\n        self.delay.clear()\n\n    @event_handler(4)", "PAIR-21"),
        M("hit inside window counted", LB, "        if not self.ignore_hits:\n            self.value += self.hit_value", "        if True:\n            self.value += self.hit_value", "PAIR-21"),
        M("window in seconds", LB, "                               ms=self.config['multiple_hit_window'],", "                               ms=self.config['multiple_hit_window'] / 1000,", "PAIR-21"),
        M("direction not normalised for up", LB, "                (self.config['direction'] == 'up' and self.hit_value < 0):", "                (self.config['direction'] == 'up' and self.hit_value > 0):", "DOM-35"),
        M("down completes with >=", LB, "            if self.config['direction'] == 'down':\n                return self.value <= count_complete_value", "            if self.config['direction'] == 'down':\n                return self.value >= count_complete_value", "DOM-35"),
        M("sequence accepts any step", LB, "        if step is not None and step != self.value:\n            # got this for another state\n            return\n", "", "DOM-36"),
        M("accrual reports repeated hits", LB, "        if not self.value[step]:\n            self.value[step] = True\n            self.debug_log(\"Status: %s\", self.value)\n            self._post_hit_events(step=step)", "        self.value[step] = True\n        self.debug_log(\"Status: %s\", self.value)\n        self._post_hit_events(step=step)", "DOM-36"),
        M("enable without timeout", LB, "        self.post_update_event()\n        self._logic_block_timer_start()\n\n    def _post_hit_events", "        self.post_update_event()\n\n    def _post_hit_events", "TIMER-1"),
        M("timeout does not reset", LB, "        self.reset()\n\n    @event_handler(5)", "        pass\n\n    @event_handler(5)", "TIMER-1"),
        # twins
        M("twin: early return inside window", LB, "        if not self.ignore_hits:\n            self.value += self.hit_value", "        if self.ignore_hits:\n            return\n        if not self.ignore_hits:\n            self.value += self.hit_value", None),
        M("twin: log text", LB, "        self.debug_log(\"Complete\")", "        self.debug_log(\"Completed\")", None),
        M("hit window restarted by ignored hits", LB, "            if self.config['multiple_hit_window']:\n                self.debug_log(\"Beginning Ignore Hits\")\n                self.ignore_hits = True\n                self.delay.add(name='ignore_hits_within_window',\n                               ms=self.config['multiple_hit_window'],\n                               callback=self.stop_ignoring_hits)", "        if self.config['multiple_hit_window']:\n            self.debug_log(\"Beginning Ignore Hits\")\n            self.ignore_hits = True\n            self.delay.add(name='ignore_hits_within_window',\n                           ms=self.config['multiple_hit_window'],\n                           callback=self.stop_ignoring_hits)", "PAIR-21"),
        M("completed counter drops hits", LB, "        if not self.enabled:\n            return\n\n        count_complete_value =", "        if not self.enabled or self.completed:\n            return\n\n        count_complete_value =", "DOM-33"),
        M("delayed control events share a name", "mpf/core/device_manager.py", "        delay_mgr.add(ms=ms_delay, callback=callback)", "        delay_mgr.add(ms=ms_delay, callback=callback, name=str(callback))", "DOM-33"),
        M("persisted logic block keeps its state when unloaded", LB, "        self._state = None\n", "        if not self.config['persist_state']:\n            self._state = None\n", "DOM-33", nth=-1),
    ]


def thorough(chk):
    from sa.battery import run_battery
    run_battery(chk, battery())
