"""C20 — credits: balance within bounds, a game costs exactly its price (structural clauses).

BOUND-2  every store to the credit_units machine variable is 0, the cap, a value that on that path is known not to
         exceed the cap (or the cap is unlimited), a clamped subtraction, or a re-store of the current value
TABLE-10 the start / add-player gates compare with the same price that a started player is charged; gate handlers are
         registered and removed as a set
DOM-38   coins are audited once with their value; credits that are not money never advance the pricing tiers
UNIT-7   expiration delays                 OWN-18  who writes the balance
"""
import ast

from sa.model import src, short, dotted, call_attr, kwarg, walk_local, AnalysisError, const_value
from sa.helpers import feasible_paths
from sa.index import get_index
from sa.units import Units, load_spec, MS

CR = "mpf/modes/credits/code/credits.py"
C = "Credits"


def _store_value(call):
    v = kwarg(call, "value")
    if v is None and len(call.args) > 1:
        v = call.args[1]
    return v


def _is_credit_store(call):
    if call_attr(call) != "set_machine_var":
        return False
    n = kwarg(call, "name") or (call.args[0] if call.args else None)
    return isinstance(n, ast.Constant) and n.value == "credit_units"


def _arg0(call, name):
    v = kwarg(call, name)
    if v is None and call.args:
        v = call.args[0]
    return src(v) if v is not None else "<missing>"


_FLIP = {"<": ">", ">": "<", "=": "="}
_OPS = {ast.Lt: {"<"}, ast.LtE: {"<", "="}, ast.Gt: {">"}, ast.GtE: {">", "="}, ast.Eq: {"="}, ast.NotEq: {"<", ">"}}


def _cmp(test):
    if isinstance(test, ast.Compare) and len(test.ops) == 1 and type(test.ops[0]) in _OPS:
        return src(test.left), set(_OPS[type(test.ops[0])]), src(test.comparators[0])
    return None


def _unit_bound(chk, f):
    """Ordering-only abstract walk of every path: `rel` = the orderings of (coin, price) still possible, `ub` = names the unit is known
    not to exceed.  At the division the unit must be bounded by both."""
    CU = "self.credit_unit"
    coin = [src(t) for st in ast.walk(f.node) if isinstance(st, ast.Assign) and "min(" in src(st.value) and "switches" in src(st.value) for t in st.targets]
    price = [src(st.targets[0]) for st in ast.walk(f.node) if isinstance(st, ast.Assign) and "['pricing_tiers'][0]['price']" in src(st.value)
             and src(st.targets[0]) not in coin]
    chk.need(bool(coin) and bool(price), "UNIT-8", "smallest coin value and game price are computed", f)
    m, p = coin[0], price[0]
    cfg = f.cfg()
    div = [n for n in cfg.nodes if n.kind == "stmt" and isinstance(n.ast, ast.Assign) and src(n.ast.targets[0]) == "self.credit_units_per_game"]
    chk.need(len(div) == 1, "UNIT-8", "units per game computed once", f)
    v = div[0].ast.value
    ok = isinstance(v, ast.Call) and src(v.func) == "int" and isinstance(v.args[0], ast.BinOp) and isinstance(v.args[0].op, ast.Div) and \
        src(v.args[0].left) == p and src(v.args[0].right) == CU
    chk.ob("UNIT-8", "units per game = game price / credit unit", ok, f.where(div[0].ast), detail=src(v), construct=f.ident, text="units per game formula")

    def bounds(e):
        if isinstance(e, ast.Name):
            return {e.id}
        if isinstance(e, ast.BinOp) and isinstance(e.op, ast.Sub) and isinstance(e.left, ast.Name):
            return {e.left.id}          # coin values and prices are positive
        if isinstance(e, ast.Call) and src(e.func) == "min":
            out = set()
            for a in e.args:
                out |= bounds(a)
            return out
        return set()

    n_paths, bad = 0, []
    for path in cfg.paths(ends=[div[0].id]):
        rel, ub, assigned, feasible = {"<", "=", ">"}, set(), False, True
        for nid in path:
            n = cfg.nodes[nid]
            if n.kind == "branch" and n.tag not in ("iter", "exhausted"):
                c = _cmp(n.ast)
                if not c:
                    continue
                l, ops, r = c
                if not n.value:
                    ops = {"<", "=", ">"} - ops
                if {l, r} == {m, p}:
                    if l == p:
                        ops = {_FLIP[o] for o in ops}
                    rel &= ops
                    if not rel:
                        feasible = False
                        break
                elif CU in (l, r) and (l if r == CU else r) in (m, p):
                    x = l if r == CU else r
                    if r == CU:
                        ops = {_FLIP[o] for o in ops}
                    if ops <= {"<", "="}:       # unit <= x
                        ub.add(x)
            elif n.kind == "stmt" and isinstance(n.ast, ast.Assign) and any(src(t) == CU for t in n.ast.targets):
                ub, assigned = bounds(n.ast.value), True
        if not feasible:
            continue
        n_paths += 1
        if m in ub and rel <= {"<", "="}:
            ub.add(p)
        if p in ub and rel <= {">", "="}:
            ub.add(m)
        if not assigned or not {m, p} <= ub:
            bad.append((sorted(rel), sorted(ub), assigned, path))
    chk.expect(n_paths >= 5, "C20: credit-unit paths lost (%d)" % n_paths)
    for rel, ub, assigned, path in bad[:3]:
        chk.ob("UNIT-8", "the credit unit never exceeds the smallest coin nor the game price", False, f.where(),
               detail="coin ? price in %s: unit %s; %s" % (rel, ("bounded only by %s" % ub) if assigned else "never computed",
                                                        " -> ".join(cfg.fmt_path(path)[-5:])),
               construct=f.ident, text="unit bound, ordering %s" % "".join(rel))
    if not bad:
        chk.ob("UNIT-8", "the credit unit never exceeds the smallest coin nor the game price (every ordering, %d paths)" % n_paths, True, f.where(),
               construct=f.ident, text="unit bound")


def check(chk):
    repo = chk.repo
    idx = get_index(repo)
    units = Units(repo, load_spec(repo))
    chk.explanation = ("C20: every store of the credit balance classified and path-checked against the cap and zero; price agreement "
                       "between the two gates and the charge; audit calls; tiering only for money; units of expiration delays; "
                       "who-may-write the balance. The pricing-table arithmetic as such is not decided.")
    cr = repo.cls(CR, C)
    # ------------------------------------------------------------ OWN-18
    n_w = 0
    for u in idx.uses("set_machine_var") + idx.uses("remove_machine_var") + idx.uses("configure_machine_var"):
        if u.call is None:
            continue
        n = kwarg(u.call, "name") or (u.call.args[0] if u.call.args else None)
        if isinstance(n, ast.Constant) and n.value == "credit_units":
            n_w += 1
            chk.ob("OWN-18", "the credit balance is written only by the credits mode (%s)" % u.scope, u.relpath == CR and u.cls == C, u.where(),
                   construct=u.ident, text="credit_units written in " + u.scope)
    chk.expect(n_w >= 6, "C20: balance writers lost (%d)" % n_w)

    # ------------------------------------------------------------ BOUND-2
    n_st = 0
    for f in cr.methods.values():
        stores = [c for c in f.calls() if _is_credit_store(c)]
        if not stores:
            continue
        chk.analysed(f)
        cfg = f.cfg()
        for c in stores:
            n_st += 1
            v = _store_value(c)
            vs = src(v)
            node = [n for n in cfg.nodes if n.kind != "branch" and any(x is c for x in n.calls())][0]
            where = f.where(c)
            if isinstance(v, ast.Constant) and v.value == 0:
                chk.ob("BOUND-2", "%s stores 0" % f.name, True, where, nontrivial=False)
                continue
            if vs == "max_credit_units":
                g = cfg.guards_at(node.id)
                ok = g.get("max_credit_units") is True
                chk.ob("BOUND-2", "%s stores the cap itself (only when a cap is configured)" % f.name, ok, where, detail="guards %s" % sorted(g.items()),
                       construct=f.ident, text="store cap")
                continue
            defs = [n for n in cfg.nodes_where(lambda n: n.kind == "stmt" and isinstance(n.ast, (ast.Assign, ast.AugAssign)) and
                                               src(n.ast.targets[0] if isinstance(n.ast, ast.Assign) else n.ast.target) == vs)]
            # re-store of the current balance
            if defs and all(isinstance(d.ast, ast.Assign) and src(d.ast.value) == "self._get_credit_units()" for d in defs):
                chk.ob("BOUND-2", "%s re-stores the current balance unchanged" % f.name, True, where, nontrivial=False)
                continue
            if f.name == "_add_credit_units":
                caps = [d.id for d in defs if isinstance(d.ast, ast.Assign) and src(d.ast.value) == "max_credit_units"]
                bad = None
                paths = feasible_paths(cfg, cfg.entry.id, [node.id], limit=6000)
                for pth, fx in paths:
                    unlimited = fx.get("max_credit_units") is False or fx.get("max_credit_units <= 0") is True
                    within = fx.get("%s > max_credit_units" % vs) is False
                    # capped on this path: the last store to the value before the site is the cap
                    last = None
                    for nid in pth:
                        if nid in [d.id for d in defs]:
                            last = nid
                    capped = last in caps
                    if not (within or capped or (unlimited and fx.get("max_credit_units") is False)):
                        if unlimited and fx.get("max_credit_units") is not False and not within and not capped:
                            # `max <= 0` true while `max` truthy means a negative cap: treated as unlimited by the code
                            pass
                        bad = bad or pth
                chk.ob("BOUND-2", "adding credits never stores more than the configured maximum", bool(paths) and bad is None, where,
                       path=cfg.fmt_path(bad, CR) if bad else None,
                       detail="on this path the total exceeds max_credits and is stored uncapped (e.g. max 12, balance 11 1/2, one dollar -> 14 1/2)",
                       construct=f.ident, text="uncapped store of " + vs)
                chk.extra["add_credit_paths"] = len(paths)
                continue
            if f.name == "_player_added":
                zero = [d.id for d in defs if isinstance(d.ast, ast.Assign) and src(d.ast.value) == "0"]
                bad = None
                for pth, fx in feasible_paths(cfg, cfg.entry.id, [node.id]):
                    if not (fx.get("%s < 0" % vs) is False or any(z in pth for z in zero)):
                        bad = bad or pth
                chk.ob("BOUND-2", "charging a player never stores a negative balance", bad is None, where, path=cfg.fmt_path(bad, CR) if bad else None,
                       construct=f.ident, text="negative store of " + vs)
                sub = [d for d in defs if isinstance(d.ast, ast.Assign) and isinstance(d.ast.value, ast.BinOp) and isinstance(d.ast.value.op, ast.Sub)]
                ok = bool(sub) and src(sub[0].ast.value.left) == "self._get_credit_units()" and src(sub[0].ast.value.right) == "self.credit_units_per_game"
                chk.ob("TABLE-10", "a started player is charged exactly one game price", ok, where, detail=src(sub[0].ast.value) if sub else "",
                       construct=f.ident, text="charge " + (src(sub[0].ast.value) if sub else "?"))
                g = cfg.guards_at(node.id)
                free = [k for k, val in g.items() if "free_play" in k]
                chk.ob("TABLE-10", "players are charged only in credit play", bool(free) and all(g[k] is False for k in free), where, construct=f.ident,
                       text="charge guard")
                continue
            if f.name == "_clear_fractional_credits":
                aug = [d for d in defs if isinstance(d.ast, ast.AugAssign)]
                ok = len(aug) == 1 and isinstance(aug[0].ast.op, ast.Sub) and src(aug[0].ast.value).replace(" ", "") == "%s%%self.credit_units_per_game" % vs
                chk.ob("BOUND-2", "expiring fractional credits rounds the balance down to whole games (never up, never below zero)", ok, where,
                       construct=f.ident, text="fraction clearing")
                continue
            chk.ob("BOUND-2", "store of the balance in %s is of a known bounded form" % f.name, False, where, detail="value `%s` not classified" % vs,
                   construct=f.ident, text="unclassified store %s in %s" % (vs, f.name))
    chk.expect(n_st >= 4, "C20: balance stores lost (%d)" % n_st)
    a = cr.methods["_add_credit_units"]
    acfg = a.cfg()
    tot = [x for x in walk_local(a.node) if isinstance(x, ast.Assign) and src(x.targets[0]) == "total_credit_units"]
    ok = bool(tot) and src(tot[0].value).replace(" ", "") == "credit_units+previous_credit_units"
    chk.ob("BOUND-2", "the new total starts as previous balance + added units", ok, a.where(), construct=a.ident, text="total definition")
    mx = [x for x in walk_local(a.node) if isinstance(x, ast.Assign) and src(x.targets[0]) == "max_credit_units"]
    ok = bool(mx) and "self.credits_config['max_credits']" in src(mx[0].value) and "self.credit_units_per_game" in src(mx[0].value) and \
        isinstance(mx[0].value, ast.BinOp) and isinstance(mx[0].value.op, ast.Mult)
    chk.ob("BOUND-2", "the cap in units = max_credits x units per game", ok, a.where(), construct=a.ident, text="cap definition")
    # the comparison with the cap judges the *final* total: nothing is added to the total once it has been compared (the tier bonus comes first)
    cmpn = [n for n in acfg.nodes if n.kind == "test" and n.ast is not None and "total_credit_units" in src(n.ast) and "max_credit_units" in src(n.ast)]
    chk.need(cmpn, "BOUND-2", "_add_credit_units compares the total with the cap", a)
    after = acfg.reachable([cmpn[0].id], include_start=False)
    late = [n for n in acfg.nodes if n.id in after and n.kind == "stmt" and isinstance(n.ast, (ast.Assign, ast.AugAssign))
            and src(n.ast.targets[0] if isinstance(n.ast, ast.Assign) else n.ast.target) == "total_credit_units" and src(n.ast.value) != "max_credit_units"]
    chk.ob("BOUND-2", "nothing is added to the total after it has been compared with the cap (tier bonuses are part of what is capped)", not late,
           a.where(late[0].ast) if late else a.where(), detail="`%s` runs after the cap test: a bonus earned at the cap is stored on top of the maximum"
           % (src(late[0].ast) if late else ""), construct=a.ident, text="total changed after the cap test")

    # ------------------------------------------------------------ TABLE-10
    for gate in ("_request_to_start_game", "_player_add_request"):
        f = cr.methods[gate]
        chk.analysed(f)
        cfg = f.cfg()
        rets = [n for n in cfg.nodes_where(lambda n: n.kind == "stmt" and isinstance(n.ast, ast.Return))]
        vals = {}
        for n in rets:
            g = cfg.guards_at(n.id)
            t = [k for k in g if "self._get_credit_units()" in k]
            vals[src(n.ast.value)] = (t[0].replace(" ", ""), g[t[0]]) if t else None
        ok = vals.get("True") == ("self._get_credit_units()>=self.credit_units_per_game", True) and \
            vals.get("False") == ("self._get_credit_units()>=self.credit_units_per_game", False)
        chk.ob("TABLE-10", "%s lets the game proceed iff a full game price is available" % gate, ok, f.where(), detail=str(vals), construct=f.ident,
               text="gate %s %s" % (gate, sorted((k, str(v)) for k, v in vals.items())))
    en = cr.methods["enable_credit_play"]
    chk.analysed(en)
    regs = {}
    for c in en.calls():
        if call_attr(c) == "add_mode_event_handler" and c.args and isinstance(c.args[0], ast.Constant):
            regs[c.args[0].value] = src(c.args[1]) if len(c.args) > 1 else None
    ok = regs.get("player_add_request") == "self._player_add_request" and regs.get("request_to_start_game") == "self._request_to_start_game" and \
        regs.get("player_added") == "self._player_added"
    chk.ob("TABLE-10", "credit play registers both gates and the charge on their events", ok, en.where(), detail=str(regs), construct=en.ident,
           text="gate registration")
    rm = cr.methods["_remove_event_handlers"]
    removed = {src(c.args[0]) for c in rm.calls() if call_attr(c) == "remove_handler" and c.args}
    chk.ob("TABLE-10", "switching to free play removes exactly the handlers credit play registered", set(regs.values()) <= removed, rm.where(),
           detail="registered %s, removed %s" % (sorted(regs.values()), sorted(removed)), construct=rm.ident,
           text="handlers not removed: %s" % sorted(set(regs.values()) - removed))
    ecfg = en.cfg()
    rmn = [n for n, c in ecfg.calls_named("_remove_event_handlers")]
    adds = [n for n, c in ecfg.calls_named("add_mode_event_handler")]
    ok = bool(rmn) and all(ecfg.dominates(rmn[0].id, a_.id) for a_ in adds)
    chk.ob("TABLE-10", "enabling credit play twice does not register the gates (and the charge) twice", ok, en.where(),
           detail="a doubled _player_added handler deducts two game prices per player", construct=en.ident, text="duplicate handler prevention")
    fp = cr.methods["enable_free_play"]
    ok = any(call_attr(c) == "_remove_event_handlers" for c in fp.calls()) and any(call_attr(c) == "_disable_credit_handlers" for c in fp.calls())
    chk.ob("TABLE-10", "free play removes the gates and the coin handlers", ok, fp.where(), construct=fp.ident, text="free play cleanup")

    # coin / service / event-credit handlers: what _enable_credit_handlers registers, _disable_credit_handlers removes
    eh = cr.methods["_enable_credit_handlers"]
    dh = cr.methods["_disable_credit_handlers"]
    chk.analysed(eh, dh)
    sw_adds = [c for c in ast.walk(eh.node) if isinstance(c, ast.Call) and call_attr(c) in ("add_switch_handler_obj", "add_switch_handler")]
    tracked = [c for c in ast.walk(eh.node) if isinstance(c, ast.Call) and call_attr(c) == "append" and src(c.func.value) == "self._switch_handlers"
               and c.args and isinstance(c.args[0], ast.Call) and c.args[0] in sw_adds]
    chk.ob("TABLE-10", "every coin / service switch handler is remembered for removal", bool(sw_adds) and len(tracked) == len(sw_adds), eh.where(),
           detail="%d registered, %d remembered" % (len(sw_adds), len(tracked)), construct=eh.ident, text="switch handlers tracked")
    rmk = [c for c in dh.calls() if call_attr(c) in ("remove_switch_handler_by_keys",) and c.args and src(c.args[0]) == "self._switch_handlers"]
    chk.ob("TABLE-10", "free play removes the coin and service switch handlers", bool(rmk), dh.where(), construct=dh.ident, text="switch handlers removed")
    ev_adds = {src(kwarg(c, "handler") or (c.args[1] if len(c.args) > 1 else None)) for c in ast.walk(eh.node)
               if isinstance(c, ast.Call) and call_attr(c) == "add_handler"}
    ev_rm = {src(c.args[0]) for c in dh.calls() if call_attr(c) == "remove_handler" and c.args}
    chk.ob("TABLE-10", "free play removes the credit-event handlers it registered", bool(ev_adds) and ev_adds <= ev_rm, dh.where(),
           detail="registered %s, removed %s" % (sorted(ev_adds), sorted(ev_rm)), construct=dh.ident,
           text="credit event handlers not removed: %s" % sorted(ev_adds - ev_rm))
    ecp = cr.methods["enable_credit_play"]
    ok = any(call_attr(c) == "_enable_credit_handlers" for c in ecp.calls())
    chk.ob("TABLE-10", "credit play registers the coin handlers", ok, ecp.where(), construct=ecp.ident, text="coin handlers registered")

    # what the start of a game suspends (the expiry timers), the end of the game mode resumes - on *every* way the game mode ends: the pair
    # is bound to the two lifecycle events of the game mode itself (mode_game_started / mode_game_stopped); game_ended is posted only
    # by a regular game end, not when the game mode is stopped from outside
    pairs_ = {}
    for c in ecp.calls():
        if call_attr(c) == "add_mode_event_handler" and len(c.args) >= 2 and isinstance(c.args[0], ast.Constant):
            pairs_.setdefault(src(c.args[1]), set()).add(c.args[0].value)
    ok = pairs_.get("self._game_started") == {"mode_game_started"} and pairs_.get("self._game_ended") == {"mode_game_stopped"}
    chk.ob("UNIT-7", "the credit expiry is suspended and resumed on the start and the stop of the game mode (the same lifecycle, every way out)", ok, ecp.where(),
           detail="_game_started on %s, _game_ended on %s" % (sorted(pairs_.get("self._game_started", [])), sorted(pairs_.get("self._game_ended", []))),
           construct=ecp.ident, text="expiry suspend / resume events")

    # ------------------------------------------------------------ DOM-38
    sw = cr.methods["_credit_switch_callback"]
    chk.analysed(sw)
    au = [c for c in sw.calls() if call_attr(c) == "_audit"]
    ok = len(au) == 1 and [src(x) for x in au[0].args] == ["value", "audit_class", "key_name"]
    chk.ob("DOM-38", "a coin is audited once with its own value, class and label", ok, sw.where(), construct=sw.ident, text="coin audit")
    # ... every coin: the machine swallowed it, whether or not it bought anything (a coin at the credit cap is still money in the box)
    swc = sw.cfg()
    for nm in ("_audit", "_add_credit_units", "_reset_timeouts"):
        ns = [n for n, c in swc.calls_named(nm)]
        ok = len(ns) == 1 and not swc.guards_at(ns[0].id) and swc.must_pass(swc.entry.id, [ns[0].id], ends=[swc.exit.id]) is None
        chk.ob("DOM-38", "every coin through a credit switch runs %s (no condition: also a coin that adds no credit is audited)" % nm, ok, sw.where(), construct=sw.ident,
               text="coin step unconditional " + nm)
    for nm in ("_audit", "_audit_event"):
        am_ = cr.methods[nm]
        chk.analysed(am_)
        aucfg = am_.cfg()
        sv_ = [n for n, c in aucfg.calls_named("save_all")]
        ok = len(sv_) == 1 and not aucfg.guards_at(sv_[0].id) and aucfg.must_pass(aucfg.entry.id, [sv_[0].id], ends=[aucfg.exit.id]) is None
        chk.ob("DOM-38", "%s hands the updated earnings to the data manager on every path" % nm, ok, am_.where(), construct=am_.ident, text="audit saved " + nm)
    # the coin handlers are registered once: whoever registers them (credit play can be switched on by an event while it is already on)
    # has removed the previous registration first, on every path; a second set of handlers counts and audits every coin twice
    n_reg = 0
    for m_ in cr.methods.values():
        rcfg = None
        for c_ in m_.calls():
            if call_attr(c_) != "_enable_credit_handlers":
                continue
            rcfg = rcfg or m_.cfg()
            n_reg += 1
            chk.analysed(m_)
            here = [n for n, cc in rcfg.calls_named("_enable_credit_handlers") if cc is c_]
            dis = [n.id for n, cc in rcfg.calls_named("_disable_credit_handlers")]
            ok = bool(here) and bool(dis) and any(rcfg.dominates(d, here[0].id) for d in dis)
            chk.ob("DOM-38", "Credits.%s registers the coin handlers only after removing a previous registration (a coin is counted by one handler)" % m_.name, ok,
                   m_.where(c_), detail="enable_credit_play posted while credit play is on would add a second set of switch handlers: every coin credits and audits twice",
                   construct=m_.ident, text="coin handlers registered without removing the old ones in " + m_.name)
    chk.ob("DOM-38", "coin handler registrations examined (%d)" % n_reg, n_reg >= 1, cr.methods["_enable_credit_handlers"].where(), nontrivial=False)
    dh = cr.methods["_disable_credit_handlers"]
    chk.analysed(dh)
    ok = any(call_attr(c_) == "remove_switch_handler_by_keys" and [src(a) for a in c_.args] == ["self._switch_handlers"] for c_ in dh.calls()) and \
        any(isinstance(x, ast.Assign) and src(x.targets[0]) == "self._switch_handlers" and src(x.value) in ("[]", "list()") for x in walk_local(dh.node)) and \
        any(call_attr(c_) == "remove_handler" and [src(a) for a in c_.args] == ["self._credit_event_callback"] for c_ in dh.calls())
    chk.ob("DOM-38", "removing the coin handlers removes every remembered switch handler, forgets them and removes the credit event handler", ok, dh.where(),
           construct=dh.ident, text="coin handlers removal")
    eh = cr.methods["_enable_credit_handlers"]
    chk.analysed(eh)
    adds = [c_ for c_ in eh.calls() if call_attr(c_) == "add_switch_handler_obj"]
    kept = [c_ for c_ in eh.calls() if call_attr(c_) == "append" and src(c_.func.value) == "self._switch_handlers" and c_.args and c_.args[0] in adds]
    chk.ob("DOM-38", "every coin / service switch handler that is registered is remembered for removal", len(adds) >= 2 and len(kept) == len(adds), eh.where(),
           construct=eh.ident, text="coin handlers remembered")

    # each of the audit counters accumulates: it is created with the first coin's figure and added to afterwards (never overwritten),
    # the count keys by 1 and the earnings keys by the coin's value
    au_ = cr.methods["_audit"]
    aucf = au_.cfg()
    keys_ = {}
    for n in aucf.nodes:
        if n.kind != "stmt" or not isinstance(n.ast, (ast.Assign, ast.AugAssign)):
            continue
        t_ = n.ast.target if isinstance(n.ast, ast.AugAssign) else n.ast.targets[0]
        if isinstance(t_, ast.Subscript) and src(t_.value) == "self.earnings":
            keys_.setdefault(src(t_.slice), []).append(n)
    n_k = 0
    for k_, nodes_ in sorted(keys_.items()):
        n_k += 1
        first = [n for n in nodes_ if isinstance(n.ast, ast.Assign)]
        more = [n for n in nodes_ if isinstance(n.ast, ast.AugAssign) and isinstance(n.ast.op, ast.Add)]
        okk = len(first) == 1 and len(more) == 1 and src(first[0].ast.value) == src(more[0].ast.value) and src(first[0].ast.value) in ("1", "value") and \
            aucf.guards_at(first[0].id).get("%s not in self.earnings" % k_) is True and aucf.guards_at(more[0].id).get("%s not in self.earnings" % k_) is False
        chk.ob("DOM-38", "audit `%s` starts with the first coin's figure and is added to afterwards (its own not-yet-present test decides which)" % k_, okk,
               au_.where(nodes_[0].ast), detail="; ".join(short(n.ast, 50) for n in nodes_), construct=au_.ident, text="audit accumulation " + k_)
    chk.ob("DOM-38", "audit counters examined (%d)" % n_k, n_k == 4, au_.where(), nontrivial=False)
    kinds_ = {k_: src(v[0].ast.value) for k_, v in keys_.items() if v}
    chk.ob("DOM-38", "two audits count coins (by 1) and two sum their value", sorted(kinds_.values()) == ["1", "1", "value", "value"], au_.where(), detail=str(kinds_),
           construct=au_.ident, text="audit kinds")

    # credits expire while the machine is off only if the deadline is on disk: shared with C15
    from sa.rules.c15 import expiry_restart_is_written
    expiry_restart_is_written(chk, repo, "UNIT-7")

    # the pricing table is rebuilt from scratch every time it is calculated (the mode is restarted after service): what the loop carries
    # from tier to tier starts at zero, the table starts empty
    pt_ = cr.methods["_calculate_pricing_tiers"]
    chk.analysed(pt_)
    pcfg = pt_.cfg()
    lps = [h for h in pcfg.nodes if h.kind == "loop"]
    chk.need(lps, "TIER-1", "_calculate_pricing_tiers loops over the configured tiers", pt_)
    first = min(lps, key=lambda h: h.lineno)
    for attr, val in (("self.pricing_tiers_wrap_around", "0"), ("self.pricing_table", "{}")):
        ini = [n for n in pcfg.nodes if n.kind == "stmt" and isinstance(n.ast, ast.Assign) and src(n.ast.targets[0]) == attr and pcfg.dominates(n.id, first.id)]
        ok = len(ini) >= 1 and src(ini[-1].ast.value).replace("dict()", "{}") == val
        chk.ob("TIER-1", "the tier table is rebuilt from scratch: %s starts at %s before the tiers are read" % (attr, val), ok, pt_.where(first.ast), construct=pt_.ident,
               text="tier rebuild start " + attr)
    # what an amount earns: the best tier as often as it fits, then the next tier for the *remainder*, and so on down - every tier is visited
    # (no early exit from the tier loop), each visit books the units it has accounted for, and the bonus accumulates
    tls = [x for x in ast.walk(pt_.node) if isinstance(x, ast.For) and "reversed(pricing_tiers)" in src(x.iter)]
    chk.need(len(tls) == 1, "TIER-1", "_calculate_pricing_tiers decomposes an amount over the tiers, best tier first", pt_)
    tl_ = tls[0]
    exits_ = [x for b in tl_.body for x in ast.walk(b) if isinstance(x, (ast.Break, ast.Return))]
    chk.ob("TIER-1", "the decomposition visits every tier (the remainder above the best tier earns the lower tiers' bonuses)", not exits_,
           pt_.where(exits_[0] if exits_ else tl_), construct=pt_.ident, text="tier decomposition exhaustive")
    bon = [x for b in tl_.body for x in ast.walk(b) if isinstance(x, (ast.Assign, ast.AugAssign)) and src(x.targets[0] if isinstance(x, ast.Assign) else x.target) == "bonus"]
    ok = bool(bon) and all(isinstance(x, ast.AugAssign) and isinstance(x.op, ast.Add) and src(x.value) == "tier_bonus" for x in bon)
    chk.ob("TIER-1", "inside the decomposition the bonus only accumulates (+= the tier's bonus)", ok, pt_.where(bon[0] if bon else tl_), construct=pt_.ident,
           text="tier bonus accumulates")
    acc_ = [x for b in tl_.body for x in ast.walk(b) if isinstance(x, ast.AugAssign) and isinstance(x.op, ast.Add) and src(x.value) == "tier_credit_units"]
    wh_ = [x for b in tl_.body for x in ast.walk(b) if isinstance(x, ast.While)]
    from sa.cfg import canon_fact as _cf20
    ok = len(acc_) == 1 and len(wh_) == 1 and any(y is acc_[0] for y in ast.walk(wh_[0])) and \
        _cf20(src(wh_[0].test), True) == _cf20("units - %s >= tier_credit_units" % src(acc_[0].target), True) and \
        all(any(y is x for y in ast.walk(wh_[0])) for x in bon)
    chk.ob("TIER-1", "a tier is taken while the remainder (amount - units already accounted for) still covers it, and each take books the tier's units", ok,
           pt_.where(wh_[0] if wh_ else tl_), construct=pt_.ident, text="tier taken per remainder")
    ad = [c for c in sw.calls() if call_attr(c) == "_add_credit_units"]
    ok = len(ad) == 1 and _arg0(ad[0], "credit_units").replace(" ", "") == "value/self.credit_unit" and \
        (kwarg(ad[0], "price_tiering") is None or src(kwarg(ad[0], "price_tiering")) == "True")
    chk.ob("DOM-38", "a coin adds value / credit_unit units and takes part in the pricing tiers", ok, sw.where(), construct=sw.ident, text="coin credit")
    ev = cr.methods["_credit_event_callback"]
    chk.analysed(ev)
    ad = [c for c in ev.calls() if call_attr(c) == "_add_credit_units"]
    pt = kwarg(ad[0], "price_tiering") if ad else None
    ok = len(ad) == 1 and pt is not None and src(pt) == "False"
    chk.ob("DOM-38", "credits awarded by events (replays, match) never advance the pricing tiers", ok, ev.where(),
           detail="they are not money: with tiering an award plus fewer coins than the tier price would earn the bonus credit", construct=ev.ident,
           text="event credits tiering " + (src(pt) if pt is not None else "default"))
    ok = len(ad) == 1 and _arg0(ad[0], "credit_units").replace(" ", "") == "credits_value*self.credit_units_per_game"
    chk.ob("DOM-38", "an event credit is worth one game price each", ok, ev.where(), construct=ev.ident, text="event credit units")
    au = [c for c in ev.calls() if call_attr(c) == "_audit_event"]
    chk.ob("DOM-38", "event credits are audited as such", len(au) == 1 and [src(x) for x in au[0].args] == ["credits_value", "audit_class"], ev.where(),
           construct=ev.ident, text="event audit")
    sv = cr.methods["_service_credit_callback"]
    ad = [c for c in sv.calls() if call_attr(c) == "add_credit"]
    pt = kwarg(ad[0], "price_tiering") if ad else None
    ok = len(ad) == 1 and pt is not None and src(pt) == "False" and any(call_attr(c) == "_audit_event" for c in sv.calls())
    chk.ob("DOM-38", "service credits are audited and never advance the pricing tiers", ok, sv.where(), construct=sv.ident, text="service credit")
    ac = cr.methods["add_credit"]
    c_ = [c for c in ac.calls() if call_attr(c) == "_add_credit_units"]
    ok = bool(c_) and [src(x) for x in c_[0].args] == ["self.credit_units_per_game", "price_tiering"]
    chk.ob("DOM-38", "add_credit adds one game price and forwards the tiering flag", ok, ac.where(), construct=ac.ident, text="add_credit")
    tl = [x for x in ast.walk(a.node) if isinstance(x, ast.For) and "range(credit_units)" in src(x.iter)]
    ok = bool(tl) and acfg.guards_at([n for n in acfg.nodes if n.kind == "loop" and n.ast is tl[0]][0].id).get("price_tiering") is True
    chk.ob("DOM-38", "tier bonuses are computed only when tiering is requested, one added unit at a time", ok, a.where(), construct=a.ident,
           text="tier loop guard")

    # ------------------------------------------------------------ UNIT-7
    rt = cr.methods["_reset_timeouts"]
    chk.analysed(rt)
    spec = units.spec
    arms = [c for c in rt.calls() if call_attr(c) in ("reset", "add", "add_if_doesnt_exist") and "delay" in src(c.func.value)]
    names = sorted(const_value(kwarg(c, "name")) or "?" for c in arms)
    chk.ob("UNIT-7", "both expiry periods are armed by _reset_timeouts", names == ["clear_all_credits", "clear_fractional_credits"], rt.where(), detail=str(names),
           construct=rt.ident, text="expiry timers armed %s" % names)
    for c in arms:
        chk.ob("UNIT-7", "every payment restarts the expiry period `%s` (delay.reset: the period runs from the last coin, not from the first)" % const_value(kwarg(c, "name")),
               call_attr(c) == "reset", rt.where(c), detail="armed with delay.%s" % call_attr(c), construct=rt.ident,
               text="expiry %s armed with %s" % (const_value(kwarg(c, "name")), call_attr(c)))
    callers = [m.name for m in cr.methods.values() if any(call_attr(c) == "_reset_timeouts" for c in m.calls())]
    chk.ob("UNIT-7", "coins and event credits restart the expiry periods, and the end of a game arms them again", {"_credit_switch_callback", "_credit_event_callback", "_game_ended"} <= set(callers),
           rt.where(), detail=str(sorted(callers)), construct=rt.ident, text="expiry restart callers")
    for c in rt.calls():
        if call_attr(c) in ("reset", "add", "add_if_doesnt_exist") and "delay" in src(c.func.value):
            ms = kwarg(c, "ms")
            key = ms.slice.value if isinstance(ms, ast.Subscript) and isinstance(ms.slice, ast.Constant) else None
            ent = spec.get("credits", {}).get(key) if key else None
            ok = isinstance(ent, str) and ent.split("|")[1] == "ms"
            chk.ob("UNIT-7", "expiration delay `%s` is a millisecond-typed setting handed to delay(ms=)" % key, ok, rt.where(c), detail=str(ent),
                   construct=rt.ident, text="expiration unit " + str(key))
            cb = src(kwarg(c, "callback"))
            want = {"fractional_credit_expiration_time": "self._clear_fractional_credits", "credit_expiration_time": "self.clear_all_credits"}.get(key)
            chk.ob("UNIT-7", "`%s` expires into %s" % (key, want), cb == want, rt.where(c), construct=rt.ident, text="expiration callback " + str(key))
    gs = cr.methods["_game_started"]
    rms = {src(c.args[0]) for c in gs.calls() if call_attr(c) == "remove" and "delay" in src(c.func.value) and c.args}
    chk.ob("UNIT-7", "credits do not expire during a game", rms >= {"'clear_fractional_credits'", "'clear_all_credits'"}, gs.where(), detail=str(rms),
           construct=gs.ident, text="expiry paused in game")

    # the expiry timers are stopped only by the start of a game (by name); no other method of the credits mode wipes its delays - switching
    # between free and credit play, or enabling credit play again, must not make the credits immortal
    wipes = [(m_, c) for m_ in cr.methods.values() for c in m_.calls() if call_attr(c) == "clear" and isinstance(c.func, ast.Attribute) and src(c.func.value) == "self.delay"]
    chk.ob("UNIT-7", "no method of the credits mode wipes all its delays (the expiry timers are stopped by name, when a game starts)", not wipes,
           wipes[0][0].where(wipes[0][1]) if wipes else cr.where(), detail=", ".join(m_.name for m_, _ in wipes), construct=cr.ident, text="credit delays wiped")
    from sa.helpers import setting_value_source
    setting_value_source(chk, "TABLE-10")
    # free play or credit play is the operator's *setting*: the configured `free_play` is only its default.  The config value is read at one
    # place - as the default handed to add_setting - and every decision between free and paid play asks the settings controller.  (A handler
    # that asks the config charges nothing on a machine whose default is free play but which the operator switched to credit play, while the
    # start gate - which asks the setting - still demands the price: one credit buys any number of games.)
    cfg_reads, live_reads = [], []
    for m_ in cr.methods.values():
        for x in walk_local(m_.node):
            if isinstance(x, ast.Subscript) and isinstance(x.ctx, ast.Load) and src(x.value) == "self.credits_config" and const_value(x.slice) == "free_play":
                inside_add = any(isinstance(c, ast.Call) and call_attr(c) in ("add_setting", "SettingEntry") and any(y is x for y in ast.walk(c)) for c in m_.calls())
                cfg_reads.append((m_, x, inside_add))
            if isinstance(x, ast.Call) and call_attr(x) == "get_setting_value" and x.args and const_value(x.args[0]) == "free_play":
                live_reads.append((m_, x))
    for m_, x, inside_add in cfg_reads:
        chk.ob("TABLE-10", "the configured free_play is only the default of the operator setting (read in add_setting, nowhere else)", inside_add, m_.where(x),
               detail="%s decides from the configuration instead of the live setting" % m_.qualname if not inside_add else "", construct=m_.ident,
               text="configured free_play read in " + m_.name)
    chk.ob("TABLE-10", "the free_play default is registered as a setting", any(a for _, _, a in cfg_reads), cr.where(), construct=cr.ident, text="free_play setting registered")
    deciders = {m_.name for m_, _ in live_reads}
    want_dec = {"mode_start", "_player_added", "_update_credit_strings"}
    chk.ob("TABLE-10", "starting the mode, charging a new player and the credit strings decide free / paid play from the live setting",
           want_dec <= deciders, cr.where(), detail="live setting read in %s" % sorted(deciders), construct=cr.ident, text="free_play deciders")

    # ------------------------------------------------------------ FLAG-20: the once-per-game tier reset
    # the tier progress restarts when a game starts (unconditionally) and once more when player 1 starts ball 2; the "done this game" flag
    # belongs to the second reset only: it is set nowhere else, so the game-start reset cannot use it up
    F = "self.reset_pricing_tier_count_this_game"
    rp = cr.methods["_reset_pricing_tier_credits"]
    chk.analysed(rp)
    callers = sorted(m.name for m in cr.methods.values() if any(call_attr(c) == "_reset_pricing_tier_credits" for c in m.calls()))
    chk.ob("FLAG-20", "the once-per-game tier reset is requested only when a ball starts", callers == ["_ball_starting"], rp.where(), detail=str(callers),
           construct=rp.ident, text="once-per-game reset callers %s" % callers)
    bs_ = cr.methods["_ball_starting"]
    bc = bs_.cfg()
    calls_ = [n for n, c in bc.calls_named("_reset_pricing_tier_credits")]
    from sa.cfg import canon_set, canon_fact
    ok = len(calls_) == 1 and set(canon_set(bc.guards_at(calls_[0].id))) == {canon_fact("player == 1", True), canon_fact("ball == 2", True)}
    chk.ob("FLAG-20", "it is requested exactly when player 1 starts ball 2", ok, bs_.where(), construct=bs_.ident, text="ball 2 reset guard")
    sets_true = [(m.name, x) for m in cr.methods.values() for x in walk_local(m.node) if isinstance(x, ast.Assign) and src(x.targets[0]) == F and src(x.value) == "True"]
    chk.ob("FLAG-20", "the flag is raised only by the once-per-game reset itself", [m for m, _ in sets_true] == ["_reset_pricing_tier_credits"], rp.where(),
           detail=str([m for m, _ in sets_true]), construct=rp.ident, text="flag raised in %s" % [m for m, _ in sets_true])
    gs_ = cr.methods["_game_started"]
    z = [x for x in walk_local(gs_.node) if isinstance(x, ast.Assign) and src(x.targets[0]) == "self.credit_units_for_pricing_tiers" and src(x.value) == "0"]
    gc_ = gs_.cfg()
    zn = [n for n in gc_.nodes if n.kind == "stmt" and z and n.ast is z[0]]
    ok = len(z) == 1 and bool(zn) and not gc_.guards_at(zn[0].id) and F not in src(gs_.node)
    chk.ob("FLAG-20", "a game start restarts the tier progress unconditionally and leaves the once-per-game flag alone", ok, gs_.where(), construct=gs_.ident,
           text="game start tier reset")
    ge_ = [m for m in cr.methods.values() if any(isinstance(x, ast.Assign) and src(x.targets[0]) == F and src(x.value) == "False" for x in walk_local(m.node))]
    chk.ob("FLAG-20", "the flag is lowered again when the game ends", any(m.name in ("_game_ended", "_game_stopped") for m in ge_), rp.where(),
           detail=str([m.name for m in ge_]), construct=rp.ident, text="flag lowered")

    # ------------------------------------------------------------ TIER-1: the tier loop adds, it never replaces
    # per added unit: the progress counter moves by one, the bonus the table gives for that progress is *added* to the total, the counter
    # wraps at the table's period; the total starts as previous + added units
    tl2 = [x for x in ast.walk(a.node) if isinstance(x, ast.For) and "range(credit_units)" in src(x.iter)]
    chk.need(tl2, "TIER-1", "_add_credit_units walks the added units one by one", a)
    body = tl2[0].body
    forms = [(type(x).__name__, src(x.target if isinstance(x, ast.AugAssign) else x.targets[0]), type(x.op).__name__ if isinstance(x, ast.AugAssign) else "=",
              src(x.value)) for x in body if isinstance(x, (ast.Assign, ast.AugAssign))]
    P = "self.credit_units_for_pricing_tiers"
    want = [("AugAssign", P, "Add", "1"), ("Assign", "bonus_credit_units", "=", "self.pricing_table[%s]" % P),
            ("AugAssign", "total_credit_units", "Add", "bonus_credit_units"), ("AugAssign", P, "Mod", "self.pricing_tiers_wrap_around")]
    chk.ob("TIER-1", "per added unit: progress + 1, bonus looked up for that progress and added to the total, progress wrapped at the table's period", forms == want,
           a.where(tl2[0]), detail=str(forms), construct=a.ident, text="tier loop body")
    init = [x for x in walk_local(a.node) if isinstance(x, ast.Assign) and src(x.targets[0]) == "total_credit_units" and not any(y is x for y in ast.walk(tl2[0]))]
    ok = bool(init) and sorted(src(init[0].value).replace(" ", "").split("+")) == sorted(["credit_units", "previous_credit_units"]) and init[0].lineno < tl2[0].lineno
    chk.ob("TIER-1", "the new balance starts as previous balance + added units", ok, a.where(), construct=a.ident, text="total init")

    # ------------------------------------------------------------ UNIT-8
    # the credit unit divides into both the smallest coin and the game price: on every path of _calculate_credit_units the unit is bounded
    # by both (otherwise units-per-game = int(price / unit) becomes 0: gates always open, nothing deducted).  Orderings only - no arithmetic.
    cu_f = cr.methods["_calculate_credit_units"]
    chk.analysed(cu_f)
    _unit_bound(chk, cu_f)


def battery():
    from sa.battery import M
    return [
        M("handler clean-up also wipes the expiry timers", CR, "        self.machine.events.remove_handler(self._credit_event_callback)\n", "        self.machine.events.remove_handler(self._credit_event_callback)\n        self.delay.clear()\n", "UNIT-7"),
        M("expiry resumed on game_ended only", CR, "        self.add_mode_event_handler('mode_game_stopped',\n                                    self._game_ended)", "        self.add_mode_event_handler('game_ended',\n                                    self._game_ended)", "UNIT-7"),
        M("new player charged according to the configured default", CR, "    def _player_added(self, **kwargs):\n        del kwargs\n        if self.machine.settings.get_setting_value('free_play'):", "    def _player_added(self, **kwargs):\n        del kwargs\n        if self.credits_config['free_play']:", "TABLE-10"),
        M("only the best tier counts (remainder earns nothing)", CR, "            accounted_units = 0\n            bonus = 0\n            for tier_credit_units, tier_bonus in reversed(pricing_tiers):\n                while units - accounted_units >= tier_credit_units:\n                    accounted_units += tier_credit_units\n                    bonus += tier_bonus\n", "            bonus = 0\n            for tier_credit_units, tier_bonus in reversed(pricing_tiers):\n                if units >= tier_credit_units:\n                    bonus = (units // tier_credit_units) * tier_bonus\n                    break\n", "TIER-1"),
        M("tier taken against the whole amount", CR, "                while units - accounted_units >= tier_credit_units:", "                while units >= tier_credit_units + accounted_units * 0 and accounted_units < units:", "TIER-1"),
        M("tier bonus added after the cap test", CR, "        # check for pricing tier\n        self.credit_units_for_pricing_tiers %= self.pricing_tiers_wrap_around\n\n        if price_tiering:\n            # add credits one by one to get all pricing tiers\n            for _ in range(credit_units):\n                self.credit_units_for_pricing_tiers += 1\n                bonus_credit_units = self.pricing_table[self.credit_units_for_pricing_tiers]\n                total_credit_units += bonus_credit_units\n                self.credit_units_for_pricing_tiers %= self.pricing_tiers_wrap_around\n\n", "", "BOUND-2", also=[(CR, "        if max_credit_units <= 0 or max_credit_units > previous_credit_units:", "        self.credit_units_for_pricing_tiers %= self.pricing_tiers_wrap_around\n        if price_tiering:\n            for _ in range(credit_units):\n                self.credit_units_for_pricing_tiers += 1\n                bonus_credit_units = self.pricing_table[self.credit_units_for_pricing_tiers]\n                total_credit_units += bonus_credit_units\n                self.credit_units_for_pricing_tiers %= self.pricing_tiers_wrap_around\n        if max_credit_units <= 0 or max_credit_units > previous_credit_units:")]),
        M("cap overwritten by total", CR, "            self.machine.variables.set_machine_var('credit_units', max_credit_units)\n            total_credit_units = max_credit_units\n", "            self.machine.variables.set_machine_var('credit_units', max_credit_units)\n", "BOUND-2"),
        M("cap test off by one game", CR, "        if max_credit_units and total_credit_units > max_credit_units:", "        if max_credit_units and total_credit_units > max_credit_units + self.credit_units_per_game:", "BOUND-2"),
        M("negative balance after charge", CR, "            if new_credit_units < 0:\n                self.warning_log(\"Somehow credit units went below 0?!? Resetting \"\n                                 \"to 0.\")\n                new_credit_units = 0\n", "", "BOUND-2"),
        M("fractions rounded up", CR, "        credit_units -= credit_units % self.credit_units_per_game", "        credit_units += self.credit_units_per_game - credit_units % self.credit_units_per_game", "BOUND-2"),
        M("foreign module sets balance", "mpf/modes/service/code/service.py", "    def _get_key(self):", "    def _zero_credits(self):\n        self.machine.variables.set_machine_var('credit_units', 99)\n\n    def _get_key(self):", "OWN-18"),
        M("gate accepts partial price", CR, "        if (self._get_credit_units() >=\n                self.credit_units_per_game):\n            self.info_log(\"Received request to start game.", "        if (self._get_credit_units() >\n                0):\n            self.info_log(\"Received request to start game.", "TABLE-10"),
        M("player charged a unit", CR, "            new_credit_units = (self._get_credit_units() -\n                                self.credit_units_per_game)", "            new_credit_units = (self._get_credit_units() -\n                                self.credit_unit)", "TABLE-10"),
        M("charge handler survives free play", CR, "        self.machine.events.remove_handler(self._player_added)\n", "", "TABLE-10"),
        M("gates registered twice", CR, "        self._enable_credit_handlers()\n        self._remove_event_handlers()\n", "        self._enable_credit_handlers()\n", "TABLE-10"),
        M("coin audited with units", CR, "        self._audit(value, audit_class, key_name)", "        self._audit(value / self.credit_unit, audit_class, key_name)", "DOM-38"),
        M("event credits earn tier bonus", CR, "self._add_credit_units(credit_units=credits_value * self.credit_units_per_game, price_tiering=False)", "self._add_credit_units(credit_units=credits_value * self.credit_units_per_game)", "DOM-38"),
        M("service credit tiered", CR, "        self.add_credit(price_tiering=False)", "        self.add_credit()", "DOM-38"),
        M("expiry callbacks swapped", CR, "                callback=self._clear_fractional_credits,\n                name='clear_fractional_credits')", "                callback=self.clear_all_credits,\n                name='clear_fractional_credits')", "UNIT-7"),
        M("credits expire in game", CR, "        self.delay.remove('clear_all_credits')\n", "", "UNIT-7"),
        # twins
        M("twin: cap via min()", CR, "            self.machine.variables.set_machine_var('credit_units', max_credit_units)\n            total_credit_units = max_credit_units\n", "            total_credit_units = max_credit_units\n            self.machine.variables.set_machine_var('credit_units', max_credit_units)\n", None),
        M("twin: log wording", CR, "            self.info_log(\"Max credits reached.\")", "            self.info_log(\"Max credits reached!\")", None),
        M("credit events still add credits in free play", CR, "        self.machine.events.remove_handler(self._credit_event_callback)\n", "", "TABLE-10"),
        M("service switch handler not remembered", CR, "            self._switch_handlers.append(self.machine.switch_controller.add_switch_handler_obj(\n                switch=switch,\n                callback=self._service_credit_callback))", "            self.machine.switch_controller.add_switch_handler_obj(\n                switch=switch,\n                callback=self._service_credit_callback)", "TABLE-10"),
        M("unit clamped to the coin when the coin is dearer", CR, "            if self.credit_unit > price_per_game:\n                self.credit_unit = price_per_game\n", "            if self.credit_unit > min_currency_value:\n                self.credit_unit = min_currency_value\n", "UNIT-8"),
        M("unit not clamped when the coin is cheaper", CR, "            if self.credit_unit > min_currency_value:\n                self.credit_unit = min_currency_value\n", "", "UNIT-8"),
        M("units per game from the coin", CR, "int(price_per_game / self.credit_unit)", "int(min_currency_value / self.credit_unit)", "UNIT-8"),
        M("twin: clamp via min()", CR, "            if self.credit_unit > price_per_game:\n                self.credit_unit = price_per_game\n", "            self.credit_unit = min(self.credit_unit, price_per_game)\n", None),
        M("tier bonus replaces the balance", CR, "                total_credit_units += bonus_credit_units", "                total_credit_units = bonus_credit_units", "TIER-1"),
        M("tier progress stuck at one", CR, "                self.credit_units_for_pricing_tiers += 1\n                bonus_credit_units", "                self.credit_units_for_pricing_tiers = 1\n                bonus_credit_units", "TIER-1"),
        M("game start uses up the once-per-game tier reset", CR, "        # pricing tiers will restart when the game starts\n        self.credit_units_for_pricing_tiers = 0", "        # pricing tiers will restart when the game starts\n        self._reset_pricing_tier_credits()", "FLAG-20"),
        M("expiry periods run from the first coin", CR, "            self.delay.reset(\n                ms=self.credits_config['fractional_credit_expiration_time'],", "            self.delay.add_if_doesnt_exist(\n                ms=self.credits_config['fractional_credit_expiration_time'],", "UNIT-7"),
        M("a stored falsy setting falls back to the default", "mpf/core/settings_controller.py", "        if not self.machine.variables.is_machine_var(self._settings[setting_name].machine_var):\n            value = self._settings[setting_name].default\n        else:\n            value = self.machine.variables.get_machine_var(self._settings[setting_name].machine_var)\n", "        value = self.machine.variables.get_machine_var(self._settings[setting_name].machine_var)\n        if not value:\n            value = self._settings[setting_name].default\n", "TABLE-10"),
        M("coin at the credit cap not audited", CR, "        self._add_credit_units(credit_units=value / self.credit_unit)\n        self._audit(value, audit_class, key_name)", "        if self._add_credit_units(credit_units=value / self.credit_unit):\n            self._audit(value, audit_class, key_name)", "DOM-38"),
        M("tier wrap-around carried over from the previous table", CR, "        self.pricing_tiers_wrap_around = 0\n        pricing_tiers = []", "        pricing_tiers = []", "TIER-1"),
        M("coin handlers registered a second time (F20 reverted)", CR, "        self._disable_credit_handlers()\n        self._enable_credit_handlers()", "        self._enable_credit_handlers()", "DOM-38"),
        M("per-slot earnings overwritten", CR, "            if key_val not in self.earnings:\n                self.earnings[key_val] = value\n            else:\n                self.earnings[key_val] += value", "            self.earnings[key_val] = value", "DOM-38"),
        M("unchanged expiring variable not re-written", "mpf/core/machine_vars.py", "        elif self.machine_vars[name][\"expire_secs\"]:\n            self._write_machine_var_to_disk(name)\n", "", "UNIT-7"),
    ]


def thorough(chk):
    from sa.battery import run_battery
    run_battery(chk, battery())
