"""C05 — ball requests make progress (narrow structural clauses).

PAIR-5  every EjectTracker obtained from start_eject is ended on every non-cancelled path
PAIR-6  asyncio.Lock acquire/release pairing (count lock, timeout lock)
FUT-1   a Future other tasks may await is resolved before it is replaced / dropped
DOM-11  a failed eject is retried or reported broken
DOM-12  requests are queued only when no ball is available, re-served on balls_available
BOOL-1  handlers of the broadcast boolean event balldevice_balls_available never veto it
"""
import ast

from sa.model import src, short, dotted, call_attr, kwarg, walk_local, AnalysisError, const_value
from sa.helpers import feasible_paths, inloop_guards, early_exits
from sa.index import get_index

OB = "mpf/devices/ball_device/outgoing_balls_handler.py"
BC = "mpf/devices/ball_device/ball_count_handler.py"
IB = "mpf/devices/ball_device/incoming_balls_handler.py"
BD = "mpf/devices/ball_device/ball_device.py"
OH = "OutgoingBallsHandler"


def _loop_heads(cfg):
    return [n.id for n in cfg.nodes if (n.kind == "join" and isinstance(n.ast, ast.While)) or n.kind == "loop"]


def check(chk):
    repo = chk.repo
    idx = get_index(repo)
    chk.explanation = ("C05: typestate pairing of eject trackers, locks and awaited futures on every path of the ball-device "
                       "coroutines; retry-or-report after a failed eject; request queueing/re-serving; no veto of the "
                       "broadcast balls_available event. Liveness in general and cancellation races are not decided.")
    oh = repo.cls(OB, OH)

    # ------------------------------------------------------------- PAIR-5
    n_tr = 0
    for f in oh.methods.values():
        cfg = None
        for n_ast in walk_local(f.node):
            if isinstance(n_ast, ast.Assign) and isinstance(n_ast.value, ast.Await) and isinstance(n_ast.value.value, ast.Call) \
                    and call_attr(n_ast.value.value) == "start_eject":
                cfg = cfg or f.cfg()
                chk.analysed(f)
                n_tr += 1
                var = src(n_ast.targets[0])
                st = [n for n in cfg.nodes if n.kind == "stmt" and n.ast is n_ast][0]
                ends = [n.id for n, c in cfg.calls_named("end_eject") if c.args and src(c.args[0]) == var]
                stops = [cfg.exit.id] + _loop_heads(cfg) + [n.id for n, c in cfg.calls_named("_ejecting")]
                # handled exceptions (e.g. the eject timeout) continue normally: follow exception edges into handlers,
                # but not to the exceptional exit (cancellation is checked separately)
                w = cfg.path_avoiding(st.id, stops, ends, ignore_exc=False)
                chk.ob("PAIR-5", "the eject tracker started in %s is ended (end_eject) on every non-cancelled path" % f.qualname, w is None and bool(ends),
                       f.where(n_ast), path=cfg.fmt_path(w, OB) if w else None,
                       detail="leaving with the tracker open keeps the count lock and the incoming-timeout lock: the device hangs",
                       construct=f.ident, text="tracker %s not ended" % var)
                # the result passed to end_eject is the outcome of the confirmation
                for n, c in cfg.calls_named("end_eject"):
                    if c.args and src(c.args[0]) == var and len(c.args) > 1:
                        a = src(c.args[1])
                        chk.ob("PAIR-5", "end_eject reports whether the ball left (%s)" % a, a in ("result", "True", "False"), f.where(c),
                               construct=f.ident, text="end_eject outcome " + a)
    chk.need(n_tr >= 2, "PAIR-5", "ejects are started through ball_count_handler.start_eject", repo.func(OB, "OutgoingBallsHandler._eject_ball"), "found %d site(s)" % n_tr)
    f = repo.func(OB, OH + "._eject_ball")
    cfg = f.cfg()
    hs = [h for h in ast.walk(f.node) if isinstance(h, ast.ExceptHandler) and h.type is not None and "CancelledError" in src(h.type)]
    ok = bool(hs) and all(any(isinstance(x, ast.Call) and call_attr(x) == "cancel" and "eject_process" in src(x) for x in ast.walk(h)) and
                          any(isinstance(x, ast.Raise) for x in ast.walk(h)) for h in hs)
    chk.ob("PAIR-5", "a cancelled eject cancels its tracker and re-raises", ok, f.where(), construct=f.ident, text="cancel path")
    # the timeout branch ends the tracker as failed
    for n, c in cfg.calls_named("end_eject"):
        if len(c.args) > 1 and src(c.args[1]) == "False":
            inh = any(any(y is c for y in ast.walk(h)) for h in ast.walk(f.node) if isinstance(h, ast.ExceptHandler) and "TimeoutError" in src(h.type or ast.Constant(0)))
            chk.ob("PAIR-5", "a ball that did not leave in time ends the tracker as failed", inh, f.where(c), construct=f.ident, text="timeout end_eject")

    # ------------------------------------------------------------- PAIR-6
    bch = repo.cls(BC, "BallCountHandler")
    f = bch.methods["_run"]
    chk.analysed(f)
    cfg = f.cfg()
    acq = [n for n in cfg.nodes_where(lambda n: n.kind == "stmt" and "self._is_counting.acquire()" in n.text(200))]
    rel = [n.id for n, c in cfg.calls_named("release") if src(c.func.value) == "self._is_counting"]
    chk.need(acq, "PAIR-6", "the counting loop takes the count lock", f)
    for a in acq:
        w = cfg.path_avoiding(a.id, _loop_heads(cfg)[:1] + [cfg.exit.id], rel, ignore_exc=True)
        chk.ob("PAIR-6", "BallCountHandler._run releases the count lock on every path of an iteration", w is None and bool(rel), f.where(a.ast),
               path=cfg.fmt_path(w, BC) if w else None, construct=f.ident, text="count lock not released")
    cv = [n.id for n, c in cfg.calls_named("set") if src(c.func.value) == "self._count_valid"]
    for a in acq:
        w = cfg.path_avoiding(a.id, _loop_heads(cfg)[:1], cv, ignore_exc=True)
        chk.ob("PAIR-6", "every recount marks the count valid (waiters of wait_for_count_is_valid are released)", w is None and bool(cv), f.where(a.ast),
               construct=f.ident, text="count_valid not set")
    s_ = bch.methods["start_eject"]
    e_ = bch.methods["end_eject"]
    chk.analysed(s_, e_)
    ok = any("self._is_counting.acquire()" in src(x) for x in ast.walk(s_.node) if isinstance(x, ast.Await)) and \
        not any(call_attr(c) == "release" for c in s_.calls())
    chk.ob("PAIR-6", "start_eject takes the count lock (held while ejecting)", ok, s_.where(), construct=s_.ident, text="start_eject acquire")
    ecfg = e_.cfg()
    r2 = [n.id for n, c in ecfg.calls_named("release") if src(c.func.value) == "self._is_counting"]
    i2 = [n.id for n, c in ecfg.calls_named("end_eject") if "incoming_balls_handler" in src(c.func.value)]
    c2 = [n.id for n, c in ecfg.calls_named("clear") if src(c.func.value) == "self._eject_started"]
    for what, ids in (("releases the count lock", r2), ("releases the incoming-timeout lock", i2), ("clears the eject-started flag", c2)):
        w = ecfg.must_pass(ecfg.entry.id, ids)
        chk.ob("PAIR-6", "end_eject %s on every path" % what, bool(ids) and w is None, e_.where(), construct=e_.ident, text="end_eject " + what)
    i1 = any("incoming_balls_handler.start_eject()" in src(x) for x in ast.walk(s_.node) if isinstance(x, ast.Await))
    chk.ob("PAIR-6", "start_eject also takes the incoming-timeout lock", i1, s_.where(), construct=s_.ident, text="start_eject timeout lock")
    dec = [n for n, c in ecfg.calls_named("_set_ball_count")]
    ok = bool(dec) and all(ecfg.guards_at(n.id).get("ball_left") is True for n in dec) and \
        all("self._ball_count - 1" in src(c.args[0]) for n, c in ecfg.calls_named("_set_ball_count"))
    chk.ob("PAIR-6", "the count drops by one exactly when the ball left", ok, e_.where(), construct=e_.ident, text="end_eject count")
    ih = repo.cls(IB, "IncomingBallsHandler")
    f = ih.methods["_run"]
    chk.analysed(f)
    cfg = f.cfg()
    acq = [n for n in cfg.nodes_where(lambda n: n.kind == "stmt" and "self._is_timeouting.acquire()" in n.text(200))]
    rel = [n.id for n, c in cfg.calls_named("release") if src(c.func.value) == "self._is_timeouting"]
    for a in acq:
        w = cfg.path_avoiding(a.id, _loop_heads(cfg)[:1] + [cfg.exit.id], rel, ignore_exc=True)
        chk.ob("PAIR-6", "IncomingBallsHandler._run releases the timeout lock in every iteration", w is None and bool(rel), f.where(a.ast),
               path=cfg.fmt_path(w, IB) if w else None, construct=f.ident, text="timeout lock not released")
    ok = "self._is_timeouting.acquire()" in src(ih.methods["start_eject"].node) and "self._is_timeouting.release()" in src(ih.methods["end_eject"].node)
    chk.ob("PAIR-6", "incoming handler start_eject/end_eject acquire/release the same lock", ok, ih.methods["start_eject"].where(),
           construct=ih.ident, text="timeout lock pair")
    chk.floor("PAIR-6", 6)

    # ------------------------------------------------------------- FUT-1
    f = repo.func(OB, OH + "._ejecting")
    chk.analysed(f)
    cfg = f.cfg()
    for attr in ("_eject_future",):
        creates = [n for n in cfg.nodes_where(lambda n: n.kind == "stmt" and isinstance(n.ast, ast.Assign) and src(n.ast.targets[0]) == "self." + attr
                                              and "Future(" in src(n.ast.value))]
        chk.ob("FUT-1", "the future awaited by upstream devices (%s) is created per eject attempt" % attr, bool(creates), f.where(), construct=f.ident,
               text="future create " + attr)
        resolves = [n.id for n, c in cfg.calls_named("set_result", "set_exception", "cancel") if src(c.func.value) == "self." + attr]
        drops = [n.id for n in cfg.nodes_where(lambda n: n.kind == "stmt" and isinstance(n.ast, ast.Assign) and src(n.ast.targets[0]) == "self." + attr)]
        for c_ in creates:
            stops = [cfg.exit.id] + [d for d in drops if d != c_.id] + [c_.id]
            w = cfg.path_avoiding(c_.id, stops, resolves, ignore_exc=True)
            chk.ob("FUT-1", "self.%s is resolved before it is replaced, cleared or the coroutine returns" % attr, w is None and bool(resolves),
                   f.where(c_.ast), path=cfg.fmt_path(w, OB) if w else None,
                   detail="an upstream device awaiting the old future (wait_for_ready_to_receive) is never woken after a failed attempt",
                   construct=f.ident, text="future %s dropped unresolved" % attr)
    g = repo.func(OB, OH + ".wait_for_ready_to_receive")
    ok = any(isinstance(x, ast.Await) and src(x.value) == "self._eject_future" for x in ast.walk(g.node))
    chk.ob("FUT-1", "upstream devices wait on that very future", ok, g.where(), construct=g.ident, text="await eject future")

    # ------------------------------------------------------------- DOM-11
    ej = [(n, c) for n, c in cfg.calls_named("_eject_ball")]
    chk.need(ej, "DOM-11", "_ejecting fires the ball through _eject_ball", f)
    en = ej[0][0]
    fails = [(n, c) for n, c in cfg.calls_named("_failed_eject")]
    retry = [n.id for n, c in fails if len(c.args) >= 3 and src(c.args[2]) == "True"]
    final = [n.id for n, c in fails if len(c.args) >= 3 and src(c.args[2]) == "False"]
    succ = [b.id for b in cfg.nodes if b.kind == "branch" and src(b.ast) == "result" and b.value is True]
    head = _loop_heads(cfg)[:1]
    w = cfg.path_avoiding(en.id, head, retry + succ, ignore_exc=True)
    chk.ob("DOM-11", "a failed eject loops back only after reporting ball_eject_failed(retry=True)", w is None and bool(retry), f.where(en.ast),
           path=cfg.fmt_path(w, OB) if w else None, construct=f.ident, text="silent retry")
    rets = [n for n in cfg.nodes_where(lambda n: n.kind == "stmt" and isinstance(n.ast, ast.Return) and n.ast.value is not None and src(n.ast.value) == "False")]
    for r in rets:
        gd = cfg.guards_at(r.id)
        ok = any("max_tries" in k and v is True for k, v in gd.items())
        chk.ob("DOM-11", "the eject loop gives up only when max_tries is exhausted", ok, f.where(r.ast), detail="guards %s" % sorted(gd.items()),
               construct=f.ident, text="give up guard")
        pre = cfg.reachable([cfg.entry.id])
        brk = [n.id for n, c in cfg.calls_named("post") if "_broken" in src(c)]
        st = [n.id for n, c in cfg.calls_named("set_eject_state") if "eject_broken" in src(c)]
        ok = bool(brk) and bool(st) and bool(final) and all(cfg.dominates(x, r.id) for x in brk + st + final)
        chk.ob("DOM-11", "giving up sets eject_broken, reports the failure (retry=False) and posts balldevice_<name>_broken", ok, f.where(r.ast),
               construct=f.ident, text="broken report")
    inc = [n for n in cfg.nodes_where(lambda n: n.kind == "stmt" and isinstance(n.ast, ast.AugAssign) and src(n.ast.target) == "eject_try")]
    ok = len(inc) == 1 and const_value(inc[0].ast.value) == 1 and cfg.dominates(en.id, inc[0].id) and cfg.guards_at(inc[0].id).get("result") is False
    chk.ob("DOM-11", "the attempt counter grows by one per failed attempt", ok, f.where(), construct=f.ident, text="attempt counter")
    cmpx = [x for x in ast.walk(f.node) if isinstance(x, ast.Compare) and "max_tries" in src(x) and "eject_try" in src(x)]
    ok = bool(cmpx) and src(cmpx[0]).replace(" ", "") == "eject_try>=eject_request.max_tries"
    chk.ob("DOM-11", "max_tries attempts are made (eject_try >= max_tries)", ok, f.where(), detail=src(cmpx[0]) if cmpx else "", construct=f.ident,
           text="max tries compare")
    chk.floor("DOM-11", 3)

    # ------------------------------------------------------------- DOM-12
    f = repo.func(BD, "BallDevice._setup_or_queue_eject_to_target")
    chk.analysed(f)
    cfg = f.cfg()
    app = [(n, c) for n, c in cfg.calls_named("append", "appendleft") if src(c.func.value) == "self._ball_requests"]
    chk.ob("DOM-12", "a request that cannot be served is queued", bool(app), f.where(), construct=f.ident, text="queue request")
    for n, c in app:
        gd = cfg.guards_at(n.id)
        ok = gd.get("path") is False
        chk.ob("DOM-12", "a request is queued only when no ball is available on any path to this device", ok, f.where(c),
               detail="guards %s" % sorted(gd.items()), construct=f.ident, text="queue guard")
        chk.ob("DOM-12", "requests are served in arrival order (append + popleft)", call_attr(c) == "append", f.where(c), construct=f.ident,
               text="queue end")
        ok = isinstance(c.args[0], ast.Tuple) and [src(e) for e in c.args[0].elts] == ["target", "player_controlled"]
        chk.ob("DOM-12", "the queued request keeps (target, player_controlled)", ok, f.where(c), construct=f.ident, text="queued tuple")
    ch = [(n, c) for n, c in cfg.calls_named("setup_eject_chain")]
    ok = bool(ch) and cfg.must_pass(cfg.entry.id, [n.id for n, _ in ch] + [n.id for n, _ in app], ends=[cfg.exit.id]) is None
    chk.ob("DOM-12", "every request is either started (eject chain) or queued", ok, f.where(), construct=f.ident, text="start or queue")
    g = repo.func(BD, "BallDevice._source_device_balls_available")
    chk.analysed(g)
    gcfg = g.cfg()
    pops = [(n, c) for n, c in gcfg.calls_named("popleft", "pop") if src(c.func.value) == "self._ball_requests"]
    rs = [(n, c) for n, c in gcfg.calls_named("_setup_or_queue_eject_to_target")]
    ok = bool(pops) and bool(rs) and call_attr(pops[0][1]) == "popleft" and gcfg.dominates(pops[0][0].id, rs[0][0].id) and \
        all(gcfg.guards_at(n.id).get("self._ball_requests") is True or gcfg.guards_at(n.id).get("not self._ball_requests") is False for n, c in pops)
    chk.ob("DOM-12", "when balls become available the oldest queued request is re-served", ok, g.where(), construct=g.ident, text="re-serve")
    regs = [u for u in idx.uses("_source_device_balls_available") if u.call is None and isinstance(u.parent, ast.Call) and
            call_attr(u.parent) == "add_handler"]
    ok = bool(regs) and any("balldevice_balls_available" in src(u.parent) for u in regs)
    chk.ob("DOM-12", "the re-serve handler listens on balldevice_balls_available", ok, g.where(), construct=g.ident, text="handler registered")
    posts = [u for u in idx.uses("post_boolean") if u.call is not None and "balldevice_balls_available" in src(u.call)]
    scopes = {u.scope for u in posts}
    chk.ob("DOM-12", "new balls and new eject chains announce balls_available", {"BallDevice._balls_added_callback", "BallDevice.setup_eject_chain"} <= scopes,
           g.where(), detail="posted in %s" % sorted(scopes), construct=BD + "::balls_available", text="balls_available posters")

    _requests_sized_by_unclaimed(chk, repo)
    _resolve_incoming(chk, repo)
    _ball_save_conservation(chk, repo)
    _claimed_vs_physical(chk, repo)
    _bounded_waits(chk, repo)
    _wakeups(chk, repo)
    _request_loop_and_self_cancel(chk, repo)
    _actuation_and_playfield_requests(chk, repo)
    _claims_follow_the_balls(chk, repo)
    _tilt_waiter_and_delayed_saves(chk, repo)

    # ------------------------------------------------------------- BOOL-1
    n_h = 0
    for name in ("add_handler", "add_mode_event_handler"):
        for u in idx.uses(name):
            if u.call is None or not u.call.args:
                continue
            ev = u.call.args[0] if not kwarg(u.call, "event") else kwarg(u.call, "event")
            if not (isinstance(ev, ast.Constant) and ev.value == "balldevice_balls_available"):
                continue
            h = u.call.args[1] if len(u.call.args) > 1 else kwarg(u.call, "handler")
            if h is None or not isinstance(h, ast.Attribute) or dotted(h.value) != "self" or u.cls is None:
                continue
            c = u.module.classes.get(u.cls)
            hm = repo.lookup_method(c, h.attr) if c else None
            if hm is None:
                continue
            n_h += 1
            chk.analysed(hm)
            bad = [r for r in walk_local(hm.node) if isinstance(r, ast.Return) and r.value is not None and
                   not (isinstance(r.value, ast.Constant) and r.value.value in (None, True))]
            chk.ob("BOOL-1", "%s (handler of the broadcast boolean event balldevice_balls_available) never returns a veto" % hm.qualname, not bad,
                   hm.where(bad[0]) if bad else hm.where(),
                   detail="post_boolean stops at the first handler returning False: devices registered later never learn that balls are available",
                   construct=hm.ident, text="handler returns a value")
    chk.expect(n_h >= 1, "C05: handlers of balldevice_balls_available lost")


def _request_loop_and_self_cancel(chk, repo):
    """REQ-5: BallDevice.eject(balls=N) makes N requests: each trip of the loop over range(balls) starts or queues one request, and the loop
    is never left early (a request that finds no ball is queued, the following ones must be queued as well).
    CANCEL-5: a handler coroutine that cancels its own task does so last: the next await after task.cancel() raises CancelledError, and
    whatever the coroutine still meant to do (report the device broken) never happens."""
    f = repo.func(BD, "BallDevice.eject")
    chk.analysed(f)
    cfg = f.cfg()
    loops = [x for x in walk_local(f.node) if isinstance(x, ast.For)]
    chk.need(len(loops) == 1, "REQ-5", "BallDevice.eject loops over the requested balls", f)
    lp = loops[0]
    it = lp.iter
    ok = isinstance(it, ast.Call) and isinstance(it.func, ast.Name) and it.func.id == "range" and [src(a) for a in it.args] == ["balls"]
    chk.ob("REQ-5", "one trip per requested ball (range(balls))", ok, f.where(lp), detail=src(it), construct=f.ident, text="request loop bound")
    leaves = [x for st in lp.body for x in ast.walk(st) if isinstance(x, (ast.Break, ast.Return, ast.Raise))]
    chk.ob("REQ-5", "the request loop is never left early (requests that find no ball are queued, one per remaining ball)", not leaves,
           f.where(leaves[0]) if leaves else f.where(lp), construct=f.ident, text="request loop left early")
    head = [h for h in cfg.nodes if h.kind in ("loop", "join") and h.ast is lp]
    cs = [(n, c) for n, c in cfg.calls_named("_setup_or_queue_eject_to_target")]
    ok = len({id(c) for _, c in cs}) == 1 and bool(head) and [src(a) for a in cs[0][1].args] == ["target"] and \
        all(not {g for g in inloop_guards(cfg, n.id, head[0].id) if "_setup_or_queue_eject_to_target" not in g[0]} for n, _ in cs)
    chk.ob("REQ-5", "every trip starts or queues one request for the target", ok, f.where(), construct=f.ident, text="request per trip")
    ee = repo.func(BD, "BallDevice.event_eject")
    chk.analysed(ee)
    c_ = [c for c in ee.calls() if call_attr(c) == "eject" and dotted(c.func.value) == "self"]
    ok = len(c_) == 1 and [src(a) for a in c_[0].args] + [(k.arg, src(k.value)) for k in c_[0].keywords] in (["balls", "target"], [("balls", "balls"), ("target", "target")])
    chk.ob("REQ-5", "the eject control event hands balls and target on", ok, ee.where(), construct=ee.ident, text="event_eject forwards")

    # SEARCH-5: the searches that decide whether a request can be served look at every candidate before they say no
    for qn, callee in (("BallDevice.find_one_available_ball", "find_one_available_ball"), ("BallDevice.find_path_to_target", "find_path_to_target")):
        sf = repo.func(BD, qn)
        chk.analysed(sf)
        scfg = sf.cfg()
        for h in [h for h in scfg.nodes if h.kind == "loop"]:
            rec = [(n, c) for n, c in scfg.calls_named(callee) if any(y is c for y in ast.walk(h.ast))]
            if not rec:
                continue
            neg = [n for n in scfg.nodes if n.kind == "stmt" and isinstance(n.ast, ast.Return) and n.ast.value is not None and const_value(n.ast.value) is False and
                   any(y is n.ast for y in ast.walk(h.ast))]
            chk.ob("SEARCH-5", "%s says no only after every candidate of `%s` was asked" % (qn, src(h.ast.iter)[:40]), not neg, sf.where(neg[0].ast) if neg else sf.where(h.ast),
                   detail="a negative answer inside the loop ends the search at the first candidate that has nothing", construct=sf.ident,
                   text="search gives up inside the loop over " + src(h.ast.iter)[:40])
            chk.ob("SEARCH-5", "%s asks each candidate, handing on the path so far" % qn, len(rec) >= 1 and all(any(k.arg == "path" or True for k in c.keywords) or c.args for n, c in rec),
                   sf.where(rec[0][1]), construct=sf.ident, text="search recursion", nontrivial=False)

    # UNIT-5: the eject time-out of a request is the configured eject_timeouts entry (ms) in seconds: every site that fills OutgoingBall.eject_timeout
    # scales by 1/1000 (siblings: setup_eject_chain_next_hop and the idle mechanical eject); the waits that consume it take seconds
    n_t = 0
    for m_ in repo.cls(BD, "BallDevice").methods.values():
        for x in walk_local(m_.node):
            if isinstance(x, ast.Assign) and isinstance(x.targets[0], ast.Attribute) and x.targets[0].attr == "eject_timeout":
                n_t += 1
                chk.analysed(m_)
                v = x.value
                ok = isinstance(v, ast.BinOp) and ((isinstance(v.op, ast.Div) and const_value(v.right) in (1000, 1000.0)) or
                                                   (isinstance(v.op, ast.Mult) and const_value(v.right) == 0.001)) and \
                    src(v.left).replace('"', "'").startswith("self.config['eject_timeouts'][")
                chk.ob("UNIT-5", "BallDevice.%s fills the request's eject time-out with the configured ms value in seconds (/ 1000)" % m_.name, ok, m_.where(x),
                       detail=src(v), construct=m_.ident, text="eject_timeout unit in " + m_.name)
    chk.ob("UNIT-5", "eject time-out sites examined (%d)" % n_t, n_t >= 2, BD + ":1", nontrivial=False)

    n_c = 0
    for rel, m in sorted(repo.modules.items()):
        if not rel.startswith("mpf/devices/ball_device/"):
            continue
        for fn in m.all_funcs():
            if not isinstance(fn.node, ast.AsyncFunctionDef):
                continue
            fc = fn.cfg()
            for n, c in fc.calls_named("cancel"):
                if src(c.func.value) != "self._task":
                    continue
                n_c += 1
                chk.analysed(fn)
                after = fc.reachable([s_ for s_ in fc.succs(n.id, True)], ignore_exc=True)
                aw = [fc.nodes[i] for i in after if fc.nodes[i].kind != "branch" and fc.nodes[i].ast is not None and
                      any(isinstance(y, ast.Await) for y in (ast.walk(fc.nodes[i].ast) if fc.nodes[i].kind == "stmt" and not
                                                              isinstance(fc.nodes[i].ast, (ast.For, ast.While, ast.If, ast.Try, ast.With, ast.AsyncWith, ast.AsyncFor)) else []))]
                chk.ob("CANCEL-5", "%s cancels its own task last: nothing is awaited after self._task.cancel()" % fn.qualname, not aw,
                       fn.where(c), detail="awaited afterwards: %s" % [short(a.ast, 50) for a in aw[:3]], construct=fn.ident, text="await after self-cancel")
    chk.expect(n_c >= 1, "C05: the eject loop's self-cancel vanished")


def _actuation_and_playfield_requests(chk, repo):
    """ACT-5: every attempt acts on the mechanism.  In each coil-driven ejector, every path through eject_one_ball that returns passes a
    call that drives the coil (pulse / enable / timed_enable / the hold coil's release); the event ejector posts every configured event.
    An attempt that does nothing is still reported as an attempt (the handler waits, times out and retries): the device looks busy
    forever and the ball is never delivered.
    REQ-5 (playfield): Playfield.add_ball(balls=N) requests N balls on both routes: the direct route hands `balls` on, the
    player-controlled route asks once per ball (the one-ball API takes no count)."""
    base = repo.cls("mpf/devices/ball_device/ball_device_ejector.py", "BallDeviceEjector")
    DRIVE = {"pulse", "enable", "timed_enable", "disable", "_disable_hold_coil"}
    k = 0
    for c in sorted(repo.subclasses(base), key=lambda c: c.ident):
        f = c.methods.get("eject_one_ball")
        if f is None:
            continue
        chk.analysed(f)
        cfg = f.cfg()
        k += 1
        posts = [h for h in cfg.nodes if h.kind == "loop" and any(isinstance(x, ast.Call) and call_attr(x) == "post" for st in h.ast.body for x in ast.walk(st))]
        if posts and not any(call_attr(x) in DRIVE for x in f.calls()):
            h = posts[0]
            ok = src(h.ast.iter).startswith("self.config[") and not early_exits(cfg, h) and cfg.must_pass(cfg.entry.id, [h.id]) is None
            chk.ob("ACT-5", "%s.eject_one_ball posts every configured eject event" % c.name, ok, f.where(h.ast), construct=f.ident,
                   text="event ejector posts all events")
            continue
        drive = [n.id for n in cfg.nodes if n.kind == "stmt" and any(call_attr(x) in DRIVE for x in n.calls())]
        path = cfg.must_pass(cfg.entry.id, drive) if drive else [cfg.entry.id]
        chk.ob("ACT-5", "every returning path of %s.eject_one_ball drives the coil" % c.name, path is None, f.where(), construct=f.ident,
               detail="an attempt that fires nothing is still counted and timed: the handler retries forever and no ball leaves",
               text="attempt drives the coil", path=cfg.fmt_path(path, f) if path and len(path) > 1 else None, nontrivial=True)
    chk.floor("ACT-5", 4)
    chk.expect(k >= 4, "C05: expected the four ejector implementations (pulse, enable, hold, event), found %d" % k)

    f = repo.func("mpf/devices/playfield.py", "Playfield.add_ball")
    chk.analysed(f)
    cfg = f.cfg()
    one = [(n, c) for n, c in cfg.calls_named("setup_player_controlled_eject")]
    many = [(n, c) for n, c in cfg.calls_named("eject")]
    chk.need(one and many, "REQ-5", "Playfield.add_ball asks the source device on both routes (eject / setup_player_controlled_eject)", f)
    for n, c in many:
        b = kwarg(c, "balls")
        chk.ob("REQ-5", "the direct route hands the requested number of balls on", b is not None and src(b) == "balls", f.where(c),
               construct=f.ident, text="add_ball eject(balls=balls)")
    for n, c in one:
        heads = [h for h in cfg.nodes if h.kind == "loop" and any(y is c for st in h.ast.body for y in ast.walk(st))]
        ok = False
        if heads:
            h = heads[-1]
            it = h.ast.iter
            ok = isinstance(it, ast.Call) and isinstance(it.func, ast.Name) and it.func.id == "range" and [src(a) for a in it.args] == ["balls"] \
                and not inloop_guards(cfg, n.id, h.id) and not early_exits(cfg, h)
        chk.ob("REQ-5", "the player-controlled route asks once per requested ball (loop over range(balls))", ok, f.where(c), construct=f.ident,
               detail="setup_player_controlled_eject sets up one eject; without the loop add_ball(balls=N) delivers one ball and reports success",
               text="add_ball player-controlled once per ball")


def _claims_follow_the_balls(chk, repo):
    """CLAIMS-5: requests are sized by what a device says it has (available_balls) and by what a multiball says it adds (balls_added_live);
    both follow the balls on every path.  A ball reported lost lowers the device's available balls whatever state the device is in (the
    report after an eject comes in state ball_left): a phantom available ball makes a later request wait for ever in an empty device.  A
    multiball that counts the balls it replaces into play also asks for them - under both count policies."""
    f = repo.func(BD, "BallDevice.lost_idle_ball")
    chk.analysed(f)
    cfg = f.cfg()
    dec = [n.id for n in cfg.nodes if n.kind == "stmt" and isinstance(n.ast, ast.AugAssign) and src(n.ast.target) == "self.available_balls" and isinstance(n.ast.op, ast.Sub) and
           src(n.ast.value) == "1"]
    w = cfg.must_pass(cfg.entry.id, dec) if dec else [cfg.entry.id]
    chk.ob("CLAIMS-5", "a ball reported lost lowers the device's available balls on every path (whatever the device state)", w is None, f.where(), construct=f.ident,
           text="lost ball still available", path=cfg.fmt_path(w, f) if w and len(w) > 1 else None, nontrivial=True)
    MB = "mpf/devices/multiball.py"
    g = repo.func(MB, "Multiball._handle_balls_in_play_and_balls_live")
    chk.analysed(g)
    gcfg = g.cfg()
    rep = [n for n in gcfg.nodes if n.kind == "stmt" and isinstance(n.ast, ast.AugAssign) and src(n.ast.target) == "self.balls_added_live" and isinstance(n.ast.op, ast.Add) and
           src(n.ast.value) == "balls_to_replace"]
    chk.need(rep, "CLAIMS-5", "the multiball asks for the balls it replaces (balls_added_live += balls_to_replace)", g)
    w = gcfg.must_pass(gcfg.entry.id, [n.id for n in rep])
    chk.ob("CLAIMS-5", "the replaced balls are added to the multiball's request under both count policies (total and add)", w is None, g.where(rep[0].ast), construct=g.ident,
           detail="guards %s" % sorted(gcfg.guards_at(rep[0].id).items()), text="replaced balls requested", path=gcfg.fmt_path(w, g) if w else None, nontrivial=True)


def _tilt_waiter_and_delayed_saves(chk, repo):
    """WAIT-5: a ball that waits for the player in a device with an ejector is not left there by a tilt: every player-controlled eject of such a
    device also waits for `tilt` (launch button and mechanical plunger alike) - the wait has no time-out, so without it the request is never
    served and the device never returns to idle.
    SAVE-5 (delay): each delayed delivery of saved balls is a delay of its own (anonymous): under a fixed name a second save inside the eject
    delay would replace the first pending delivery and one saved ball would never be requested."""
    from sa.cfg import canon_set as _cs, canon_fact as _cf
    from sa.helpers import positive as _pos
    f = repo.func(OB, "OutgoingBallsHandler._eject_ball")
    chk.analysed(f)
    cfg = f.cfg()
    tw = [n for n in cfg.nodes if n.kind == "stmt" and isinstance(n.ast, ast.Assign) and src(n.ast.targets[0]) == "tilt" and isinstance(n.ast.value, ast.Call) and
          call_attr(n.ast.value) == "wait_for_event" and n.ast.value.args and const_value(n.ast.value.args[0]) == "tilt"]
    chk.need(tw, "WAIT-5", "a player-controlled eject also waits for the tilt event", f)
    for n in tw:
        got = _pos(set(_cs(cfg.guards_at(n.id))))
        want = _pos({_cf("self.ball_device.ejector", True), _cf("eject_request.player_controlled", True)})
        chk.ob("WAIT-5", "every player-controlled eject of a device with an ejector waits for tilt (nothing else decides)", got == want, f.where(n.ast),
               detail="tilt waiter under %s" % sorted(got), construct=f.ident, text="tilt waiter condition")
    apps = [m for m, c in cfg.calls_named("append") if src(c.func.value) == "waiters" and c.args and src(c.args[0]) == "tilt"]
    ok = bool(apps) and all(cfg.must_pass(n.id, [a.id for a in apps]) is None for n in tw)
    chk.ob("WAIT-5", "the tilt waiter joins the set the eject waits on", ok, f.where(), construct=f.ident, text="tilt waiter awaited")
    g = repo.func("mpf/devices/ball_save.py", "BallSave._schedule_balls")
    chk.analysed(g)
    adds = [c for c in g.calls() if call_attr(c) in ("add", "reset", "add_if_doesnt_exist") and "delay" in src(c.func.value) and "_add_balls" in src(c)]
    chk.need(adds, "SAVE-5", "BallSave._schedule_balls delays the delivery by eject_delay", g)
    for c in adds:
        named = kwarg(c, "name") is not None or call_attr(c) != "add" or len(c.args) >= 3
        chk.ob("SAVE-5", "each delayed delivery of saved balls is a delay of its own (anonymous add)", not named, g.where(c), detail=src(c)[:90], construct=g.ident,
               text="delayed save delivery named")


def _requests_sized_by_unclaimed(chk, repo):
    """FLOW-5c: whoever asks a ball device to give up balls sizes the request by the balls that are not already claimed
    (`available_balls`), never by the physical count (`balls`): a claimed ball cannot be delivered twice, the surplus request
    would sit in the device's queue for ever.  DISCARD-1: the result of a side-effect free query of the ball-device package
    (path searches, readiness tests) is never thrown away."""
    n = 0
    for f in repo.all_funcs("mpf/devices/"):
        if f.relpath.startswith("mpf/devices/ball_device/"):
            continue
        for c in [x for x in ast.walk(f.node) if isinstance(x, ast.Call)]:
            dev = cnt = None
            if call_attr(c) == "add_ball" and kwarg(c, "source_device") is not None:
                dev, cnt = kwarg(c, "source_device"), kwarg(c, "balls") or (c.args[0] if c.args else None)
            elif call_attr(c) == "eject" and isinstance(c.func, ast.Attribute) and isinstance(c.func.value, ast.Name) and (c.args or kwarg(c, "balls") is not None):
                dev, cnt = c.func.value, (kwarg(c, "balls") or c.args[0])
            if dev is None or cnt is None or not isinstance(dev, ast.Name):
                continue
            exprs = [cnt]
            if isinstance(cnt, ast.Name):
                exprs += [a.value for a in ast.walk(f.node) if isinstance(a, ast.Assign) and any(isinstance(t, ast.Name) and t.id == cnt.id for t in a.targets)]
            reads = {x.attr for e in exprs for x in ast.walk(e) if isinstance(x, ast.Attribute) and isinstance(x.value, ast.Name) and x.value.id == dev.id}
            if not reads & {"balls", "available_balls"}:
                continue
            n += 1
            chk.analysed(f)
            chk.ob("FLOW-5c", "%s sizes its request to `%s` by the device's unclaimed balls" % (f.qualname, dev.id), "balls" not in reads,
                   f.where(c), detail="reads %s of the device" % sorted(reads), construct=f.ident, text="request sized by %s.balls" % dev.id)
    chk.ob("FLOW-5c", "request-sizing sites examined", n >= 3, "mpf/devices:1", detail="%d sites" % n, nontrivial=False)
    from sa.helpers import query_methods, discarded_query_calls
    q = query_methods(repo, "mpf/devices/ball_device/")
    q2 = query_methods(repo, "mpf/devices/playfield")
    q.update(q2)
    k = 0
    for f in list(repo.all_funcs("mpf/devices/ball_device/")) + list(repo.all_funcs("mpf/devices/playfield")):
        k += 1
        for st, name in discarded_query_calls(repo, f, q):
            chk.ob("DISCARD-1", "the answer of the query `%s` is used" % name, False, f.where(st),
                   detail="`%s` only computes an answer; as a statement its result is dropped (e.g. a lost `return` in a recursive search)" % short(st, 70),
                   construct=f.ident, text="discarded result of %s in %s" % (name, f.name))
    chk.ob("DISCARD-1", "ball-device functions examined for discarded query results (%d queries known)" % len(q), k >= 40 and len(q) >= 10,
           "mpf/devices/ball_device:1", nontrivial=False)


def _resolve_incoming(chk, repo):
    oh = repo.cls(OB, OH)
    # ------------------------------------------------------------- RESOLVE-1: the ball announced at the target is resolved on every outcome
    # (a target that keeps an unresolved IncomingBall never returns to idle; an eject reported as done without success never gets retried)
    lc = oh.methods["_handle_late_confirm_or_missing"]
    chk.analysed(lc)
    cfg = lc.cfg()
    rets = [n for n in cfg.nodes if n.kind == "stmt" and isinstance(n.ast, ast.Return)]
    dna = [n.id for n, c in cfg.calls_named("did_not_arrive") if src(c.func.value) == "incoming_ball_at_target"]
    succ = [n.id for n, c in cfg.calls_named("_handle_eject_success") if [src(a) for a in c.args] == ["eject_request"]]
    pfc = [n.id for n, c in cfg.calls_named("_handle_playfield_timeout_confirm")]
    lost = [(n, c) for n, c in cfg.calls_named("lost_ejected_ball")]
    fail = [(n, c) for n, c in cfg.calls_named("_failed_eject")]
    chk.need(bool(rets) and bool(dna) and bool(succ), "RESOLVE-1", "late-confirm handler has outcomes, did_not_arrive and success calls", lc)
    n_f = n_t = 0
    for r in rets:
        v = r.ast.value
        val = v.value if isinstance(v, ast.Constant) else None
        if val is False:
            n_f += 1
            w = cfg.path_avoiding(cfg.entry.id, [r.id], dna)
            chk.ob("RESOLVE-1", "a failed eject (return False) first tells the target that the announced ball will not arrive", w is None, lc.where(r.ast),
                   path=cfg.fmt_path(w, OB) if w else None, construct=lc.ident, text="failed outcome resolves incoming ball")
            w = None
            for sn in succ:
                if r.id in cfg.reachable([sn]):
                    w = sn
            chk.ob("RESOLVE-1", "an eject reported as successful is never afterwards answered with failure", w is None, lc.where(r.ast), construct=lc.ident,
                   text="failure after success")
        elif val is True:
            n_t += 1
            w = cfg.path_avoiding(cfg.entry.id, [r.id], succ + pfc + [n.id for n, _ in lost])
            chk.ob("RESOLVE-1", "the eject is reported done (return True) only after eject success or after the ball was declared lost", w is None,
                   lc.where(r.ast), path=cfg.fmt_path(w, OB) if w else None, construct=lc.ident, text="done outcome justified")
    chk.ob("RESOLVE-1", "late-confirm outcomes enumerated", n_f >= 2 and n_t >= 3, lc.where(), detail="%d failed, %d done" % (n_f, n_t), nontrivial=False)
    ok = len(lost) == 1 and len(fail) == 1
    if ok:
        ln, lcall = lost[0]
        fn_, fcall = fail[0]
        tgt = kwarg(lcall, "target") or (lcall.args[0] if lcall.args else None)
        ok = tgt is not None and src(tgt) == "eject_request.target" and cfg.path_avoiding(cfg.entry.id, [ln.id], dna) is None and \
            cfg.path_avoiding(cfg.entry.id, [ln.id], [fn_.id]) is None and [src(a) for a in fcall.args] == ["eject_request", "eject_try", "True"]
        h = [n for n in cfg.nodes if n.kind == "except" and n.ast.type is not None and "TimeoutError" in src(n.ast.type)]
        ok = ok and bool(h) and all(cfg.dominates(h[0].id, x) for x in (ln.id, fn_.id))
    chk.ob("RESOLVE-1", "only the ball-missing timeout declares the ball lost: target told, failure reported with retry, loss handled for the eject's target",
           ok, lc.where(), construct=lc.ident, text="lost ball triple")
    al = [n for n in cfg.nodes if n.kind == "stmt" and isinstance(n.ast, ast.Assign) and src(n.ast.targets[0]) == "eject_request.already_left"]
    ok = len(al) == 1 and src(al[0].ast.value) == "False" and any("ball_return_future" in k and v is True for k, v in cfg.guards_at(al[0].id).items())
    chk.ob("RESOLVE-1", "a returned ball clears already_left (the retry waits for it to leave again)", ok, lc.where(), construct=lc.ident,
           text="ball returned clears already_left")
    pc = oh.methods["_handle_playfield_timeout_confirm"]
    chk.analysed(pc)
    cfg = pc.cfg()
    arr = [n.id for n, c in cfg.calls_named("ball_arrived") if src(c.func.value) == "incoming_ball_at_target"]
    succ = [n.id for n, c in cfg.calls_named("_handle_eject_success")]
    for r in [n for n in cfg.nodes if n.kind == "stmt" and isinstance(n.ast, ast.Return)]:
        if isinstance(r.ast.value, ast.Constant) and r.ast.value.value is True:
            ok = bool(arr) and bool(succ) and cfg.path_avoiding(cfg.entry.id, [r.id], arr) is None and cfg.path_avoiding(cfg.entry.id, [r.id], succ) is None
            g = cfg.guards_at(r.id)
            ok = ok and g.get("ball_return_future.done()") is False and g.get("unknown_balls_future.done()") is False
            chk.ob("RESOLVE-1", "a playfield eject is confirmed by timeout only when no ball returned; the announced ball is marked arrived and success posted",
                   ok, pc.where(r.ast), detail=str(g), construct=pc.ident, text="playfield timeout confirm")
    hc = oh.methods["_handle_confirm"]
    chk.analysed(hc)
    cfg = hc.cfg()
    succ = [n.id for n, c in cfg.calls_named("_handle_eject_success")]
    late = [n.id for n, c in cfg.calls_named("_handle_late_confirm_or_missing")]
    for r in [n for n in cfg.nodes if n.kind == "stmt" and isinstance(n.ast, ast.Return)]:
        if isinstance(r.ast.value, ast.Constant) and r.ast.value.value is True:
            ok = cfg.path_avoiding(cfg.entry.id, [r.id], succ) is None
            chk.ob("RESOLVE-1", "a confirmed eject posts eject success before it is reported done", ok, hc.where(r.ast), construct=hc.ident, text="confirm success")
        elif r.id in late:
            h = [n for n in cfg.nodes if n.kind == "except" and n.ast.type is not None and "TimeoutError" in src(n.ast.type)]
            ok = bool(h) and cfg.dominates(h[0].id, r.id)
            chk.ob("RESOLVE-1", "the late-confirm handling decides the outcome exactly when the confirm timed out", ok, hc.where(r.ast), construct=hc.ident,
                   text="late confirm on timeout")
    chk.ob("RESOLVE-1", "a confirm timeout is handed to the late-confirm handling", bool(late), hc.where(), construct=hc.ident, text="late confirm reached")
    chk.floor("RESOLVE-1", 12)


def _bounded_waits(chk, repo):
    """TIMEOUT-5: the wait for the ball to leave is unbounded only where a person fires the ball: the request is player controlled
    *and* this device is operated by hand (mechanical eject or a player-controlled eject event).  Every other wait is bounded by the
    request's eject timeout, so a coil-fired eject that does not leave is noticed, retried and eventually reported."""
    oh = repo.cls(OB, OH)
    f = oh.methods["_eject_ball"]
    cfg = f.cfg()
    sets = [n for n in cfg.nodes if n.kind == "stmt" and isinstance(n.ast, ast.Assign) and src(n.ast.targets[0]) == "timeout"]
    chk.need(sets, "TIMEOUT-5", "_eject_ball chooses a timeout for the ball to leave", f)
    waits = [(n, c) for n, c in cfg.calls_named("any", "first", "wait_for") if kwarg(c, "timeout") is not None and src(kwarg(c, "timeout")) == "timeout"]
    chk.ob("TIMEOUT-5", "the wait for the ball to leave uses the chosen timeout", len(waits) == 1, f.where(), construct=f.ident, text="leave wait uses timeout")
    PC = "eject_request.player_controlled"
    HAND = ("self.ball_device.config['mechanical_eject']", "self.ball_device.config['player_controlled_eject_event']")
    n_un = 0
    for n in sets:
        v = src(n.ast.value)
        if v == "None":
            n_un += 1
            bad = None
            for path, facts in feasible_paths(cfg, cfg.entry.id, [n.id]):
                if not (facts.get(PC) is True and any(facts.get(h) is True for h in HAND)):
                    bad = path
                    break
            chk.ob("TIMEOUT-5", "the ball may take for ever to leave only for a player-controlled request on a hand-operated device", bad is None, f.where(n.ast),
                   path=cfg.fmt_path(bad, OB)[-8:] if bad else None, construct=f.ident, text="unbounded leave wait")
        else:
            chk.ob("TIMEOUT-5", "otherwise the wait is bounded by the request's eject timeout", v == "eject_request.eject_timeout", f.where(n.ast), detail=v,
                   construct=f.ident, text="bounded leave wait " + v)
    chk.ob("TIMEOUT-5", "timeout choices examined", len(sets) >= 2 and n_un == 1, f.where(), detail="%d choices, %d unbounded" % (len(sets), n_un), nontrivial=False)
    hc = oh.methods["_handle_confirm"]
    t = [a for a in walk_local(hc.node) if isinstance(a, ast.Assign) and src(a.targets[0]) == "timeout"]
    w = [c for c in hc.calls() if call_attr(c) in ("first", "any") and kwarg(c, "timeout") is not None]
    ok = len(t) == 1 and src(t[0].value) == "eject_request.eject_timeout" and len(w) == 1 and src(kwarg(w[0], "timeout")) == "timeout"
    chk.ob("TIMEOUT-5", "the wait for the confirmation is bounded by the request's eject timeout", ok, hc.where(), construct=hc.ident, text="confirm wait bounded")
    lc = oh.methods["_handle_late_confirm_or_missing"]
    w = [c for c in lc.calls() if call_attr(c) in ("first", "any") and kwarg(c, "timeout") is not None]
    t = [a for a in walk_local(lc.node) if isinstance(a, ast.Assign) and src(a.targets[0]) == "timeout"]
    ok = len(w) == 1 and src(kwarg(w[0], "timeout")) == "timeout" and len(t) == 1 and \
        src(t[0].value).replace(" ", "") == "self.ball_device.config['ball_missing_timeouts'][eject_request.target]/1000"
    chk.ob("TIMEOUT-5", "the wait for a late confirmation is bounded by the ball-missing timeout of the eject's target (ms -> s)", ok, lc.where(), construct=lc.ident,
           text="late confirm wait bounded")


def _wakeups(chk, repo):
    """WAKE-5: coroutines of the ball devices sleep on futures other code resolves.  Every list of such waiters is resolved completely.
    TIMEOUT-5 (incoming): every announced ball whose timeout passed is removed from the expected balls and reported lost - exactly those."""
    from sa.helpers import waiter_lists, exact_selection
    nf = nr = 0
    for cls in repo.all_classes("mpf/devices/ball_device/"):
        a, b = waiter_lists(chk, "WAKE-5", cls)
        nf += a
        nr += b
    chk.ob("WAKE-5", "waiter lists of the ball-device classes examined", nf >= 2 and nr >= 2, "mpf/devices/ball_device:1", detail="%d lists, %d resolver loops" % (nf, nr),
           nontrivial=False)
    from sa.helpers import consume_after_wake
    consume_after_wake(chk, "WAKE-5", repo.func(BC, "BallCountHandler._run"), "self._revalidate",
                       "a recount requested while the previous count was being handled is not lost")
    consume_after_wake(chk, "WAKE-5", repo.func("mpf/devices/ball_device/switch_counter.py", "SwitchCounter._recount"), "self._trigger_recount",
                       "a recount triggered while counting is done next")
    f = repo.func(IB, "IncomingBallsHandler._run")
    chk.analysed(f)
    cfg = f.cfg()
    app = [(n, c) for n, c in cfg.calls_named("append") if src(c.func.value) == "timeouts"]
    chk.need(len(app) == 1, "TIMEOUT-5", "the incoming-ball watchdog collects the timed-out balls", f)
    n, c = app[0]
    head = [h for h in cfg.nodes if h.kind == "loop" and any(y is c for y in ast.walk(h.ast))]
    chk.need(head, "TIMEOUT-5", "the incoming-ball watchdog scans the expected balls", f)
    h = head[-1]
    v = h.ast.target.id if isinstance(h.ast.target, ast.Name) else "incoming_ball"
    chk.ob("TIMEOUT-5", "the watchdog looks at every expected ball", src(h.ast.iter) in ("self._incoming_balls", "list(self._incoming_balls)", "self._incoming_balls[:]"),
           f.where(h.ast), construct=f.ident, text="watchdog scan range")
    exact_selection(chk, "TIMEOUT-5", "exactly the balls whose timeout passed are taken as lost", f, cfg, n, h, {("%s.is_timeouted" % v, True)},
                    text="timed-out balls collected exactly")
    rm = [(n_, c_) for n_, c_ in cfg.calls_named("remove") if src(c_.func.value) == "self._incoming_balls"]
    lost = [(n_, c_) for n_, c_ in cfg.calls_named("lost_incoming_ball")]
    ok = len(rm) == 1 and len(lost) == 1
    for lst, what in ((rm, "no longer expected"), (lost, "reported lost (path restore)")):
        for n_, c_ in lst:
            lh = [x for x in cfg.nodes if x.kind == "loop" and any(y is c_ for y in ast.walk(x.ast))]
            good = bool(lh) and src(lh[-1].ast.iter) == "timeouts" and not inloop_any_guard(cfg, n_, lh[-1]) and \
                not any(isinstance(y, (ast.Break, ast.Return, ast.Continue)) for y in ast.walk(lh[-1].ast))
            ok = ok and good
    chk.ob("TIMEOUT-5", "every timed-out ball is removed from the expected balls and reported lost, unconditionally", ok, f.where(), construct=f.ident,
           text="timed-out balls handled")
    # a lost ball is replaced whenever the path does not end at the missing-ball target and still holds a ball to hand out: the replacement
    # request (request_ball / eject) depends on the outcomes of cancel_path_if_target_is (False) and find_available_ball_in_path (True) and on
    # nothing else - in particular not on the device's own claim count (a pass-through hop of a longer path has none)
    for nm_, req_ in (("lost_incoming_ball", "request_ball"), ("lost_ejected_ball", "eject")):
        lf_ = repo.func(BD, "BallDevice." + nm_)
        chk.analysed(lf_)
        lcf = lf_.cfg()
        reqs = [n_ for n_, c_ in lcf.calls_named(req_)]
        ok_ = len(reqs) == 1
        g_ = {}
        if ok_:
            g_ = {k: v for k, v in lcf.guards_at(reqs[0].id).items() if isinstance(v, bool) and "is_playfield" not in k}
            ok_ = sorted((k.split("(")[0].split(".")[-1], v) for k, v in g_.items()) == [("cancel_path_if_target_is", False), ("find_available_ball_in_path", True)]
        chk.ob("RESOLVE-1", "BallDevice.%s asks for a replacement exactly when the path was not cancelled and a ball is available in the path "
               "(no further condition)" % nm_, ok_, lf_.where(reqs[0].ast if reqs else None), detail="requested under %s" % sorted(g_.items()),
               construct=lf_.ident, text="replacement request condition in " + nm_)
    if lost:
        sv = kwarg(lost[0][1], "source")
        chk.ob("TIMEOUT-5", "the loss is reported with the ball's own source", sv is not None and src(sv).endswith(".source"), f.where(lost[0][1]), construct=f.ident,
               text="lost ball source")


def inloop_any_guard(cfg, node, head):
    from sa.helpers import inloop_guards
    return bool(inloop_guards(cfg, node.id, head.id))


def _claimed_vs_physical(chk, repo):
    """OWN-5b: a ball device decides what it can serve by `available_balls` (the balls nobody has claimed); the physical count
    (`balls`, `counted_balls`) includes balls that are already promised to somebody.  Inside BallDevice no decision reads the physical
    count (today: no read at all) -- a request served from `balls` hands out a ball twice."""
    bd = repo.cls(BD, "BallDevice")
    n = 0
    for m in bd.methods.values():
        if m.name in ("balls", "capacity", "state"):
            continue
        n += 1
        for x in walk_local(m.node):
            if isinstance(x, ast.Attribute) and isinstance(x.ctx, ast.Load) and x.attr in ("balls", "counted_balls") and isinstance(x.value, (ast.Name, ast.Attribute)) \
                    and not (isinstance(x.value, ast.Attribute) and x.value.attr in ("game",)):
                chk.analysed(m)
                chk.ob("OWN-5", "BallDevice.%s decides by the unclaimed balls (available_balls), not by the physical count" % m.name, False, m.where(x),
                       detail="reads `%s`" % src(x), construct=m.ident, text="physical count read in BallDevice." + m.name)
    chk.ob("OWN-5", "BallDevice methods examined for reads of the physical ball count (%d): none" % n, n >= 30, bd.where(), nontrivial=False)


def _ball_save_conservation(chk, repo):
    """SAVE-5: a saved ball is a ball taken out of the drain and requested again -- one for one.  What the drain handler keeps back
    it schedules; what is scheduled goes to exactly one sink; the pending count accumulates until it is handed over; the hand-over
    requests exactly that many balls (from locks first, the rest from the trough); a mode end flushes what is pending."""
    BSV = "mpf/devices/ball_save.py"
    bs = repo.cls(BSV, "BallSave")
    f = bs.methods["_ball_drain_while_active"]
    chk.analysed(f)
    cfg = f.cfg()
    sch = [(n, c) for n, c in cfg.calls_named("_schedule_balls")]
    rets = [n for n in cfg.nodes if n.kind == "stmt" and isinstance(n.ast, ast.Return) and isinstance(n.ast.value, ast.Dict) and n.ast.value.keys]
    ok = len(sch) == 1 and len(rets) == 1 and len(sch[0][1].args) == 1
    if ok:
        v = src(sch[0][1].args[0])
        d = rets[0].ast.value
        ok = [src(k) for k in d.keys] == ["'balls'"] and src(d.values[0]).replace(" ", "") == "balls-%s" % v and cfg.dominates(sch[0][0].id, rets[0].id)
        asg = [a for a in walk_local(f.node) if isinstance(a, ast.Assign) and src(a.targets[0]) == v]
        ok = ok and len(asg) == 1 and call_attr(asg[0].value) == "_get_number_of_balls_to_save" and [src(a) for a in asg[0].value.args] == ["balls"]
    chk.ob("SAVE-5", "the balls a ball save keeps out of the drain are exactly the balls it schedules for re-delivery", ok, f.where(), construct=f.ident,
           text="drain relay minus scheduled")
    g = bs.methods["_schedule_balls"]
    chk.analysed(g)
    gcfg = g.cfg()
    par = g.node.args.args[1].arg
    sinks = []
    for n in gcfg.nodes:
        if n.kind != "stmt":
            continue
        if isinstance(n.ast, ast.AugAssign) and src(n.ast.target) == "self._scheduled_balls":
            sinks.append((n, "acc", isinstance(n.ast.op, ast.Add) and src(n.ast.value) == par))
        elif isinstance(n.ast, ast.Assign) and any(src(t) == "self._scheduled_balls" for t in n.ast.targets):
            sinks.append((n, "acc", False))
        for c in n.calls():
            if call_attr(c) == "_add_balls":
                sinks.append((n, "now", [src(a) for a in c.args] == [par]))
            elif call_attr(c) in ("add", "reset") and "delay" in src(c.func.value):
                kw = kwarg(c, "balls_to_save")
                sinks.append((n, "delay", kw is not None and src(kw) == par and any(src(a) == "self._add_balls" for a in list(c.args) + [k.value for k in c.keywords])))
    chk.ob("SAVE-5", "scheduled balls go to a delayed request, to the pending count (added to it), or are requested now", len(sinks) == 3 and all(o for _, _, o in sinks)
           and {k for _, k, _ in sinks} == {"acc", "now", "delay"}, g.where(), detail=str([(k, o) for _, k, o in sinks]), construct=g.ident,
           text="schedule sinks " + ",".join("%s:%s" % (k, o) for _, k, o in sinks))
    exits = [n.id for n in gcfg.nodes if n.kind == "exit"]
    w = gcfg.path_avoiding(gcfg.entry.id, exits, [n.id for n, _, _ in sinks])
    chk.ob("SAVE-5", "every path of _schedule_balls puts the balls somewhere", w is None, g.where(), path=gcfg.fmt_path(w, BSV) if w else None, construct=g.ident,
           text="schedule without sink")
    # the pending count: only 0 or += ; handed over before it is reset
    n_st = 0
    for m in bs.methods.values():
        for x in walk_local(m.node):
            tgt = None
            if isinstance(x, ast.Assign) and any(src(t) == "self._scheduled_balls" for t in x.targets):
                tgt = ("=", src(x.value))
            elif isinstance(x, ast.AugAssign) and src(x.target) == "self._scheduled_balls":
                tgt = (type(x.op).__name__, src(x.value))
            if tgt is None:
                continue
            n_st += 1
            ok = tgt == ("=", "0") or tgt[0] == "Add"
            chk.ob("SAVE-5", "the pending ball count is only reset to 0 or added to (%s)" % m.name, ok, m.where(x), detail=str(tgt), construct=m.ident,
                   text="pending count store %s %s in %s" % (tgt[0], tgt[1], m.name))
    chk.expect(n_st >= 3, "C05: ball save pending-count stores lost (%d)" % n_st)
    de = bs.methods["delayed_eject"]
    chk.analysed(de)
    dcfg = de.cfg()
    ho = [(n, c) for n, c in dcfg.calls_named("_add_balls") if [src(a) for a in c.args] == ["self._scheduled_balls"]]
    rs = [n for n in dcfg.nodes if n.kind == "stmt" and isinstance(n.ast, ast.Assign) and src(n.ast.targets[0]) == "self._scheduled_balls" and src(n.ast.value) == "0"]
    ok = len(ho) == 1 and len(rs) == 1 and dcfg.dominates(ho[0][0].id, rs[0].id)
    chk.ob("SAVE-5", "the pending balls are requested before the pending count is reset", ok, de.where(), construct=de.ident, text="hand-over then reset")
    ab = bs.methods["_add_balls"]
    chk.analysed(ab)
    acfg = ab.cfg()
    p2 = ab.node.args.args[1].arg
    reqs = [(n, c) for n, c in acfg.calls_named("add_ball")]
    lock = [(n, c) for n, c in reqs if kwarg(c, "source_device") is not None]
    rest = [(n, c) for n, c in reqs if kwarg(c, "source_device") is None]
    ok = len(lock) == 1 and len(rest) == 1
    if ok:
        lb = kwarg(lock[0][1], "balls")
        acc = [x for x in walk_local(ab.node) if isinstance(x, ast.AugAssign) and isinstance(x.op, ast.Add) and src(x.value) == src(lb)]
        ok = len(acc) == 1 and isinstance(acc[0].target, ast.Name)
        if ok:
            a = acc[0].target.id
            rb = kwarg(rest[0][1], "balls")
            ok = src(rb).replace(" ", "") == "%s-%s" % (p2, a) and acfg.guards_at(rest[0][0].id).get("%s - %s > 0" % (p2, a)) is True
            d = [x for x in walk_local(ab.node) if isinstance(x, ast.Assign) and src(x.targets[0]) == src(lb)]
            ok = ok and len(d) == 1 and src(d[0].value).replace(" ", "") == "max(min(device.available_balls,%s-%s),0)" % (p2, a)
    chk.ob("SAVE-5", "the hand-over requests exactly the scheduled number: from each lock what it has (at most what is still missing), the rest from the trough",
           ok, ab.where(), construct=ab.ident, text="hand-over arithmetic")
    from sa.helpers import split_request
    for rel, qn, tot in (("mpf/devices/multiball.py", "Multiball.start", "self.balls_added_live"),
                         ("mpf/devices/multiball_lock.py", "MultiballLock._request_new_balls", "balls"), (BSV, "BallSave._add_balls", p2)):
        g2 = repo.func(rel, qn)
        chk.analysed(g2)
        split_request(chk, "SAVE-5", g2, tot, "balls promised = balls requested")
    rm = bs.methods["device_removed_from_mode"]
    chk.analysed(rm)
    rcfg = rm.cfg()
    fl = [n for n, c in rcfg.calls_named("delayed_eject")]
    ok = len(fl) == 1 and canon_guard_only(rcfg.guards_at(fl[0].id), "self.config['delayed_eject_events']")
    chk.ob("SAVE-5", "a mode end flushes the pending saved balls (they would otherwise never be requested)", ok, rm.where(), construct=rm.ident,
           text="mode end flush")
    es = bs.methods["early_ball_save"]
    eh = bs.methods["_early_ball_save_drain_handler"]
    chk.analysed(es, eh)
    up = [x for x in walk_local(es.node) if isinstance(x, ast.AugAssign) and src(x.target) == "self.early_saved" and isinstance(x.op, ast.Add) and src(x.value) == "1"]
    sc = [c for c in es.calls() if call_attr(c) == "_schedule_balls" and [src(a) for a in c.args] == ["1"]]
    dn = [x for x in walk_local(eh.node) if isinstance(x, ast.AugAssign) and isinstance(x.op, ast.Sub) and src(x.value) == "1"]
    ok = len(up) == 1 and len(sc) == 1 and sorted(src(x.target) for x in dn) == ["balls", "self.early_saved"]
    chk.ob("SAVE-5", "an early save requests one ball and later swallows exactly one drained ball", ok, es.where(), construct=es.ident, text="early save pairing")


def canon_guard_only(g, text):
    from sa.cfg import canon_set
    items = sorted(canon_set(g))
    return len(items) == 1 and items[0] == (text, True)


def battery():
    from sa.battery import M
    return [
        M("incoming balls sampled once before the waiting loop", BC, "        while True:\n            if not self.counter:\n                raise asyncio.CancelledError\n            free_space = self.counter.capacity - self._ball_count\n            incoming_balls = self.ball_device.incoming_balls_handler.get_num_incoming_balls()\n", "        incoming_balls = self.ball_device.incoming_balls_handler.get_num_incoming_balls()\n        while True:\n            if not self.counter:\n                raise asyncio.CancelledError\n            free_space = self.counter.capacity - self._ball_count\n", "STALE-0"),
        M("launch-button plunger no longer ejects on tilt", OB, "                if eject_request.player_controlled:\n                    tilt = self.machine.events.wait_for_event(\"tilt\")", "                if eject_request.player_controlled and self.ball_device.config['mechanical_eject']:\n                    tilt = self.machine.events.wait_for_event(\"tilt\")", "WAIT-5"),
        M("delayed save delivery under a fixed name", "mpf/devices/ball_save.py", "self.delay.add(self.config['eject_delay'], self._add_balls, balls_to_save=balls_to_save)", "self.delay.add(self.config['eject_delay'], self._add_balls, name='eject_delay', balls_to_save=balls_to_save)", "SAVE-5"),
        M("lost ball stays available unless the device was idle", BD, "            self.warning_log(\"Ball disappeared while idle. This should not normally happen.\")\n        self.available_balls -= 1", "            self.warning_log(\"Ball disappeared while idle. This should not normally happen.\")\n            self.available_balls -= 1", "CLAIMS-5"),
        M("replaced balls requested under the add policy only", "mpf/devices/multiball.py", "            self.balls_live_target = self.machine.game.balls_in_play\n\n        self.balls_added_live += balls_to_replace", "            self.balls_live_target = self.machine.game.balls_in_play\n            self.balls_added_live += balls_to_replace", "CLAIMS-5"),
        M("already-left tracker only ended on success", OB, "                    await self.ball_device.ball_count_handler.end_eject(ball_eject_process, result)\n                    if result:\n                        continue", "                    if result:\n                        await self.ball_device.ball_count_handler.end_eject(ball_eject_process, True)\n                        continue", "PAIR-5"),
        M("timeout leaves tracker open", OB, "                # timeout. ball did not leave. failed\n                await self.ball_device.ball_count_handler.end_eject(ball_eject_process, False)\n                return False", "                # timeout. ball did not leave. failed\n                return False", "PAIR-5"),
        M("cancel does not cancel tracker", OB, "        except asyncio.CancelledError:\n            ball_eject_process.cancel()\n            raise", "        except asyncio.CancelledError:\n            raise", "PAIR-5"),
        M("count lock kept on unreliable count", BC, "            if not self.counter.is_count_unreliable():\n                # otherwise handle balls", "            if self.counter.is_count_unreliable():\n                continue\n            if not self.counter.is_count_unreliable():\n                # otherwise handle balls", "PAIR-6"),
        M("end_eject keeps timeout lock", BC, "        self._is_counting.release()\n        self.ball_device.incoming_balls_handler.end_eject()", "        self._is_counting.release()", "PAIR-6"),
        M("end_eject releases only on success", BC, "        self._eject_started.clear()\n        self._is_counting.release()\n        self.ball_device.incoming_balls_handler.end_eject()", "        self._eject_started.clear()\n        if ball_left:\n            self._is_counting.release()\n        self.ball_device.incoming_balls_handler.end_eject()", "PAIR-6"),
        M("eject future only resolved on success", OB, "            self._eject_future.set_result(result)\n            self._eject_future = None\n            if result:\n                # eject is done. return to main loop\n                return True", "            if result:\n                # eject is done. return to main loop\n                self._eject_future.set_result(result)\n                self._eject_future = None\n                return True", "FUT-1"),
        M("silent retry", OB, "            await self._failed_eject(eject_request, eject_try, True)\n\n    async def _prepare_eject", "\n    async def _prepare_eject", "DOM-11"),
        M("gives up one attempt early", OB, "if eject_request.max_tries and eject_try >= eject_request.max_tries:", "if eject_request.max_tries and eject_try + 1 >= eject_request.max_tries:", "DOM-11"),
        M("broken device not announced", OB, "                self.machine.events.post(\"balldevice_{}_broken\".format(self.ball_device.name))", "                pass", "DOM-11"),
        M("request queue LIFO", BD, "            (target, player_controlled) = self._ball_requests.popleft()", "            (target, player_controlled) = self._ball_requests.pop()", "DOM-12"),
        M("request dropped instead of queued", BD, "                self._ball_requests.append((target, player_controlled))\n                return False", "                return False", "DOM-12"),
        M("balls_available handler vetoes", BD, "    def _source_device_balls_available(self, **kwargs) -> None:\n        del kwargs\n        if self._ball_requests:\n            (target, player_controlled) = self._ball_requests.popleft()\n            self._setup_or_queue_eject_to_target(target, player_controlled)", "    def _source_device_balls_available(self, **kwargs) -> bool:\n        del kwargs\n        if not self._ball_requests:\n            return True\n\n        (target, player_controlled) = self._ball_requests.popleft()\n        return self._setup_or_queue_eject_to_target(target, player_controlled)", "BOOL-1"),
        # twins
        M("twin: end_eject order", BC, "        self._eject_started.clear()\n        self._is_counting.release()", "        self._is_counting.release()\n        self._eject_started.clear()", None),
        M("twin: handler returns None explicitly", BD, "            self._setup_or_queue_eject_to_target(target, player_controlled)\n\n    # ---------------------- End of state handling code", "            self._setup_or_queue_eject_to_target(target, player_controlled)\n        return None\n\n    # ---------------------- End of state handling code", None),
        M("multiball sizes the lock release by the physical count", "mpf/devices/multiball.py", "min(device.available_balls, self.balls_added_live - balls_added)", "min(device.balls, self.balls_added_live - balls_added)", "FLOW-5c"),
        M("path search result dropped", "mpf/devices/ball_device/outgoing_balls_handler.py", "            return self._current_target.find_available_ball_in_path(start)", "            self._current_target.find_available_ball_in_path(start)", "DISCARD-1"),
        M("unknown balls: target keeps waiting for the ball", OB, "            self.info_log(\"Got unknown balls. Assuming a ball returned.\")\n            incoming_ball_at_target.did_not_arrive()\n", "            self.info_log(\"Got unknown balls. Assuming a ball returned.\")\n", "RESOLVE-1"),
        M("pass-through hop does not replace a lost incoming ball", BD, "        elif self.find_available_ball_in_path(self):\n            self.warning_log(\"Path is not going to ball_missing_target %s. Restoring path by requesting a new ball.\",", "        elif self.available_balls > 0 and self.find_available_ball_in_path(self):\n            self.warning_log(\"Path is not going to ball_missing_target %s. Restoring path by requesting a new ball.\",", "RESOLVE-1"),
        M("missing ball never declared lost", OB, "            await self.ball_device.lost_ejected_ball(target=eject_request.target)\n", "", "RESOLVE-1"),
        M("lost ball reported without retry", OB, "            await self._failed_eject(eject_request, eject_try, True)\n            await self.ball_device.lost_ejected_ball", "            await self._failed_eject(eject_request, eject_try, False)\n            await self.ball_device.lost_ejected_ball", "RESOLVE-1"),
        M("returned ball still counted as left", OB, "            eject_request.already_left = False\n            incoming_ball_at_target.did_not_arrive()", "            incoming_ball_at_target.did_not_arrive()", "RESOLVE-1"),
        M("playfield confirm although a ball returned", OB, "        if not ball_return_future.done() and not unknown_balls_future.done():", "        if not ball_return_future.done() or not unknown_balls_future.done():", "RESOLVE-1"),
        M("playfield confirm leaves the announced ball open", OB, "            incoming_ball_at_target.ball_arrived()\n            await self._handle_eject_success(eject_request)\n            return True", "            await self._handle_eject_success(eject_request)\n            return True", "RESOLVE-1"),
        M("confirmed eject without success event", OB, "        self.info_log(\"Got eject confirm\")\n        await self._handle_eject_success(eject_request)\n", "        self.info_log(\"Got eject confirm\")\n", "RESOLVE-1"),
        M("twin: late confirm log text", OB, "Got eject confirm (after recounting)", "Got eject confirm after recounting", None),
        M("pending saved balls overwritten", "mpf/devices/ball_save.py", "            self._scheduled_balls += balls_to_save", "            self._scheduled_balls = balls_to_save", "SAVE-5"),
        M("pending count reset before the hand-over", "mpf/devices/ball_save.py", "        self._add_balls(self._scheduled_balls)\n        self._scheduled_balls = 0", "        self._scheduled_balls = 0\n        self._add_balls(self._scheduled_balls)", "SAVE-5"),
        M("drain keeps back more than it schedules", "mpf/devices/ball_save.py", "        self._schedule_balls(balls_to_save)\n\n        self._reduce_remaining_saves_and_disable_if_zero(balls_to_save)", "        self._schedule_balls(1)\n\n        self._reduce_remaining_saves_and_disable_if_zero(balls_to_save)", "SAVE-5"),
        M("mode end drops pending saved balls", "mpf/devices/ball_save.py", "            self.debug_log(\"Triggering delayed eject because mode ended.\")\n            self.delayed_eject()", "            self.debug_log(\"Triggering delayed eject because mode ended.\")", "SAVE-5"),
        M("remaining balls requested without counting the lock releases", "mpf/devices/ball_save.py", "            self.source_playfield.add_ball(balls=balls_to_save - balls_added,\n", "            self.source_playfield.add_ball(balls=balls_to_save,\n", "SAVE-5"),
        M("coil-fired hop of a player-controlled chain waits for ever", OB, "            if (self.ball_device.config['mechanical_eject'] or\n                    self.ball_device.config['player_controlled_eject_event']) and eject_request.player_controlled:\n                timeout = None", "            if eject_request.player_controlled:\n                timeout = None", "TIMEOUT-5"),
        M("hand-operated device waits for ever for any request", OB, "            if (self.ball_device.config['mechanical_eject'] or\n                    self.ball_device.config['player_controlled_eject_event']) and eject_request.player_controlled:\n                timeout = None", "            if (self.ball_device.config['mechanical_eject'] or\n                    self.ball_device.config['player_controlled_eject_event']):\n                timeout = None", "TIMEOUT-5"),
        M("confirm wait unbounded", OB, "        timeout = eject_request.eject_timeout\n        self.info_log(\"Wait for confirm with timeout %s\", timeout)", "        timeout = None\n        self.info_log(\"Wait for confirm with timeout %s\", timeout)", "TIMEOUT-5"),
        M("twin: timeout condition with operands swapped", OB, "            if (self.ball_device.config['mechanical_eject'] or\n                    self.ball_device.config['player_controlled_eject_event']) and eject_request.player_controlled:\n                timeout = None", "            if eject_request.player_controlled and (self.ball_device.config['player_controlled_eject_event'] or\n                    self.ball_device.config['mechanical_eject']):\n                timeout = None", None),
        M("later pulse attempts fire nothing without a retry pulse", "mpf/devices/ball_device/pulse_coil_ejector.py", "        elif eject_try >= self.config['retries_before_increasing_pulse'] and self.config['eject_coil_retry_pulse']:\n            # multiple failed ejects -> increase pulse strength\n            self.config['eject_coil'].pulse(", "        elif eject_try >= self.config['retries_before_increasing_pulse']:\n          if self.config['eject_coil_retry_pulse']:\n            self.config['eject_coil'].pulse(", "ACT-5"),
        M("enable ejector only arms the switch-off", "mpf/devices/ball_device/enable_coil_ejector.py", "        self.config['eject_coil'].enable(max_wait_ms=self.config['eject_coil_max_wait_ms'])\n        self.delay.reset(", "        if eject_time:\n            self.config['eject_coil'].enable(max_wait_ms=self.config['eject_coil_max_wait_ms'])\n        self.delay.reset(", "ACT-5"),
        M("event ejector posts the first event only", "mpf/devices/ball_device/event_ejector.py", "            self.machine.events.post(event, is_jammed=is_jammed, eject_try=eject_try, balls_in_device=balls_in_device)\n", "            self.machine.events.post(event, is_jammed=is_jammed, eject_try=eject_try, balls_in_device=balls_in_device)\n            break\n", "ACT-5"),
        M("player-controlled add_ball asks once", "mpf/devices/playfield.py", "            for _ in range(balls):\n                source_device.setup_player_controlled_eject(target=self)", "            source_device.setup_player_controlled_eject(target=self)", "REQ-5"),
        M("direct add_ball asks for one ball", "mpf/devices/playfield.py", "            source_device.eject(balls=balls, target=self)", "            source_device.eject(target=self)", ("REQ-5", "DROP-0")),
        M("twin: pulse ejector default branch first", "mpf/devices/ball_device/pulse_coil_ejector.py", "        else:\n            # default pulse\n            self.config['eject_coil'].pulse(max_wait_ms=max_wait_ms)\n", "        else:\n            coil = self.config['eject_coil']\n            coil.pulse(max_wait_ms=max_wait_ms)\n", None),
        M("only the first ball-count waiter is woken", BC, "            if not future.done():\n                future.set_result(count)\n", "            if not future.done():\n                future.set_result(count)\n                break\n", "WAKE-5"),
        M("ball-count waiters forgotten before they are woken", BC, "        for future in self._ball_count_changed_futures:\n            if not future.done():\n                future.set_result(count)\n\n        # reset futures\n        self._ball_count_changed_futures = []", "        waiting = self._ball_count_changed_futures = []\n        for future in self._ball_count_changed_futures:\n            if not future.done():\n                future.set_result(count)", "WAKE-5"),
        M("timed-out incoming ball stays expected", IB, "                self._incoming_balls.remove(incoming_ball)\n", "                pass\n", "TIMEOUT-5"),
        M("incoming timeout reported only for the first", IB, "            for incoming_ball in timeouts:\n                await self.ball_device.lost_incoming_ball(source=incoming_ball.source)", "            for incoming_ball in timeouts:\n                await self.ball_device.lost_incoming_ball(source=incoming_ball.source)\n                break", "TIMEOUT-5"),
        M("recount request wiped before the sleep", BC, "            await Util.first([ball_changes, revalidate_future, self._eject_started.wait()])\n            self._revalidate.clear()", "            self._revalidate.clear()\n            await Util.first([ball_changes, revalidate_future, self._eject_started.wait()])", "WAKE-5"),
        M("recount request wiped after taking the lock", BC, "            self._revalidate.clear()\n\n            # get lock and update count\n            await self._is_counting.acquire()\n", "            # get lock and update count\n            await self._is_counting.acquire()\n            self._revalidate.clear()\n", "WAKE-5"),
        M("multiball forgets what earlier locks released", "mpf/devices/multiball.py", "            balls_added += balls_to_release", "            balls_added = balls_to_release", "SAVE-5"),
        M("multiball lock requests the full number again", "mpf/devices/multiball_lock.py", "        self.source_playfield.add_ball(balls=max(balls - balls_added, 0))", "        self.source_playfield.add_ball(balls=balls)", "SAVE-5"),
        M("request served from the physical ball count", BD, "        if self.available_balls > 0 and self != target:", "        if self.balls > 0 and self != target:", "OWN-5"),
        M("request loop left at the first ball that is not available", BD, "            if self._setup_or_queue_eject_to_target(target):\n                balls_found += 1", "            if not self._setup_or_queue_eject_to_target(target):\n                break\n            balls_found += 1", "REQ-5"),
        M("own task cancelled before the broken report", OB, "                self.ball_device.set_eject_state(\"eject_broken\")\n", "                self.ball_device.set_eject_state(\"eject_broken\")\n                self._task.cancel()\n", "CANCEL-5"),
        M("ball search over the sources gives up after the first source", BD, "            full_path = source.find_one_available_ball(path=path)\n            if full_path:\n                return full_path\n\n        return False", "            full_path = source.find_one_available_ball(path=path)\n            if full_path:\n                return full_path\n\n            return False", ["SEARCH-5", "LOOP-0"]),
        M("idle mechanical eject waits the ms value in seconds", BD, "        eject.eject_timeout = self.config['eject_timeouts'][eject.target] / 1000", "        eject.eject_timeout = self.config['eject_timeouts'][eject.target]", "UNIT-5"),
    ]


def thorough(chk):
    from sa.battery import run_battery
    run_battery(chk, battery())
