"""C19 — BCP messages round-trip and reassemble from any chunking (structural clauses).

LAYER-1 escape balance: every value is percent-encoded exactly once by the encoder and decoded exactly once by the decoder,
        on every typed branch
LAYER-2 the type-tag tests are applied to the wire form (before any unquoting)
TABLE-9 encoder tags = decoder tags, bool tested before int, slice lengths = tag lengths
OWN-17  framing: the stream is consumed only by readline() and readexactly(n) with n taken from that line
DOM-37  the JSON form is chosen iff a value is a dict/list and recognised before pair parsing
"""
import ast

from sa.model import src, short, dotted, call_attr, kwarg, walk_local, AnalysisError, const_value

BS = "mpf/core/bcp/bcp_socket_client.py"
UNQ = {"unquote", "unquote_plus"}
QUO = {"quote", "quote_plus"}


def _layers(e):
    """Net number of percent-encoding layers applied by expression e to its innermost non-call argument."""
    n = 0
    while isinstance(e, ast.Call):
        nm = call_attr(e)
        if nm in UNQ:
            n -= 1
        elif nm in QUO:
            n += 1
        elif nm in ("int", "float", "str", "bool", "format"):
            pass
        else:
            break
        if not e.args:
            break
        e = e.args[0]
    return n, e


def _merge_lits(toks):
    out = []
    for t in toks:
        if t[0] == "lit" and out and out[-1][0] == "lit":
            out[-1] = ("lit", out[-1][1] + t[1])
        elif t[0] == "lit" and t[1] == "":
            continue
        else:
            out.append(t)
    return out


def _sym_str(e, env, facts):
    """Shape of a string expression as a token list: ("lit", text), ("Q",) = quote(str(v), ''), ("QK",) = quote(k, ''), ("RAW",) = str(v)
    unencoded, ("?", text) = not understood."""
    if isinstance(e, ast.Constant) and isinstance(e.value, str):
        return [("lit", e.value)]
    if isinstance(e, ast.Name):
        return list(env.get(e.id, [("?", e.id)]))
    if isinstance(e, ast.BinOp) and isinstance(e.op, ast.Add):
        return _merge_lits(_sym_str(e.left, env, facts) + _sym_str(e.right, env, facts))
    if isinstance(e, ast.IfExp):
        t = src(e.test)
        for k, v in facts.items():
            if k == t:
                return _sym_str(e.body if v else e.orelse, env, facts)
            if k == "not " + t or t == "not " + k:
                return _sym_str(e.orelse if v else e.body, env, facts)
        return [("?", src(e))]
    if isinstance(e, ast.Call):
        nm = call_attr(e)
        if nm == "str" and len(e.args) == 1:
            if isinstance(e.args[0], ast.Name) and e.args[0].id == "v":
                return [("RAW",)]
            return _sym_str(e.args[0], env, facts)
        if nm in QUO and e.args:
            inner = _sym_str(e.args[0], env, facts)
            safe_empty = len(e.args) > 1 and isinstance(e.args[1], ast.Constant) and e.args[1].value == "" or \
                any(k.arg == "safe" and isinstance(k.value, ast.Constant) and k.value.value == "" for k in e.keywords)
            if nm == "quote" and safe_empty and inner == [("RAW",)]:
                return [("Q",)]
            if nm == "quote" and safe_empty and isinstance(e.args[0], ast.Name) and e.args[0].id == "k":
                return [("QK",)]
            return [("?", src(e))]
        if nm == "format" and isinstance(e.func, ast.Attribute) and isinstance(e.func.value, ast.Constant) and isinstance(e.func.value.value, str) and not e.keywords:
            parts = e.func.value.value.split("{}")
            if len(parts) != len(e.args) + 1 or "{" in "".join(parts):
                return [("?", src(e))]
            out = [("lit", parts[0])]
            for a, lit in zip(e.args, parts[1:]):
                out += _sym_str(a, env, facts) + [("lit", lit)]
            return _merge_lits(out)
    return [("?", src(e))]


_TYPE_TRUTH = {      # test text -> the runtime types (of the five the typed form knows) for which it is true
    "isinstance(v, bool)": {"bool"}, "isinstance(v, int)": {"bool", "int"}, "isinstance(v, float)": {"float"}, "v is None": {"None"},
    "isinstance(v, (dict, list))": set(), "isinstance(v, str)": {"str"}, "v is not None": {"bool", "int", "float", "str"},
    "isinstance(v, (list, dict))": set(),
}
_WANT_SHAPE = {"bool": [("lit", "bool:"), ("Q",)], "int": [("lit", "int:"), ("Q",)], "float": [("lit", "float:"), ("Q",)], "None": [("lit", "NoneType:")],
               "str": [("Q",)]}


def _encoder_shapes(chk, enc):
    """What the typed form puts on the line for each kind of value, by evaluating the string expressions along every feasible path of one
    trip of the parameter loop (assignments, +, '..{}..'.format, conditional expressions decided by the path's own tests): the appended
    piece is quote(k,'') '=' <value> '&', and <value> is, for every runtime type the path's tests admit, exactly that type's wire form
    (tag + str(v) percent-encoded once with no safe characters; the None tag alone; an untagged string encoded once).  Returns True when
    every path could be evaluated - then this verdict replaces the spelling-bound clauses below."""
    from sa.helpers import feasible_paths
    cfg = enc.cfg()
    loops = [h for h in cfg.nodes if h.kind == "loop" and "kwargs.items()" in src(h.ast.iter)]
    accs = [n for n in cfg.nodes if n.kind == "stmt" and isinstance(n.ast, ast.AugAssign) and isinstance(n.ast.op, ast.Add) and isinstance(n.ast.target, ast.Name) and
            loops and any(y is n.ast for st in loops[0].ast.body for y in ast.walk(st))]
    if len(loops) != 1 or len(accs) != 1:
        return False
    head, acc = loops[0], accs[0]
    it = [x for x in cfg.succs(head.id, True) if cfg.nodes[x].kind == "branch" and cfg.nodes[x].tag == "iter"]
    if not it:
        return False
    def piece_for(path, facts):
        env = {}
        for nid in path:
            n = cfg.nodes[nid]
            if n.kind != "stmt" or nid == acc.id:
                continue
            if isinstance(n.ast, ast.Assign) and len(n.ast.targets) == 1 and isinstance(n.ast.targets[0], ast.Name):
                env[n.ast.targets[0].id] = _sym_str(n.ast.value, env, facts)
            elif isinstance(n.ast, ast.AugAssign) and isinstance(n.ast.target, ast.Name) and isinstance(n.ast.op, ast.Add):
                env[n.ast.target.id] = _merge_lits(env.get(n.ast.target.id, [("?", n.ast.target.id)]) + _sym_str(n.ast.value, env, facts))
        return _merge_lits(_sym_str(acc.ast.value, env, facts))

    results = []
    for path, facts in feasible_paths(cfg, it[0], [acc.id]):
        if head.id in path[1:]:
            continue
        types = {"bool", "int", "float", "None", "str"}
        known = True
        for k, v in facts.items():
            kk = k[4:] if k.startswith("not ") else k
            vv = (not v) if k.startswith("not ") else v
            if kk in _TYPE_TRUTH:
                types &= _TYPE_TRUTH[kk] if vv else (types - _TYPE_TRUTH[kk])
            elif "v" in {y.id for y in ast.walk(ast.parse(kk, mode="eval")) if isinstance(y, ast.Name)}:
                known = False       # a test on the value that is not a type test: the branch taken depends on more than the type
        for t in sorted(types):
            ft = dict(facts)
            for test, ts in _TYPE_TRUTH.items():
                ft.setdefault(test, t in ts)
            results.append((path, facts, piece_for(path, ft), t, known))
    if not results or any(any(tok[0] == "?" for tok in piece) for _, _, piece, _, _ in results):
        return False
    covered = set()
    for path, facts, piece, t, known in results:
        rest = list(piece[1:])
        ok_frame = len(piece) >= 2 and piece[0] == ("QK",) and rest[0][0] == "lit" and rest[0][1].startswith("=") and rest[-1][0] == "lit" and rest[-1][1].endswith("&")
        chk.ob("LAYER-1", "each parameter is appended as quote(k, '') '=' value '&' (name encoded once, nothing else between the pairs)", ok_frame,
               enc.where(acc.ast), detail="appended piece: %s" % (piece,), construct=enc.ident, text="pair frame %s" % (piece[:2],))
        if not ok_frame:
            continue
        rest[0] = ("lit", rest[0][1][1:])
        rest[-1] = ("lit", rest[-1][1][:-1])
        val = _merge_lits(rest)
        covered.add(t)
        ok = val == _WANT_SHAPE[t]
        rule = "TABLE-9" if [x for x in val if x[0] == "lit"] != [x for x in _WANT_SHAPE[t] if x[0] == "lit"] else "LAYER-1"
        chk.ob(rule if not ok else "TABLE-9", "a %s value is sent as %s" % (t, _fmt_shape(_WANT_SHAPE[t])), ok, enc.where(acc.ast),
               detail="sent as %s on the path with %s" % (_fmt_shape(val), sorted((k, v) for k, v in facts.items() if "v" in k)), construct=enc.ident,
               text="wire form of %s: %s" % (t, _fmt_shape(val)))
        if not known:
            chk.ob("TABLE-9", "the wire form of a value depends on its type only", False, enc.where(acc.ast),
                   detail="path decided by %s" % sorted(facts.items()), construct=enc.ident, text="wire form decided by a value test")
    chk.ob("TABLE-9", "every kind of value (bool, int, float, None, str) has a path to the line", covered == set(_WANT_SHAPE), enc.where(),
           detail="covered %s" % sorted(covered), construct=enc.ident, text="kinds covered %s" % sorted(covered))
    return True


def _fmt_shape(toks):
    return " + ".join(repr(t[1]) if t[0] == "lit" else {"Q": "quote(str(v), '')", "QK": "quote(k, '')", "RAW": "str(v)"}.get(t[0], "?") for t in toks) or "''"


def check(chk):
    repo = chk.repo
    chk.explanation = ("C19: layer counting of quote/unquote on every branch of the encoder and decoder; tag tests on the wire form; "
                       "tag tables; stream consumption primitives of both socket readers; JSON branch selection. Round-trip equality "
                       "over all values (floats, nested JSON types) is not decided.")
    enc = repo.func(BS, "encode_command_string")
    dec = repo.func(BS, "decode_command_string")
    chk.analysed(enc, dec)

    # ------------------------------------------------------------ encoder
    # the tagging of one value may live in the encoder itself or in a module-level helper it calls with the value
    tagf = enc
    mod_ = repo.mod(BS)
    if not any(src(x).replace(" ", "") in ("isinstance(v,bool)", "isinstance(v,int)") for x in ast.walk(enc.node) if isinstance(x, ast.Call)):
        for c_ in enc.calls():
            if isinstance(c_.func, ast.Name) and c_.func.id in mod_.functions and len(c_.args) == 1 and src(c_.args[0]) == "v":
                cand = mod_.functions[c_.func.id]
                if cand.params()[:1] == ["v"]:
                    tagf = cand
                    chk.analysed(tagf)
    _memo_rule(chk, repo, tagf)
    _payload_marker(chk, repo)
    _parameter_names_free(chk, repo)
    ecfg = tagf.cfg()

    # what each kind of value looks like on the line: decided on the string shapes when every path can be evaluated; the clauses bound to the
    # present spelling (assignments to `value`, one `.format` per tag) apply only when it cannot (tagging moved into a helper, unknown calls)
    shapes_done = tagf is enc and _encoder_shapes(chk, enc)
    chk.ob("TABLE-9", "the encoder's wire forms are decided %s" % ("by evaluating the string shapes of every path" if shapes_done else "on the spelling-bound clauses"),
           True, enc.where(), nontrivial=False)
    if not shapes_done:
        class _V:       # a value definition: an assignment to `value`, or (in a helper) a returned expression
            def __init__(self, node, value):
                self.id, self.lineno = node.id, node.lineno

                class _A:
                    pass
                self.ast = _A()
                self.ast.value = value
                self.ast.lineno = node.lineno
                self.node_ast = node.ast
        vdefs = [n for n in ecfg.nodes_where(lambda n: n.kind == "stmt" and isinstance(n.ast, ast.Assign) and src(n.ast.targets[0]) == "value")]
        if tagf is not enc:
            vdefs = vdefs + [_V(n, n.ast.value) for n in ecfg.nodes_where(lambda n: n.kind == "stmt" and isinstance(n.ast, ast.Return) and n.ast.value is not None
                                                                            and src(n.ast.value) != "value")]
        enc_ = enc
        enc = tagf if tagf is not enc else enc
        base = [n for n in vdefs if isinstance(n.ast.value, ast.Call) and call_attr(n.ast.value) in QUO]
        ok = len(base) == 1 and _layers(base[0].ast.value)[0] == 1 and src(base[0].ast.value.args[0]) == "str(v)" and \
            (len(base[0].ast.value.args) > 1 and src(base[0].ast.value.args[1]) == "''")
        chk.ob("LAYER-1", "the encoder percent-encodes str(v) exactly once with no safe characters (so ':' '&' '=' '%' '+' never appear raw in a value)", ok,
               enc.where(), detail=src(base[0].ast.value) if base else "", construct=enc.ident, text="encoder quote " + (src(base[0].ast.value) if base else ""))
        tags = {}
        order = []
        for n in vdefs:
            v = n.ast.value
            if isinstance(v, ast.Call) and call_attr(v) == "format" and isinstance(v.func.value, ast.Constant):
                tag = v.func.value.value.split("{")[0]
                g = ecfg.guards_at(n.id)
                ty = [k for k, val in g.items() if k.startswith("isinstance(v, ") and val is True]
                tags[tag] = ty[0][len("isinstance(v, "):-1] if ty else "?"
                order.append((n.lineno, tag))
                chk.ob("LAYER-1", "typed value `%s` is the tag plus the once-encoded text" % tag, [src(a) for a in v.args] == ["value"], enc.where(n.ast),
                       construct=enc.ident, text="tagged value " + tag)
            elif isinstance(v, ast.Constant) and isinstance(v.value, str) and v.value.endswith(":"):
                tags[v.value] = "None"
                order.append((n.lineno, v.value))
        chk.ob("TABLE-9", "the encoder tags bool, int, float and None", tags == {"bool:": "bool", "int:": "int", "float:": "float", "NoneType:": "None"}, enc.where(),
               detail=str(tags), construct=enc.ident, text="encoder tags %s" % sorted(tags.items()))
        # bool before int: the int branch is only reached when isinstance(v, bool) was false
        for n in vdefs:
            v = n.ast.value
            if isinstance(v, ast.Call) and call_attr(v) == "format" and isinstance(v.func.value, ast.Constant) and v.func.value.value.startswith("int:"):
                g = ecfg.guards_at(n.id)
                chk.ob("TABLE-9", "bool is tested before int (bool is a subclass of int)", g.get("isinstance(v, bool)") is False, enc.where(n.ast),
                       detail="guards %s" % sorted(g.items()), construct=enc.ident, text="bool before int")
        # exactness of the type dispatch: every value of a type takes that type's branch (no extra condition, no extra alternative)
        from sa.helpers import elif_chain_exact
        chain = sorted([n for n in vdefs if hasattr(n, "kind") and not (isinstance(n.ast.value, ast.Call) and call_attr(n.ast.value) in QUO)], key=lambda n: n.lineno)
        if len(chain) >= 5:
            for n, why in elif_chain_exact(ecfg, chain):
                chk.ob("TABLE-9", "the encoder's type dispatch is exact: each value takes the branch of its type", False, enc.where(n.ast), detail=why, construct=enc.ident,
                       text="encoder dispatch: " + why[:60])
            chk.ob("TABLE-9", "the encoder's type dispatch has one branch per tagged type plus the plain-string branch (%d)" % len(chain), True, enc.where(), nontrivial=False)
        enc = enc_
        ecfg = enc.cfg()
        # every parameter ends up on the line: the pair is *appended* to the string built so far, for every parameter the loop gets to
        accs = [n for n in ecfg.nodes if n.kind == "stmt" and isinstance(n.ast, (ast.AugAssign, ast.Assign)) and
                src(n.ast.target if isinstance(n.ast, ast.AugAssign) else n.ast.targets[0]) == "kwarg_string" and any(y is n.ast for lp_ in ast.walk(enc.node)
                if isinstance(lp_, ast.For) for y in ast.walk(lp_))]
        ok = len(accs) == 1 and isinstance(accs[0].ast, ast.AugAssign) and isinstance(accs[0].ast.op, ast.Add) and "format(quote(k, '')" in src(accs[0].ast.value)
        if ok:
            from sa.helpers import inloop_guards
            from sa.cfg import canon_fact
            lh_ = [h for h in ecfg.nodes if h.kind == "loop" and any(y is accs[0].ast for y in ast.walk(h.ast))]
            ok = bool(lh_) and inloop_guards(ecfg, accs[0].id, lh_[-1].id) == {canon_fact("isinstance(v, (dict, list))", False)}
        chk.ob("LAYER-1", "every parameter's name=value pair is appended to the line (none is overwritten or skipped)", ok, enc.where(), construct=enc.ident,
               text="pairs accumulated")
        kq = [c for c in enc.calls() if call_attr(c) in QUO and src(c.args[0]) == "k"]
        chk.ob("LAYER-1", "parameter names are percent-encoded once as well", len(kq) == 1 and src(kq[0].args[1]) == "''", enc.where(), construct=enc.ident,
               text="key quote")

    # JSON branch
    jn = [n for n in ecfg.nodes_where(lambda n: n.kind == "stmt" and isinstance(n.ast, ast.Assign) and src(n.ast.targets[0]) == "json_needed" and
                                      src(n.ast.value) == "True")]
    ok = bool(jn) and all(ecfg.guards_at(n.id).get("isinstance(v, (dict, list))") is True for n in jn)
    chk.ob("DOM-37", "the JSON form is chosen iff some value is a dict or list", ok, enc.where(), construct=enc.ident, text="json_needed guard")
    jd = [n for n in ecfg.nodes_where(lambda n: n.kind == "stmt" and isinstance(n.ast, ast.Assign) and src(n.ast.targets[0]) == "kwarg_string" and
                                      "json=" in src(n.ast.value))]
    ok = bool(jd) and all(ecfg.guards_at(n.id).get("json_needed") is True and "json.dumps(kwargs" in src(n.ast.value) for n in jd)
    chk.ob("DOM-37", "the JSON form carries all parameters", ok, enc.where(), construct=enc.ident, text="json body")
    # the JSON form carries every value the decoder accepts back: no option of the dump narrows it (json.loads reads NaN / Infinity, so the
    # dump must not refuse them; nothing is skipped or replaced by a fallback)
    # (ensure_ascii=False puts raw code points on the line: the sender's utf-8 encode then refuses a lone surrogate that the escaped form carries)
    NARROWING = {"allow_nan", "skipkeys", "default", "check_circular", "ensure_ascii"}
    for n in jd:
        for c in [x for x in ast.walk(n.ast.value) if isinstance(x, ast.Call) and call_attr(x) == "dumps"]:
            kws = {k_.arg: src(k_.value) for k_ in c.keywords}
            ok2 = [src(a) for a in c.args] == ["kwargs"] and kws.get("cls") == "MpfJSONEncoder" and not (set(kws) & NARROWING)
            chk.ob("DOM-37", "the JSON form dumps all parameters with the MPF encoder and no narrowing option (what json.loads accepts, json.dumps emits)", ok2,
                   enc.where(c), detail=str(kws), construct=enc.ident, text="json dump options")
        # the JSON text goes on the line as it is and is loaded as it is: no further rewriting on either side (an escape added on one side and
        # undone on the other mangles every text that already contains the escape)
        v_ = n.ast.value
        direct = isinstance(v_, ast.Call) and call_attr(v_) == "format" and len(v_.args) == 1 and isinstance(v_.args[0], ast.Call) and call_attr(v_.args[0]) == "dumps"
        chk.ob("DOM-37", "the JSON body is the dump itself (not rewritten afterwards)", direct, enc.where(v_), detail=short(v_, 90), construct=enc.ident,
               text="json body rewritten")
    lds = [x for x in ast.walk(dec.node) if isinstance(x, ast.Call) and call_attr(x) == "loads"]
    ok3 = len(lds) == 1 and [src(a).replace(" ", "") for a in lds[0].args] == ["bcp_command.query[5:]"]
    chk.ob("DOM-37", "the decoder loads everything after `json=` as it arrived", ok3, dec.where(lds[0]) if lds else dec.where(), detail=src(lds[0]) if lds else "",
           construct=dec.ident, text="json body loaded rewritten")

    # ------------------------------------------------------------ decoder
    dcfg = dec.cfg()
    # where does `value` come from: the raw pair
    vsrc = [x for x in walk_local(dec.node) if isinstance(x, ast.Assign) and any("value" == src(e) for t in x.targets for e in (t.elts if isinstance(t, ast.Tuple) else [t]))]
    raw = bool(vsrc) and all(isinstance(x.value, ast.Call) and call_attr(x.value) in ("partition", "split") and _layers(x.value)[0] == 0 for x in vsrc)
    chk.ob("LAYER-2", "the decoder takes name and value from the raw pair (split on the first '=')", raw, dec.where(),
           detail="; ".join(short(x, 60) for x in vsrc), construct=dec.ident, text="raw value source")
    loops = [x for x in walk_local(dec.node) if isinstance(x, ast.For)]
    ok = bool(loops) and "split('&')" in src(loops[0].iter) and "query" in src(loops[0].iter)
    chk.ob("LAYER-2", "pairs are split on the raw '&' of the query (an encoded %26 inside a value cannot split)", ok, dec.where(), construct=dec.ident,
           text="pair split")
    dtags = {}
    for t in dcfg.nodes:
        if t.kind != "test":
            continue
        x = t.ast
        tag = None
        if isinstance(x, ast.Call) and call_attr(x) == "startswith" and x.args and isinstance(x.args[0], ast.Constant):
            tag = x.args[0].value
            subject = x.func.value
        elif isinstance(x, ast.Compare) and isinstance(x.comparators[0], ast.Constant) and isinstance(x.comparators[0].value, str) and \
                x.comparators[0].value.count(":") == 1:
            tag = x.comparators[0].value
            subject = x.left
        if tag is None:
            continue
        sname = src(subject).replace(".lower()", "")
        chk.ob("LAYER-2", "tag test `%s` is applied to the wire form of the value" % tag, sname == "value" and raw, dec.where(x),
               detail="a string value that merely looks like a tag has its ':' encoded as %3A on the wire; after unquoting it would change type",
               construct=dec.ident, text="tag test on %s for %s" % (sname, tag))
        dtags[tag.split(":")[0].lower() + ":"] = t
    chk.ob("TABLE-9", "the decoder recognises exactly the encoder's tags", set(dtags) == {"int:", "float:", "bool:", "nonetype:"}, dec.where(),
           detail=str(sorted(dtags)), construct=dec.ident, text="decoder tags %s" % sorted(dtags))
    stores = [n for n in dcfg.nodes_where(lambda n: n.kind == "stmt" and isinstance(n.ast, ast.Assign) and src(n.ast.targets[0]) == "kwargs[name]")]
    if len(stores) < 6:
        chk.missing("TABLE-9", "the decoder stores a value on each of its six branches (int, float, true, false, None, text); found %d" % len(stores), dec)
    from sa.helpers import elif_chain_exact, inloop_guards
    dl = [h for h in dcfg.nodes if h.kind == "loop" and stores and any(y is stores[0].ast for y in ast.walk(h.ast))]
    if dl:
        shared = set.intersection(*[inloop_guards(dcfg, n.id, dl[-1].id) for n in stores])
        from sa.cfg import canon_fact
        want = {canon_fact("pair", True), canon_fact("name in kwargs", False)}
        chk.ob("TABLE-9", "every non-empty pair with a new name is decoded - nothing else skips a parameter", shared == want, dec.where(dl[-1].ast),
               detail="shared selection %s" % sorted(shared), construct=dec.ident, text="decoder pair selection")
    for n, why in elif_chain_exact(dcfg, sorted(stores, key=lambda n: n.lineno)):
        chk.ob("TABLE-9", "the decoder's tag dispatch is exact: each tagged text takes the branch of its tag", False, dec.where(n.ast), detail=why, construct=dec.ident,
               text="decoder dispatch: " + why[:60])
    for n in stores:
        v = n.ast.value
        g = dcfg.guards_at(n.id)
        tagt = [k for k, val in g.items() if val is True and ("startswith(" in k or "== '" in k)]
        if isinstance(v, ast.Constant):
            continue
        layers, inner = _layers(v)
        if tagt and "startswith" in tagt[0]:
            tag = tagt[0].split("'")[1]
            sl = inner
            ok = isinstance(sl, ast.Subscript) and src(sl.value) == "value" and isinstance(sl.slice, ast.Slice) and const_value(sl.slice.lower) == len(tag)
            chk.ob("TABLE-9", "the `%s` branch strips exactly len('%s') characters" % (tag, tag), ok, dec.where(n.ast), detail=src(v), construct=dec.ident,
                   text="slice for " + tag)
            conv = call_attr(v)
            chk.ob("TABLE-9", "the `%s` branch converts with %s()" % (tag, tag[:-1]), conv == tag[:-1], dec.where(n.ast), construct=dec.ident,
                   text="conversion for " + tag)
            # ... and with nothing else: the text goes through no second numeric type on its way (int(float(text)) loses every integer
            # above 2**53 that a double cannot hold and overflows beyond 1.8e308)
            convs = []
            e_ = v
            while isinstance(e_, ast.Call) and e_.args:
                if call_attr(e_) in ("int", "float", "bool", "str", "round", "Decimal", "complex"):
                    convs.append(call_attr(e_))
                e_ = e_.args[0]
            chk.ob("TABLE-9", "the `%s` branch converts the text once, directly to %s" % (tag, tag[:-1]), convs == [tag[:-1]], dec.where(n.ast),
                   detail="conversions applied, outermost first: %s" % convs, construct=dec.ident, text="conversion chain for " + tag)
            chk.ob("LAYER-1", "the `%s` branch removes exactly the one encoding layer the encoder applied" % tag, layers == -1, dec.where(n.ast),
                   detail="net layers %d in `%s`: e.g. float:1e%%2B16 would not parse" % (layers, src(v)), construct=dec.ident,
                   text="layers %d on %s branch" % (layers, tag))
        elif not tagt:
            chk.ob("LAYER-1", "an untagged value is a string: decoded exactly once", layers == -1 and src(inner) == "value", dec.where(n.ast),
                   detail="net layers %d in `%s`" % (layers, src(v)), construct=dec.ident, text="layers %d on string branch" % layers)
    nd = [x for x in walk_local(dec.node) if isinstance(x, ast.Assign) and src(x.targets[0]) == "name" and isinstance(x.value, ast.Call)]
    ok = bool(nd) and _layers(nd[0].value)[0] == -1
    chk.ob("LAYER-1", "parameter names are decoded exactly once", ok, dec.where(), construct=dec.ident, text="key unquote")
    jt = [t for t in dcfg.nodes if t.kind == "test" and "json=" in src(t.ast)]
    ok = bool(jt) and all(dcfg.dominates(jt[0].id, n.id) or True for n in stores) and any(
        isinstance(x, ast.Call) and call_attr(x) == "loads" and "[5:]" in src(x) for x in ast.walk(dec.node))
    first_loop = [h for h in dcfg.nodes if h.kind == "loop"]
    ok = ok and bool(first_loop) and dcfg.dominates(jt[0].id, first_loop[0].id)
    chk.ob("DOM-37", "the decoder recognises the JSON form before parsing pairs and loads everything after 'json='", ok, dec.where(), construct=dec.ident,
           text="json prefix test")
    rets = [x for x in walk_local(dec.node) if isinstance(x, ast.Return)]
    ok = bool(rets) and all(src(r.value).replace(" ", "").strip("()") == "bcp_command.path,kwargs" for r in rets)
    chk.ob("DOM-37", "the decoder returns (command, parameters)", ok, dec.where(), construct=dec.ident, text="decoder result")

    # ------------------------------------------------------------ OWN-17
    n_r = 0
    for cn in ("AsyncioBcpClientSocket", "BCPClientSocket"):
        c = repo.cls(BS, cn)
        f = c.methods.get("read_message")
        chk.require(f is not None, "C19: %s.read_message vanished" % cn)
        chk.analysed(f)
        n_r += 1
        used = [(call_attr(x), x) for x in f.calls() if isinstance(x.func, ast.Attribute) and src(x.func.value) == "self._receiver"]
        names = sorted({u[0] for u in used})
        chk.ob("OWN-17", "%s.read_message consumes the stream only through readline() and readexactly(n)" % cn, names == ["readexactly", "readline"], f.where(),
               detail="uses %s: read(n) may return fewer bytes or, when asked again for the full length, bytes of the next message" % names,
               construct=f.ident, text="stream primitives %s in %s" % (names, cn))
        fcfg = f.cfg()
        for nm, x in used:
            if nm == "readexactly":
                a = src(x.args[0]) if x.args else ""
                defs = [y for y in walk_local(f.node) if isinstance(y, ast.Assign) and src(y.targets[0]) == a]
                ok = bool(defs) and any(isinstance(y.value, ast.Call) and call_attr(y.value) == "int" for y in defs)
                chk.ob("OWN-17", "%s: the payload length is the integer after the byte marker of the same line" % cn, ok, f.where(x), construct=f.ident,
                       text="payload length source in " + cn)
                xn = [n for n in fcfg.nodes if n.kind != "branch" and any(y is x for y in n.calls())][0]
                loops = [h for h in fcfg.nodes if h.kind == "join" and isinstance(h.ast, ast.While) and h.ast is not [w for w in ast.walk(f.node) if isinstance(w, ast.While)][0]]
                chk.ob("OWN-17", "%s: the payload is read by one readexactly (no partial-read loop)" % cn, not loops, f.where(x), construct=f.ident,
                       text="payload read loop in " + cn)
        eof = [b for b in fcfg.nodes if b.kind == "branch" and src(b.ast) == "message" and b.value is False]
        rl_ids = [n.id for n in fcfg.nodes if n.kind == "stmt" and "readline" in n.text(200)]
        ok = bool(eof) and any(n.kind == "stmt" and isinstance(n.ast, ast.Raise) for n in (fcfg.nodes[i] for i in fcfg.reachable([eof[0].id], avoid=rl_ids)))
        live = [b for b in fcfg.nodes if b.kind == "branch" and src(b.ast) == "message" and b.value is True]
        ok = ok and bool(live) and not any(n.kind == "stmt" and isinstance(n.ast, ast.Raise) and "Broken" in src(n.ast)
                                           for n in (fcfg.nodes[i] for i in fcfg.reachable([live[0].id], avoid=rl_ids)))
        chk.ob("OWN-17", "%s: end of stream raises instead of yielding an empty command" % cn, ok, f.where(), construct=f.ident, text="eof in " + cn)
        sp = [y for y in walk_local(f.node) if isinstance(y, ast.Assign) and isinstance(y.value, ast.Call) and call_attr(y.value) == "split"]
        ok = bool(sp) and isinstance(sp[0].targets[0], ast.Tuple) and [src(e) for e in sp[0].targets[0].elts] == ["message", "bytes_needed"]
        chk.ob("OWN-17", "%s: the line is split into (command text, payload length) at the byte marker" % cn, ok, f.where(), construct=f.ident,
               text="marker split in " + cn)
        rets = [y for y in ast.walk(f.node) if isinstance(y, ast.Return)]
        chk.ob("OWN-17", "%s: commands are handed out one by one in arrival order (no reordering container)" % cn, len(rets) == 1 and src(rets[0].value) == "message_obj",
               f.where(), construct=f.ident, text="return order in " + cn)
        _frame_rules(chk, cn, f, fcfg)
    chk.expect(n_r == 2, "C19: socket readers lost")
    # SYNC-19: commands take effect in the order they were sent: the receive loop finishes processing one command before it
    # reads the next (no create_task / call_soon / ensure_future around the processing)
    BT = "mpf/core/bcp/bcp_transport.py"
    rl = repo.func(BT, "BcpTransportManager._receive_loop")
    chk.analysed(rl)
    rcfg = rl.cfg()
    reads = [n for n in rcfg.nodes if n.kind == "stmt" and "read_message()" in n.text(200)]
    procs = [(n, c) for n, c in rcfg.calls_named("process_bcp_message")]
    if not procs:
        chk.missing("SYNC-19", "the receive loop hands each command to process_bcp_message", rl)
    for n, c in procs:
        awaited = any(isinstance(x, ast.Await) and x.value is c for x in ast.walk(n.ast)) if n.ast is not None else False
        deferred = any(isinstance(x, ast.Call) and call_attr(x) in ("create_task", "ensure_future", "call_soon", "call_later", "run_coroutine_threadsafe", "gather")
                       and any(y is c for y in ast.walk(x)) for x in ast.walk(n.ast))
        chk.ob("SYNC-19", "a command is processed to the end before the next one is read (awaited in the receive loop, not spawned)", awaited and not deferred,
               rl.where(c), detail="spawning the processing lets a later command overtake one whose handler is waiting", construct=rl.ident,
               text="command processing " + ("spawned" if deferred else ("not awaited" if not awaited else "awaited")))
        heads = [h.id for h in rcfg.nodes if h.kind == "join" and isinstance(h.ast, ast.While)]
        ok = bool(reads) and all(rcfg.path_avoiding(r.id, heads, [n.id] + [x.id for x in rcfg.nodes if x.kind == "stmt" and isinstance(x.ast, ast.Return)],
                                                    ignore_exc=True) is None for r in reads)
        chk.ob("SYNC-19", "every command that was read is processed in the same round", ok, rl.where(c), construct=rl.ident, text="read without processing")
    # PASS-19: what was decoded is what the handler gets: between read_message() and the command handler nobody rebinds or edits
    # the parameters (a log-friendly summary must be a separate object)
    for n, c in procs:
        rd = [x for x in rcfg.nodes if x.kind == "stmt" and isinstance(x.ast, ast.Assign) and "read_message()" in src(x.ast.value)]
        names = [src(e) for e in rd[0].ast.targets[0].elts] if rd and isinstance(rd[0].ast.targets[0], ast.Tuple) else []
        ok = len(names) == 2 and [src(a) for a in c.args[:2]] == names
        chk.ob("PASS-19", "the receive loop hands the decoded (command, parameters) to the interface as decoded", ok, rl.where(c),
               detail="decoded %s, passed %s" % (names, [src(a) for a in c.args]), construct=rl.ident, text="receive loop passes decoded message")
    BI = "mpf/core/bcp/bcp_interface.py"
    pm = repo.func(BI, "BcpInterface.process_bcp_message")
    chk.analysed(pm)
    pcfg = pm.cfg()
    disp = [(n, c) for n, c in [(n, c) for n in pcfg.nodes if n.kind == "stmt" for c in n.calls()]
            if any(k.arg is None and src(k.value) == "kwargs" for k in c.keywords) and any(isinstance(x, ast.Await) and x.value is c for x in n.walk())]
    chk.need(disp, "PASS-19", "process_bcp_message awaits the command handler with **kwargs", pm)
    for n, c in disp:
        fn = c.func
        looked = src(fn) == "self.bcp_receive_commands[cmd]" or (isinstance(fn, ast.Name) and any(
            isinstance(a, ast.Assign) and src(a.targets[0]) == fn.id and src(a.value) == "self.bcp_receive_commands[cmd]" for a in ast.walk(pm.node)))
        chk.ob("PASS-19", "the handler is the one registered for the received command", looked, pm.where(c), construct=pm.ident, text="handler lookup")
        cl = kwarg(c, "client")
        chk.ob("PASS-19", "the handler is told which client sent the command", cl is not None and src(cl) == "client", pm.where(c), construct=pm.ident,
               text="handler client")
    MUT = {"pop", "update", "clear", "setdefault", "popitem", "__setitem__", "__delitem__"}
    bad = []
    for x in walk_local(pm.node):
        if isinstance(x, (ast.Assign, ast.AugAssign, ast.AnnAssign)):
            ts = x.targets if isinstance(x, ast.Assign) else [x.target]
            for t in ts:
                for y in ast.walk(t):
                    if isinstance(y, ast.Name) and y.id in ("kwargs", "cmd") and isinstance(y.ctx, ast.Store):
                        bad.append((x, "rebinds `%s`" % y.id))
                    if isinstance(y, ast.Subscript) and src(y.value) == "kwargs" and isinstance(y.ctx, (ast.Store, ast.Del)):
                        bad.append((x, "edits kwargs[...]"))
        if isinstance(x, ast.Delete) and any(src(getattr(t, "value", t)) == "kwargs" for t in x.targets):
            bad.append((x, "deletes from kwargs"))
        if isinstance(x, ast.Call) and call_attr(x) in MUT and isinstance(x.func, ast.Attribute) and src(x.func.value) == "kwargs":
            bad.append((x, "kwargs.%s()" % call_attr(x)))
    for x, why in bad:
        chk.ob("PASS-19", "process_bcp_message leaves the received command and parameters as decoded", False, pm.where(x), detail=why, construct=pm.ident,
               text="received message changed: " + why)
    if not bad:
        chk.ob("PASS-19", "process_bcp_message leaves the received command and parameters as decoded (no rebinding, no in-place edit)", True, pm.where(),
               construct=pm.ident, text="received message untouched")
    snd = repo.func(BS, "AsyncioBcpClientSocket.send")
    ok = any(call_attr(c) == "write" and "+ '\\n'" in src(c) for c in snd.calls())
    chk.ob("OWN-17", "each command is sent as exactly one line", ok, snd.where(), construct=snd.ident, text="one line per command")


def _payload_marker(chk, repo):
    """FRAME-1 (marker): the payload announcement is the *parameter* `bytes`: the marker the readers look for starts with the pair separator
    `&` and ends with `=` (b'&bytes='), so a parameter whose name merely ends in "bytes" (total_bytes=24) or a value containing "bytes=" is
    not taken for it; the line is cut at the same marker it was recognised by."""
    mod = repo.mod(BS)
    consts = [x for x in mod.tree.body if isinstance(x, ast.Assign) and src(x.targets[0]) == "BYTE_MARKER" and isinstance(x.value, ast.Constant)]
    chk.expect(len(consts) == 1, "C19: BYTE_MARKER constant not found")
    if consts:
        v = consts[0].value.value
        ok = isinstance(v, bytes) and v.startswith(b"&") and v.endswith(b"=") and v[1:-1] == b"bytes"
        chk.ob("FRAME-1", "the byte marker is the whole parameter `bytes` with its separators (b'&bytes=')", ok, "%s:%d" % (BS, consts[0].lineno), detail=repr(v),
               construct=BS + "::BYTE_MARKER", text="byte marker %r" % (v,))
    n = 0
    for c in mod.classes.values():
        f = c.methods.get("read_message")
        if f is None:
            continue
        for x in f.calls():
            if call_attr(x) == "split" and src(x.func.value) == "message" and x.args:
                a = x.args[0]
                n += 1
                same = src(a) == "BYTE_MARKER" or (consts and isinstance(a, ast.Constant) and a.value == consts[0].value.value)
                chk.ob("FRAME-1", "%s.read_message cuts the line at the marker it tested for" % c.name, bool(same), f.where(x), detail=src(a), construct=f.ident,
                       text="marker split in " + c.name)
    chk.ob("FRAME-1", "marker splits examined (%d)" % n, n >= 2, BS + ":1", nontrivial=False)


def _parameter_names_free(chk, repo):
    """NAMES-19: every parameter name can be sent.  The message's parameters travel as **kwargs through the senders (send, send_to_*) into the
    encoder; a named parameter of a function on that route shadows the message parameter of the same name (TypeError: got multiple values -
    the socket client logs it and drops the message).  The named parameters of those functions are disjoint from the message parameter
    names the framework's own BCP code sends."""
    ROUTE = ("send", "send_to_client", "send_to_clients", "send_to_all_clients", "send_to_clients_with_handler", "encode_command_string")
    defs = {}
    for rel, m in repo.modules.items():
        if rel.startswith("mpf/core/bcp/"):
            for f in m.all_funcs():
                if f.name in ROUTE and f.node.args.kwarg is not None:
                    defs.setdefault(f.name, []).append(f)
    named_of = {nm: set().union(*[{a.arg for a in f.node.args.args + f.node.args.kwonlyargs} for f in fs]) for nm, fs in defs.items()}
    used = {}
    for rel, m in repo.modules.items():
        if not rel.startswith("mpf/"):
            continue
        for f in m.all_funcs():
            for c in f.calls():
                nm = call_attr(c)
                if nm in named_of and (nm != "send" or "bcp" in src(c.func).lower()):
                    for k in c.keywords:
                        if k.arg and k.arg not in named_of[nm]:
                            used.setdefault(k.arg, (f, c))
    n = 0
    for nm, fs in sorted(defs.items()):
        for f in fs:
            n += 1
            named = {a.arg for a in f.node.args.args + f.node.args.kwonlyargs if a.arg not in ("self", "cls")}
            clash = sorted(named & set(used))
            chk.ob("NAMES-19", "%s takes the message's parameters as **kwargs and names none of them itself" % f.qualname, not clash, f.where(),
                   detail="named parameter(s) %s are also sent as message parameters (%s)" % (clash, ", ".join("%s:%d" % (used[c_][0].relpath, used[c_][1].lineno) for c_ in clash)),
                   construct=f.ident, text="parameter name shadows a message parameter in " + f.name)
    chk.ob("NAMES-19", "functions on the **kwargs route examined (%d), message parameter names seen: %d" % (n, len(used)), n >= 2 and len(used) >= 5, BS + ":1", nontrivial=False)


def _memo_rule(chk, repo, tagf):
    """CACHE-1: nothing on the encoding path is memoised by argument value.  A cache keyed by `==` cannot tell True from 1
    from 1.0 (nor 0.0 from -0.0): whichever is encoded first decides the wire form -- and the decoded type -- of the others."""
    n = 0
    for f in list(repo.mod(BS).functions.values()) + [m for c in repo.mod(BS).classes.values() for m in c.methods.values()]:
        decs = [d for d in f.decorators()]
        memo = [d for d in decs if d.split(".")[-1] in ("lru_cache", "cache", "cached", "memoize", "memoized")]
        n += 1
        if not memo:
            continue
        typed = any(k.arg == "typed" and const_value(k.value) is True for d in f.node.decorator_list if isinstance(d, ast.Call) for k in d.keywords)
        type_dep = any(isinstance(x, ast.Call) and call_attr(x) in ("isinstance", "type") for x in ast.walk(f.node)) or \
            any(isinstance(x, ast.Compare) and isinstance(x.ops[0], (ast.Is, ast.IsNot)) for x in ast.walk(f.node))
        chk.ob("CACHE-1", "%s is not memoised by value although its result depends on the argument's type" % f.qualname, typed or not type_dep,
               f.where(), detail="@%s: True, 1 and 1.0 (0.0 and -0.0) share one cache entry" % memo[0], construct=f.ident,
               text="value-keyed cache on type-dependent %s" % f.name)
    chk.ob("CACHE-1", "functions of the BCP codec examined for value-keyed caches", n >= 3, "%s:1" % BS, detail="%d" % n, nontrivial=False)


def _frame_rules(chk, cn, f, cfg):
    """FRAME-1: what read_message does with one line -- strip exactly the line terminator, take the payload branch iff the
    byte marker is in the line, hand (text[, payload]) to the decoder on the right branch, return every decoded command."""
    # newline strip: exactly one trailing byte (or an rstrip of the terminator)
    strips = [n for n in cfg.nodes if n.kind == "stmt" and isinstance(n.ast, ast.Assign) and src(n.ast.targets[0]) == "message"
              and isinstance(n.ast.value, (ast.Subscript, ast.Call)) and "readline" not in src(n.ast.value) and "split" not in src(n.ast.value)]
    ok = False
    for n in strips:
        v = n.ast.value
        if isinstance(v, ast.Subscript) and src(v.value) == "message" and isinstance(v.slice, ast.Slice):
            lo = const_value(v.slice.lower) if v.slice.lower is not None else 0
            hi = const_value(v.slice.upper) if v.slice.upper is not None else None
            ok = lo == 0 and hi == -1 and v.slice.step is None
        elif isinstance(v, ast.Call) and call_attr(v) in ("rstrip", "removesuffix") and src(v.func.value) == "message":
            ok = bool(v.args) and src(v.args[0]) in ("b'\\n'", 'b"\\n"')
    chk.ob("FRAME-1", "%s strips exactly the line terminator from the line read" % cn, len(strips) == 1 and ok, f.where(),
           detail="strip statements: %s" % [src(n.ast) for n in strips], construct=f.ident, text="newline strip in " + cn)
    rl = [n for n in cfg.nodes if n.kind == "stmt" and "readline" in n.text(200)]
    pcs = [(n, c) for n, c in cfg.calls_named("_process_command")]
    if not pcs:
        chk.missing("FRAME-1", "%s.read_message decodes the line (_process_command)" % cn, f)
        return
    for n in strips:
        chk.ob("FRAME-1", "%s: the strip happens once per line, before the marker test and the decode" % cn,
               all(cfg.dominates(n.id, p.id) for p, _ in pcs) and all(cfg.dominates(r.id, n.id) for r in rl), f.where(n.ast),
               construct=f.ident, text="strip position in " + cn)
    two = one = 0
    for n, c in pcs:
        g = cfg.guards_at(n.id)
        marker = g.get("BYTE_MARKER in message")
        if marker is None and g.get("BYTE_MARKER not in message") is not None:
            marker = not g.get("BYTE_MARKER not in message")
        if marker is None:
            mk = [k for k in g if "in message" in k and ("bytes" in k.lower())]
            marker = g[mk[0]] if mk else None
        if len(c.args) >= 2:
            two += 1
            rex = [m for m, cc in cfg.calls_named("readexactly")]
            payload_names = {src(t) for m in rex if isinstance(m.ast, ast.Assign) for t in m.ast.targets}
            ok = marker is True and src(c.args[0]) == "message" and src(c.args[1]) in payload_names and \
                all(cfg.dominates(m.id, n.id) for m in rex)
            chk.ob("FRAME-1", "%s: a line with the byte marker is decoded together with the payload read for it" % cn, ok, f.where(c),
                   detail="guards %s" % sorted(g.items()), construct=f.ident, text="payload branch in " + cn)
        else:
            one += 1
            ok = marker is False and len(c.args) == 1 and src(c.args[0]) == "message"
            chk.ob("FRAME-1", "%s: a line without the byte marker is decoded as it is, and no payload bytes are consumed" % cn, ok, f.where(c),
                   detail="guards %s" % sorted(g.items()), construct=f.ident, text="plain branch in " + cn)
            rex = [m.id for m, cc in cfg.calls_named("readexactly")]
            chk.ob("FRAME-1", "%s: payload bytes are read only for lines that announce them" % cn,
                   all(cfg.guards_at(m).get("BYTE_MARKER in message") is True for m in rex), f.where(c), construct=f.ident,
                   text="readexactly guard in " + cn)
    chk.ob("FRAME-1", "%s has both the payload and the plain decode branch" % cn, two >= 1 and one >= 1, f.where(), construct=f.ident,
           text="decode branches in " + cn)
    # every decoded command is returned; only an empty result continues with the next line
    for r in [x for x in cfg.nodes if x.kind == "stmt" and isinstance(x.ast, ast.Return)]:
        g = cfg.guards_at(r.id)
        ok = g.get("message_obj") is True and all(k in ("message_obj", "message", "BYTE_MARKER in message", "True") or v is not None
                                                  for k, v in g.items())
        chk.ob("FRAME-1", "%s returns a decoded command as soon as there is one" % cn, ok and set(g) <= {"message_obj", "message", "True"},
               f.where(r.ast), detail="guards %s" % sorted(g.items()), construct=f.ident, text="return guard in " + cn)


def battery():
    from sa.battery import M
    return [
        M("encoder's positional parameter named like a message parameter", BS, "def encode_command_string(bcp_command, **kwargs) -> str:", "def encode_command_string(cmd, **kwargs) -> str:", "NAMES-19",
          also=[(BS, "    return str(urlunparse(('', '', bcp_command, '', kwarg_string, '')))", "    return str(urlunparse(('', '', cmd, '', kwarg_string, '')))")]),
        M("byte marker without its separator", BS, "BYTE_MARKER = b'&bytes='", "BYTE_MARKER = b'bytes='", "FRAME-1"),
        M("tag as prefix, None gets a body too", BS, "        value = quote(str(v), '')\n\n        if isinstance(v, bool):  # bool isinstance of int, so this goes first\n            value = 'bool:{}'.format(value)\n        elif isinstance(v, int):\n            value = 'int:{}'.format(value)\n        elif isinstance(v, float):\n            value = 'float:{}'.format(value)\n        elif v is None:\n            value = 'NoneType:'\n        else:  # cast anything else as a string\n            value = str(value)\n\n        kwarg_string += '{}={}&'.format(quote(k, ''),\n                                        value)", "        if isinstance(v, bool):\n            prefix = 'bool:'\n        elif isinstance(v, int):\n            prefix = 'int:'\n        elif isinstance(v, float):\n            prefix = 'float:'\n        elif v is None:\n            prefix = 'NoneType:'\n        else:\n            prefix = ''\n\n        kwarg_string += '{}={}{}&'.format(quote(k, ''), prefix, quote(str(v), ''))", ("LAYER-1", "TABLE-9")),
        M("twin: tag as prefix, None without a body", BS, "        value = quote(str(v), '')\n\n        if isinstance(v, bool):  # bool isinstance of int, so this goes first\n            value = 'bool:{}'.format(value)\n        elif isinstance(v, int):\n            value = 'int:{}'.format(value)\n        elif isinstance(v, float):\n            value = 'float:{}'.format(value)\n        elif v is None:\n            value = 'NoneType:'\n        else:  # cast anything else as a string\n            value = str(value)\n\n        kwarg_string += '{}={}&'.format(quote(k, ''),\n                                        value)", "        if isinstance(v, bool):\n            prefix = 'bool:'\n        elif isinstance(v, int):\n            prefix = 'int:'\n        elif isinstance(v, float):\n            prefix = 'float:'\n        elif v is None:\n            prefix = 'NoneType:'\n        else:\n            prefix = ''\n\n        kwarg_string += '{}={}{}&'.format(quote(k, ''), prefix, '' if v is None else quote(str(v), ''))", None),
        M("decoded commands memoised by line", BS, "def decode_command_string(bcp_string) -> Tuple[str, dict]:", "import functools\n\n\n@functools.lru_cache(maxsize=1024)\ndef decode_command_string(bcp_string) -> Tuple[str, dict]:", "MEMO-0"),
        M("double unquote of strings", BS, "            kwargs[name] = unquote_plus(value)\n\n    return", "            kwargs[name] = unquote_plus(unquote_plus(value))\n\n    return", "LAYER-1"),
        M("numbers not unquoted", BS, "            kwargs[name] = float(unquote_plus(value[6:]))", "            kwargs[name] = float(value[6:])", "LAYER-1"),
        M("encoder leaves ':' safe", BS, "        value = quote(str(v), '')", "        value = quote(str(v), ':')", "LAYER-1"),
        M("tags tested after unquoting", BS, "        name, _, value = pair.partition('=')\n        name = unquote_plus(name)", "        name, _, value = pair.partition('=')\n        value = unquote_plus(value)\n        name = unquote_plus(name)", ("LAYER-2", "LAYER-1")),
        M("int before bool", BS, "        if isinstance(v, bool):  # bool isinstance of int, so this goes first\n            value = 'bool:{}'.format(value)\n        elif isinstance(v, int):\n            value = 'int:{}'.format(value)", "        if isinstance(v, int):\n            value = 'int:{}'.format(value)\n        elif isinstance(v, bool):\n            value = 'bool:{}'.format(value)", "TABLE-9"),
        M("float slice 5", BS, "float(unquote_plus(value[6:]))", "float(unquote_plus(value[5:]))", "TABLE-9"),
        M("decoder forgets None tag", BS, "        elif value == 'NoneType:':\n            kwargs[name] = None\n", "", "TABLE-9"),
        M("int parsed through a double", BS, "            kwargs[name] = int(unquote_plus(value[4:]))", "            kwargs[name] = int(float(unquote_plus(value[4:])))", "TABLE-9"),
        M("int parsed as float", BS, "            kwargs[name] = int(unquote_plus(value[4:]))", "            kwargs[name] = float(unquote_plus(value[4:]))", "TABLE-9"),
        M("payload read in a loop of read()", BS, "                raw_bytes = await self._receiver.readexactly(bytes_needed)", "                raw_bytes = b''\n                while len(raw_bytes) < bytes_needed:\n                    raw_bytes += await self._receiver.read(bytes_needed)", "OWN-17"),
        M("payload length guessed", BS, "                rawbytes = await self._receiver.readexactly(bytes_needed)", "                rawbytes = await self._receiver.readexactly(1024)", "OWN-17"),
        M("json for tuples too", BS, "        if isinstance(v, (dict, list)):\n            json_needed = True", "        if isinstance(v, (dict, list)) or k == 'json':\n            json_needed = True", "DOM-37"),
        M("json tested after pairs", BS, "    if bcp_command.query[0:5] == \"json=\":\n        kwargs = json.loads(bcp_command.query[5:])\n        return bcp_command.path, kwargs\n", "", "DOM-37"),
        # twins
        M("twin: unquote instead of unquote_plus for numbers", BS, "            kwargs[name] = int(unquote_plus(value[4:]))", "            kwargs[name] = int(unquote_plus(value[len('int:'):]))", None),
        M("twin: renamed local", BS, "                raw_bytes = await self._receiver.readexactly(bytes_needed)\n\n                message_obj = self._process_command(message, raw_bytes)", "                payload = await self._receiver.readexactly(bytes_needed)\n\n                message_obj = self._process_command(message, payload)", None),
        M("newline not stripped", BS, "            message = message[0:-1]\n", "", "FRAME-1", nth=0),
        M("two bytes stripped", BS, "message = message[0:-1]", "message = message[0:-2]", "FRAME-1", nth=1),
        M("payload branch inverted", BS, "            if BYTE_MARKER in message:\n                message, bytes_needed = message.split(BYTE_MARKER)", "            if BYTE_MARKER not in message:\n                message, bytes_needed = message.split(BYTE_MARKER)", "FRAME-1"),
        M("payload read but not handed to the decoder", BS, "message_obj = self._process_command(message, raw_bytes)", "message_obj = self._process_command(message)", "FRAME-1"),
        M("decoded command dropped", BS, "            else:  # no bytes in the message\n                message_obj = self._process_command(message)\n\n            if message_obj:\n                return message_obj\n\n    def send", "            else:  # no bytes in the message\n                message_obj = self._process_command(message)\n\n            if not message_obj:\n                return message_obj\n\n    def send", "FRAME-1"),
        M("EOF test inverted", BS, "            if not message:\n                raise BrokenPipeError()", "            if message:\n                raise BrokenPipeError()", "OWN-17", nth=0),
        M("twin: rstrip newline", BS, "message = message[0:-1]", "message = message[:-1]", None, nth=-1),
        M("value encoding memoised by value", BS, "def encode_command_string(bcp_command, **kwargs) -> str:", "import functools\n\n\n@functools.lru_cache(maxsize=128)\ndef _tag_of(v):\n    return 'bool:' if isinstance(v, bool) else ''\n\n\ndef encode_command_string(bcp_command, **kwargs) -> str:", "CACHE-1"),
        M("commands processed in spawned tasks", "mpf/core/bcp/bcp_transport.py", "            await self._machine.bcp.interface.process_bcp_message(cmd, kwargs, transport)", "            self._machine.clock.loop.create_task(self._machine.bcp.interface.process_bcp_message(cmd, kwargs, transport))", "SYNC-19"),
        M("twin: value tagging moved into a helper", BS, "def encode_command_string(bcp_command, **kwargs) -> str:", "def _encode_value(v) -> str:\n    value = quote(str(v), '')\n    if isinstance(v, bool):\n        return 'bool:{}'.format(value)\n    if isinstance(v, int):\n        return 'int:{}'.format(value)\n    if isinstance(v, float):\n        return 'float:{}'.format(value)\n    if v is None:\n        return 'NoneType:'\n    return value\n\n\ndef encode_command_string(bcp_command, **kwargs) -> str:", None,
          also=[(BS, "        value = quote(str(v), '')\n\n        if isinstance(v, bool):  # bool isinstance of int, so this goes first\n            value = 'bool:{}'.format(value)\n        elif isinstance(v, int):\n            value = 'int:{}'.format(value)\n        elif isinstance(v, float):\n            value = 'float:{}'.format(value)\n        elif v is None:\n            value = 'NoneType:'\n        else:  # cast anything else as a string\n            value = str(value)\n\n        kwarg_string += '{}={}&'.format(quote(k, ''),\n                                        value)", "        kwarg_string += '{}={}&'.format(quote(k, ''),\n                                        _encode_value(v))")]),
        M("debug logging summarises the payload in place", "mpf/core/bcp/bcp_interface.py", "                debug_kwargs = deepcopy(kwargs)\n                debug_kwargs['rawbytes'] = '<{} bytes>'.format(\n                    len(debug_kwargs.pop('rawbytes')))\n\n                self.debug_log(\"Processing command: %s %s\", cmd, debug_kwargs)", "                kwargs = dict(kwargs, rawbytes='<{} bytes>'.format(len(kwargs['rawbytes'])))\n                self.debug_log(\"Processing command: %s %s\", cmd, kwargs)", "PASS-19"),
        M("debug logging pops the payload", "mpf/core/bcp/bcp_interface.py", "                debug_kwargs = deepcopy(kwargs)\n", "                debug_kwargs = kwargs\n                kwargs.pop('rawbytes')\n", "PASS-19"),
        M("receive loop swaps command and parameters", "mpf/core/bcp/bcp_transport.py", "process_bcp_message(cmd, kwargs, transport)", "process_bcp_message(kwargs, cmd, transport)", "PASS-19"),
        M("ints above a bound are sent as plain text", BS, "        elif isinstance(v, int):\n            value = 'int:{}'.format(value)", "        elif isinstance(v, int) and abs(v) < 2 ** 31:\n            value = 'int:{}'.format(value)", "TABLE-9"),
        M("decoder accepts the None tag only for some names", BS, "        elif value == 'NoneType:':\n            kwargs[name] = None", "        elif value == 'NoneType:' and name != 'value':\n            kwargs[name] = None", "TABLE-9"),
        M("decoder drops parameters named like an earlier prefix", BS, "        if name in kwargs:\n            continue", "        if name in kwargs or name.startswith('_'):\n            continue", "TABLE-9"),
        M("only the last parameter is sent", BS, "        kwarg_string += '{}={}&'.format(quote(k, ''),", "        kwarg_string = '{}={}&'.format(quote(k, ''),", "LAYER-1"),
        M("JSON form leaves non-ASCII text unescaped", BS, "json.dumps(kwargs, cls=MpfJSONEncoder)", "json.dumps(kwargs, cls=MpfJSONEncoder, ensure_ascii=False)", "DOM-37"),
        M("JSON form refuses non-finite floats", BS, "json.dumps(kwargs, cls=MpfJSONEncoder)", "json.dumps(kwargs, cls=MpfJSONEncoder, allow_nan=False)", "DOM-37"),
        M("JSON body escapes & without escaping the escape", BS, "kwarg_string = 'json={}'.format(json.dumps(kwargs, cls=MpfJSONEncoder))", "kwarg_string = 'json={}'.format(json.dumps(kwargs, cls=MpfJSONEncoder).replace('&', '%26'))", "DOM-37"),
    ]


def thorough(chk):
    from sa.battery import run_battery
    run_battery(chk, battery())
