"""C03 — switch state mirrors hardware; handlers fire once per change (structural clauses).

UNIT-1 dimensions in the switch controller   DOM-6 duplicate suppression
DOM-7  NC inversion                           DOM-8 cancel timed handlers on change, then call handlers, then monitors
PAIR-3 symmetric add/remove stores            SNAP-2 / DOM-9 snapshot + cancelled / membership re-check
PAIR-4 one scheduled wake-up per switch       DOM-10t timed deadline = change time + hold time, fired when due
"""
import ast

from sa.model import src, short, dotted, call_attr, kwarg, walk_local, AnalysisError, assigned_targets, const_value
from sa.helpers import is_snapshot, base_container, feasible_paths
from sa.units import Units, load_spec, ABS, S, MS

SC = "mpf/core/switch_controller.py"
SW = "mpf/devices/switch.py"
K = "SwitchController"


def _flip_target(stmt):
    """Name flipped by `x ^= 1`, `x = x ^ 1`, `x = 1 - x`, `x = int(not x)`, `x = not x` or None."""
    if isinstance(stmt, ast.AugAssign) and isinstance(stmt.op, ast.BitXor) and const_value(stmt.value) == 1:
        return dotted(stmt.target)
    if isinstance(stmt, ast.Assign) and len(stmt.targets) == 1:
        t = dotted(stmt.targets[0])
        v = stmt.value
        if t is None:
            return None
        if isinstance(v, ast.BinOp) and isinstance(v.op, ast.BitXor) and {src(v.left), src(v.right)} == {t, "1"}:
            return t
        if isinstance(v, ast.BinOp) and isinstance(v.op, ast.Sub) and src(v.left) == "1" and src(v.right) == t:
            return t
        if isinstance(v, ast.UnaryOp) and isinstance(v.op, ast.Not) and src(v.operand) == t:
            return t
        if isinstance(v, ast.Call) and call_attr(v) == "int" and v.args and isinstance(v.args[0], ast.UnaryOp) \
                and isinstance(v.args[0].op, ast.Not) and src(v.args[0].operand) == t:
            return t
    return None


def check(chk):
    repo = chk.repo
    chk.explanation = ("C03: unit consistency of every time expression in the switch controller, dominance of the "
                       "duplicate test over all effects, NC inversion branches, cancel-before-call order, symmetric "
                       "add/remove of handler records, snapshot iteration and re-checks, single scheduled wake-up. "
                       "Exactly-once over arbitrary timelines is not decided.")
    units = Units(repo, load_spec(repo))
    sc = repo.cls(SC, K)

    # ------------------------------------------------------------- UNIT-1
    typed = 0
    for rel, cls in ((SC, K), (SW, "Switch")):
        c = repo.cls(rel, cls)
        for f in c.methods.values():
            chk.analysed(f)
            for kind, node, detail in units.scan_function(f):
                gating = kind in ("arith", "sink", "assign") or (kind == "compare" and f.name == "add_switch_handler_obj")
                if gating:
                    chk.ob("UNIT-1", "time arithmetic is dimensionally consistent in %s" % f.qualname, False, f.where(node),
                           detail=detail, construct=f.ident, text="%s %s" % (kind, short(node, 90)))
                else:
                    chk.observe("UNIT-1", detail, f.where(node))
    # named anchors: the deadline key and the catch-up test
    for fn in ("_call_handlers", "add_switch_handler_obj"):
        f = repo.func(SC, K + "." + fn)
        env = units.env_for(f)
        keys = [n for n in walk_local(f.node) if isinstance(n, ast.Assign) and dotted(n.targets[0]) == "key"]
        chk.ob("UNIT-1", "%s computes a deadline key" % fn, bool(keys), f.where(), construct=f.ident, text="key present")
        for n in keys:
            v = n.value
            ok = isinstance(v, ast.BinOp) and isinstance(v.op, ast.Add) and units.dim(v.left, f, env) == ABS \
                and units.dim(v.right, f, env) == S and "last_change" in src(v.left)
            typed += 1
            chk.ob("UNIT-1", "deadline = last change (clock seconds) + hold time in seconds (%s)" % fn, ok, f.where(n),
                   detail="%s : %s + %s" % (src(v), units.dim(getattr(v, "left", None), f, env), units.dim(getattr(v, "right", None), f, env)),
                   construct=f.ident, text="deadline " + src(v))
    f = repo.func(SC, K + ".add_switch_handler_obj")
    env = units.env_for(f)
    cmpn = [n for n in walk_local(f.node) if isinstance(n, ast.Compare) and "last_change" in src(n)]
    chk.ob("UNIT-1", "mid-interval catch-up test exists", bool(cmpn), f.where(), construct=f.ident, text="catch-up test present")
    for n in cmpn:
        l = units.dim(n.left, f, env)
        r = units.dim(n.comparators[0], f, env)
        typed += 1
        chk.ob("UNIT-1", "catch-up test compares clock seconds with clock seconds", l == ABS and r == ABS, f.where(n),
               detail="%s vs %s in %s" % (l, r, src(n)), construct=f.ident, text="catch-up " + src(n))
        # direction: still ahead  <=>  last_change + hold > now  <=>  last_change > now - hold
        ok = isinstance(n.ops[0], (ast.Gt, ast.GtE)) and "last_change" in src(n.left) and isinstance(n.comparators[0], ast.BinOp) \
            and isinstance(n.comparators[0].op, ast.Sub)
        ok = ok or (isinstance(n.ops[0], (ast.Lt, ast.LtE)) and "last_change" in src(n.comparators[0]))
        ok = ok or (isinstance(n.left, ast.BinOp) and isinstance(n.left.op, ast.Add) and isinstance(n.ops[0], (ast.Gt, ast.GtE)))
        chk.ob("UNIT-1", "catch-up arms the handler only when the original deadline is still ahead", ok, f.where(n),
               construct=f.ident, text="catch-up direction " + src(n))
    cfg = f.cfg()
    adds = [(n, c) for n, c in cfg.calls_named("_add_timed_switch_handler")]
    for n, c in adds:
        g = cfg.guards_at(n.id)
        ok = g.get("ms") is True and any("state == switch.state" in k.replace("switch.state == state", "state == switch.state") and v is True
                                         for k, v in g.items())
        chk.ob("UNIT-1", "catch-up only for timed handlers whose state is the current state", ok, f.where(c),
               detail="guards %s" % sorted(g.items()), construct=f.ident, text="catch-up guards")
    chk.floor("UNIT-1", 5)

    # ------------------------------------------------------- DOM-6/7/8
    f = repo.func(SC, K + ".process_switch_obj")
    chk.analysed(f)
    cfg = f.cfg()
    dup = [b for b in cfg.nodes if b.kind == "branch" and src(b.ast).replace(" ", "") in ("obj.state==state", "state==obj.state")]
    dupn = [b for b in cfg.nodes if b.kind == "branch" and src(b.ast).replace(" ", "") in ("obj.state!=state", "state!=obj.state")]
    chk.require(dup or dupn, "C03: duplicate test vanished from process_switch_obj")

    def not_dup(nid):
        g = cfg.guards_at(nid)
        return any(k.replace(" ", "") in ("obj.state==state", "state==obj.state") and v is False for k, v in g.items()) or \
            any(k.replace(" ", "") in ("obj.state!=state", "state!=obj.state") and v is True for k, v in g.items())
    effects = []
    for n in cfg.nodes_where(lambda n: n.kind == "stmt"):
        for t in assigned_targets(n.ast):
            if dotted(t) in ("obj.state", "obj.hw_state", "obj.last_change"):
                effects.append((n, "store " + dotted(t)))
    for n, c in cfg.calls_named("_cancel_timed_handlers", "_call_handlers"):
        effects.append((n, "call " + call_attr(c)))
    for n in cfg.nodes:
        if n.kind == "loop" and "monitors" in src(n.ast.iter):
            effects.append((n, "monitor loop"))
    chk.expect(len(effects) >= 6, "C03: effects of a switch change not found in process_switch_obj")
    for n, what in effects:
        chk.ob("DOM-6", "%s happens only for a real change (not a duplicate report)" % what, not_dup(n.id), f.where(n.ast),
               detail="not dominated by the false side of `obj.state == state`", construct=f.ident, text="effect " + what)
    # the duplicate side returns without effects
    for b in dup:
        if b.value is True:
            reach = cfg.reachable([b.id])
            bad = [n for n, what in effects if n.id in reach]
            chk.ob("DOM-6", "a duplicate report reaches no effect", not bad, f.where(b.ast), construct=f.ident,
                   text="duplicate side effects")
    # the comparison happens after the inversion and against the *logical* state
    flips = [(n, _flip_target(n.ast)) for n in cfg.nodes_where(lambda n: n.kind == "stmt") if _flip_target(n.ast)]
    got = {}
    for n, t in flips:
        g = cfg.guards_at(n.id)
        got[t] = (g.get("obj.invert"), g.get("logical"))
        for b in dup + dupn:
            chk.ob("DOM-7", "inversion of %s precedes the duplicate test" % t, not cfg.path_avoiding(b.id, [n.id], []),
                   f.where(n.ast), construct=f.ident, text="flip after test " + t)
    chk.ob("DOM-7", "NC + logical report flips exactly the hardware state", got.get("hw_state") == (True, True), f.where(),
           detail="flips found: %s" % got, construct=f.ident, text="flip hw_state under invert&logical")
    chk.ob("DOM-7", "NC + raw report flips exactly the logical state", got.get("state") == (True, False), f.where(),
           detail="flips found: %s" % got, construct=f.ident, text="flip state under invert&not logical")
    chk.ob("DOM-7", "no other inversion", set(got) <= {"hw_state", "state"} and len(flips) == 2, f.where(),
           detail="flips: %s" % [(t, f.where(n.ast)) for n, t in flips], construct=f.ident, text="flip count")
    hw0 = [n for n in cfg.nodes_where(lambda n: n.kind == "stmt" and isinstance(n.ast, ast.Assign) and
                                      dotted(n.ast.targets[0]) == "hw_state")]
    ok = bool(hw0) and src(hw0[0].ast.value) == "state" and all(cfg.dominates(hw0[0].id, n.id) for n, t in flips)
    chk.ob("DOM-7", "hardware state starts as the normalised reported state, before inversion", ok, f.where(),
           construct=f.ident, text="hw_state = state first")
    # normalisation to 0/1
    norm = [n for n in cfg.nodes_where(lambda n: n.kind == "stmt" and isinstance(n.ast, ast.Assign) and
                                       dotted(n.ast.targets[0]) == "state" and src(n.ast.value) in ("1", "0", "int(bool(state))", "1 if state else 0"))]
    chk.ob("DOM-7", "reported state is normalised to 0/1", bool(norm), f.where(), construct=f.ident, text="state normalised")
    st_store = [n for n, w in effects if w == "store obj.state"]
    hw_store = [n for n, w in effects if w == "store obj.hw_state"]
    chk.ob("DOM-7", "obj.state receives the logical and obj.hw_state the hardware value",
           bool(st_store) and src(st_store[0].ast.value) == "state" and bool(hw_store) and src(hw_store[0].ast.value) == "hw_state",
           f.where(), construct=f.ident, text="stores of state/hw_state")
    lc = [n for n, w in effects if w == "store obj.last_change"]
    chk.ob("DOM-7", "last_change receives the change timestamp", bool(lc) and src(lc[0].ast.value) == "timestamp", f.where(),
           construct=f.ident, text="last_change = timestamp")
    # DOM-8 order: store -> cancel -> call handlers -> monitors
    cancel = [n for n, w in effects if w == "call _cancel_timed_handlers"]
    callh = [n for n, w in effects if w == "call _call_handlers"]
    mon = [n for n, w in effects if w == "monitor loop"]
    chk.require(callh and mon and st_store, "C03: anchors of DOM-8 vanished")
    w = cfg.must_pass(st_store[0].id, [c.id for c in cancel])
    chk.ob("DOM-8", "every path after the state store cancels the pending timed handlers", w is None, f.where(st_store[0].ast),
           path=cfg.fmt_path(w, SC) if w else None, construct=f.ident, text="cancel after store")
    chk.ob("DOM-8", "timed handlers of the old state are cancelled before the new state's handlers are armed/called",
           all(cfg.dominates(c.id, h.id) for c in cancel for h in callh), f.where(callh[0].ast), construct=f.ident,
           text="cancel before call")
    chk.ob("DOM-8", "the state is stored before handlers run", all(cfg.dominates(st_store[0].id, h.id) and cfg.dominates(lc[0].id, h.id)
                                                                   for h in callh) if lc else False, f.where(), construct=f.ident,
           text="store before handlers")
    for h in callh:
        g = cfg.guards_at(h.id)
        # tests of the `if` statements lexically enclosing the call
        encl = set()
        for x in ast.walk(f.node):
            if isinstance(x, ast.If) and any(y is h.ast for st in x.body + x.orelse for y in ast.walk(st)):
                for b in cfg.nodes:
                    if b.kind == "test" and b.owner is x:
                        encl.add(src(b.ast))
        ok = g.get("self._initialized") is True and g.get("obj.is_muted") is False and \
            encl <= {"self._initialized", "obj.is_muted"}
        chk.ob("DOM-8", "handlers are skipped only before init or while muted", ok, f.where(h.ast),
               detail="guards %s" % sorted(g.items()), construct=f.ident, text="handler call guards")
        c = [c for c in h.calls() if call_attr(c) == "_call_handlers"][0]
        chk.ob("DOM-8", "handlers of the *new* logical state are called", len(c.args) == 2 and src(c.args[0]) == "obj" and src(c.args[1]) == "state",
               f.where(c), construct=f.ident, text="call_handlers args " + short(c))
    for m_ in mon:
        chk.ob("DOM-8", "the monitor loop runs over all registered monitors", src(base_container(m_.ast.iter)) == "self.monitors",
               f.where(m_.ast), detail="iterates " + short(m_.ast.iter), construct=f.ident, text="monitor loop iter " + short(m_.ast.iter))
    w = cfg.must_pass(st_store[0].id, [m.id for m in mon])
    chk.ob("DOM-8", "monitors see every change", w is None, f.where(), path=cfg.fmt_path(w, SC) if w else None,
           construct=f.ident, text="monitors after store")
    chk.floor("DOM-6", 5)
    chk.floor("DOM-7", 6)
    chk.floor("DOM-8", 5)

    # ------------------------------------------------------------- SNAP-2 / DOM-9
    f = repo.func(SC, K + "._call_handlers")
    chk.analysed(f)
    cfg = f.cfg()
    loops = [h for h in cfg.nodes if h.kind == "loop"]
    chk.require(loops, "C03: loop vanished from _call_handlers")
    head = loops[0]
    chk.ob("SNAP-2", "_call_handlers iterates a copy of the handler list", is_snapshot(head.ast.iter), f.where(head.ast),
           detail="handlers add/remove handlers while being called", construct=f.ident, text="snapshot " + short(head.ast.iter))
    bt = src(base_container(head.ast.iter)).replace(" ", "")
    chk.ob("SNAP-2", "handlers are taken from registered_switches[switch][state]", bt == "self.registered_switches[switch][state]",
           f.where(head.ast), detail=bt, construct=f.ident, text="handler list " + bt)
    ev = head.ast.target.id if isinstance(head.ast.target, ast.Name) else "entry"
    uses = [(n, c) for n, c in cfg.calls_named("callback", "_add_timed_switch_handler")]
    chk.require(uses, "C03: handler use vanished from _call_handlers")
    for n, c in uses:
        g = cfg.guards_at(n.id)
        chk.ob("DOM-9", "a handler removed meanwhile (cancelled) is skipped before `%s`" % call_attr(c),
               g.get("%s.cancelled" % ev) is False, f.where(c), detail="guards %s" % sorted(g.items()), construct=f.ident,
               text="cancelled test before " + call_attr(c))
        if call_attr(c) == "callback":
            chk.ob("DOM-9", "untimed handlers are called at once, timed ones are armed", g.get("%s.ms" % ev) is False, f.where(c),
                   construct=f.ident, text="untimed call guard")
        else:
            chk.ob("DOM-9", "timed handlers are armed, not called", g.get("%s.ms" % ev) is True, f.where(c), construct=f.ident,
                   text="timed arm guard")
            val = [x for x in walk_local(f.node) if isinstance(x, ast.Call) and call_attr(x) == "TimedSwitchHandler"]
            ok = bool(val) and all(src(kwarg(v, "callback")) == ev + ".callback" and src(kwarg(v, "state")) == "state" and
                                   src(kwarg(v, "ms")) == ev + ".ms" for v in val)
            chk.ob("DOM-9", "the armed record carries this handler's callback, state and hold time", ok, f.where(c),
                   construct=f.ident, text="timed record fields")
    f = repo.func(SC, K + "._process_active_timed_switches")
    chk.analysed(f)
    cfg = f.cfg()
    loops = [h for h in cfg.nodes if h.kind == "loop"]
    for h in loops:
        chk.ob("SNAP-2", "timed-handler processing iterates copies (callbacks may add/remove entries)", is_snapshot(h.ast.iter),
               f.where(h.ast), construct=f.ident, text="snapshot " + short(h.ast.iter))
    cbs = [(n, c) for n, c in cfg.calls_named("callback")]
    chk.require(cbs, "C03: callback call vanished from _process_active_timed_switches")
    for n, c in cbs:
        g = cfg.guards_at(n.id)
        due = [k for k, v in g.items() if k.replace(" ", "") in ("k<=current_time", "current_time>=k") and v is True]
        chk.ob("DOM-9", "a timed handler fires only when its deadline has passed", bool(due), f.where(c),
               detail="guards %s" % sorted(g.items()), construct=f.ident, text="due test")
        member = [k for k, v in g.items() if " not in self._active_timed_switches" in k and v is False] + \
                 [k for k, v in g.items() if " in self._active_timed_switches" in k and " not in " not in k and v is True]
        chk.ob("DOM-9", "an entry removed by an earlier callback is not fired", bool(member), f.where(c), construct=f.ident,
               text="membership re-check")
    dels = [n for n in cfg.nodes_where(lambda n: n.kind == "stmt" and isinstance(n.ast, ast.Delete) and
                                       src(n.ast.targets[0]).replace(" ", "") == "self._active_timed_switches[switch][k]")]
    ok = bool(dels) and all(any(k.replace(" ", "") in ("k<=current_time",) and v is True for k, v in cfg.guards_at(n.id).items()) for n in dels)
    chk.ob("DOM-9", "fired deadlines are deleted (fire once), pending ones are kept", ok, f.where(), construct=f.ident,
           text="delete fired key")
    # the consumed wake-up record is forgotten before any user code runs (callbacks may arm new deadlines)
    recdel = [n for n in cfg.nodes_where(lambda n: n.kind == "stmt" and isinstance(n.ast, ast.Delete) and
                                         src(n.ast.targets[0]).replace(" ", "") == "self._timed_switch_handler_delay[switch]")] + \
             [n for n, c in cfg.calls_named("pop") if "_timed_switch_handler_delay" in src(c.func)]
    user = [n for n, c in cbs] + [n for n, c in cfg.calls_named("process_event_queue")]
    ok = bool(recdel) and all(any(cfg.dominates(d.id, u_.id) for d in recdel) for u_ in user)
    chk.ob("PAIR-4", "the fired wake-up's record is dropped before callbacks / the event drain run", ok, f.where(),
           detail="with the stale record present a deadline armed by a callback is believed to be scheduled already and never fires",
           construct=f.ident, text="stale wake-up record during callbacks")
    # reschedule for the earliest remaining deadline
    ca = [(n, c) for n, c in cfg.calls_named("call_at")]
    ok = bool(ca) and all(src(c.args[0]) == "next_event_time" and "_process_active_timed_switches" in src(c.args[1]) for n, c in ca)
    chk.ob("PAIR-4", "remaining deadlines are rescheduled with call_at(earliest)", ok, f.where(), construct=f.ident,
           text="reschedule")
    for n, c in ca:
        g = cfg.guards_at(n.id)
        chk.ob("PAIR-4", "reschedule only when a deadline remains", g.get("next_event_time") is True, f.where(c), construct=f.ident,
               text="reschedule guard")
    mins = [x for x in walk_local(f.node) if isinstance(x, ast.Compare) and "next_event_time" in src(x.left) and src(x.comparators[0]) == "k"]
    ok = any(isinstance(x.ops[0], ast.Gt) for x in mins)
    chk.ob("PAIR-4", "the earliest remaining deadline is selected", ok, f.where(), construct=f.ident, text="min selection")
    chk.floor("SNAP-2", 3)
    chk.floor("DOM-9", 7)

    # ------------------------------------------------------------- PAIR-4 (arming)
    f = repo.func(SC, K + "._add_timed_switch_handler")
    chk.analysed(f)
    cfg = f.cfg()
    stores = [n for n in cfg.nodes_where(lambda n: n.kind == "stmt" and isinstance(n.ast, ast.Assign) and
                                         src(n.ast.targets[0]).replace(" ", "") == "self._timed_switch_handler_delay[switch]")]
    chk.require(stores, "C03: wake-up store vanished from _add_timed_switch_handler")
    uns = [n.id for n, c in cfg.calls_named("unschedule")]
    fresh = [b.id for b in cfg.nodes if b.kind == "branch" and src(b.ast).replace(" ", "") == "switchnotinself._timed_switch_handler_delay" and b.value is True] + \
            [b.id for b in cfg.nodes if b.kind == "branch" and src(b.ast).replace(" ", "") == "switchinself._timed_switch_handler_delay" and b.value is False]
    for s_ in stores:
        w = None
        safe = set(uns + fresh)
        for path, _fx in feasible_paths(cfg, cfg.entry.id, [s_.id]):
            if not safe & set(path):
                w = path
                break
        chk.ob("PAIR-4", "a scheduled wake-up is replaced only after unscheduling the old one", w is None, f.where(s_.ast),
               path=cfg.fmt_path(w, SC) if w else None, detail="two wake-ups for one switch: the second finds its record deleted",
               construct=f.ident, text="replace without unschedule")
        v = s_.ast.value
        ok = isinstance(v, ast.Tuple) and len(v.elts) == 2 and src(v.elts[1]) == "next_event_time"
        chk.ob("PAIR-4", "the record keeps (handle, deadline)", ok, f.where(s_.ast), construct=f.ident, text="record shape")
    ca = [(n, c) for n, c in cfg.calls_named("call_at")]
    ok = bool(ca) and all(src(c.args[0]) == "next_event_time" for n, c in ca)
    chk.ob("PAIR-4", "the wake-up is scheduled at the earliest deadline (absolute time)", ok, f.where(), construct=f.ident,
           text="call_at earliest")
    # earlier deadline replaces a later wake-up
    cmpx = [x for x in walk_local(f.node) if isinstance(x, ast.Compare) and "next_event_time" in src(x.left) and
            "_timed_switch_handler_delay[switch][1]" in src(x.comparators[0])]
    chk.ob("PAIR-4", "an earlier deadline pre-empts the scheduled wake-up", bool(cmpx) and isinstance(cmpx[0].ops[0], ast.Lt), f.where(),
           construct=f.ident, text="pre-empt test")
    mins = [x for x in walk_local(f.node) if isinstance(x, ast.Call) and call_attr(x) == "min"]
    chk.ob("PAIR-4", "next deadline is the minimum over pending deadlines", len(mins) >= 2, f.where(), construct=f.ident,
           text="min over keys")
    chk.floor("PAIR-4", 6)

    # ------------------------------------------------------------- PAIR-3
    f = repo.func(SC, K + ".remove_switch_handler_obj")
    g_add = repo.func(SC, K + ".add_switch_handler_obj")
    chk.analysed(f, g_add)
    cfg = f.cfg()
    # stores made by add
    add_app = [c for c in g_add.calls() if call_attr(c) == "append" and "registered_switches" in src(c.func)]
    chk.ob("PAIR-3", "add registers the handler under registered_switches[switch][state]",
           bool(add_app) and src(add_app[0].func.value).replace(" ", "") == "self.registered_switches[switch][state]", g_add.where(),
           construct=g_add.ident, text="add store")
    rem = [(n, c) for n, c in cfg.calls_named("remove") if "registered_switches" in src(c.func)]
    chk.ob("PAIR-3", "remove purges registered_switches[switch][state]",
           bool(rem) and all(src(c.func.value).replace(" ", "") == "self.registered_switches[switch][state]" for n, c in rem), f.where(),
           construct=f.ident, text="remove store")
    for n, c in rem:
        g = cfg.guards_at(n.id)
        ok = any(k.replace(" ", "") in ("entry.ms==ms", "ms==entry.ms") and v is True for k, v in g.items()) and \
            any(k.replace(" ", "") in ("entry.callback==callback", "callback==entry.callback") and v is True for k, v in g.items())
        chk.ob("PAIR-3", "remove matches on (callback, ms) exactly", ok, f.where(c), detail="guards %s" % sorted(g.items()),
               construct=f.ident, text="remove match")
        canc = [s_ for s_ in cfg.nodes_where(lambda s_: s_.kind == "stmt" and isinstance(s_.ast, ast.Assign) and
                                             src(s_.ast.targets[0]) == "entry.cancelled" and src(s_.ast.value) == "True")]
        ok = bool(canc) and all(cfg.guards_at(s_.id) == g for s_ in canc)
        chk.ob("PAIR-3", "a removed handler is marked cancelled (a dispatch in progress skips it)", ok, f.where(c), construct=f.ident,
               text="cancelled mark")
    loops = [h for h in cfg.nodes if h.kind == "loop" and "registered_switches" in src(h.ast.iter)]
    for h in loops:
        chk.ob("PAIR-3", "remove iterates a copy of the list it mutates", is_snapshot(h.ast.iter), f.where(h.ast), construct=f.ident,
               text="snapshot " + short(h.ast.iter))
    tdel = [n for n in cfg.nodes_where(lambda n: n.kind == "stmt" and isinstance(n.ast, (ast.Delete,)) and
                                       "_active_timed_switches" in src(n.ast))] + \
           [n for n, c in cfg.calls_named("remove", "pop") if "_active_timed_switches" in src(c.func) or src(c.func.value) in ("timed_entry",)]
    chk.ob("PAIR-3", "remove also purges an armed timed record", bool(tdel), f.where(), construct=f.ident, text="timed purge present")
    for n in tdel:
        g = cfg.guards_at(n.id)
        need = ("entry.state==state", "entry.ms==ms", "entry.callback==callback")
        ok = all(any(k.replace(" ", "") == nd and v is True for k, v in g.items()) for nd in need)
        chk.ob("PAIR-3", "the armed record is matched on (state, ms, callback)", ok, f.where(n.ast), detail="guards %s" % sorted(g.items()),
               construct=f.ident, text="timed purge match")
    f = repo.func(SC, K + "._cancel_timed_handlers")
    chk.analysed(f)
    cfg = f.cfg()
    d1 = [n for n in cfg.nodes_where(lambda n: n.kind == "stmt" and isinstance(n.ast, ast.Delete) and
                                     src(n.ast.targets[0]).replace(" ", "") == "self._active_timed_switches[switch]")] + \
         [n for n, c in cfg.calls_named("pop") if "_active_timed_switches" in src(c.func)]
    d2 = [n for n in cfg.nodes_where(lambda n: n.kind == "stmt" and isinstance(n.ast, ast.Delete) and
                                     src(n.ast.targets[0]).replace(" ", "") == "self._timed_switch_handler_delay[switch]")] + \
         [n for n, c in cfg.calls_named("pop") if "_timed_switch_handler_delay" in src(c.func)]
    un = [n for n, c in cfg.calls_named("unschedule", "cancel")]
    chk.ob("PAIR-3", "a state change drops all armed records of the switch", bool(d1), f.where(), construct=f.ident, text="drop armed")
    chk.ob("PAIR-3", "… and unschedules + forgets its wake-up", bool(d2) and bool(un) and all(cfg.dominates(u.id, d.id) or cfg.dominates(d.id, u.id) for u in un for d in d2),
           f.where(), construct=f.ident, text="drop wakeup")
    for d in d2:
        g = cfg.guards_at(d.id)
        chk.ob("PAIR-3", "wake-up removal is guarded by its existence only", set(g) <= {"switch in self._timed_switch_handler_delay",
                                                                                        "switch not in self._timed_switch_handler_delay",
                                                                                        "switch in self._active_timed_switches",
                                                                                        "switch not in self._active_timed_switches"},
               f.where(d.ast), detail="guards %s" % sorted(g.items()), construct=f.ident, text="wakeup removal guard")
    chk.floor("PAIR-3", 7)

    # ------------------------------------------------------------- switch events (devices/switch.py)
    f = repo.func(SW, "Switch._post_events")
    g2 = repo.func(SW, "Switch._initialize")
    chk.analysed(f, g2)
    loops = [n for n in walk_local(f.node) if isinstance(n, ast.For)]
    ok = bool(loops) and src(loops[0].iter).replace(" ", "") == "self._events_to_post[state]"
    chk.ob("DOM-9", "a change posts the events configured for the *new* state", ok, f.where(), construct=f.ident,
           text="events_to_post[state]")
    regs = [c for c in g2.calls() if call_attr(c) == "add_handler" and dotted(c.func.value) == "self"]
    pairs = set()
    for c in regs:
        st = kwarg(c, "state")
        kw = kwarg(c, "callback_kwargs")
        if st is not None and kw is not None:
            pairs.add((src(st), src(kw).replace(" ", "")))
            chk.ob("DOM-9", "switch event handler for state %s passes the same state" % src(st),
                   src(kw).replace(" ", "") == "{'state':%s}" % src(st), g2.where(c), construct=g2.ident,
                   text="handler state/kwarg " + src(st) + src(kw))
    chk.ob("DOM-9", "both states have an event-posting handler", {p[0] for p in pairs} >= {"0", "1"}, g2.where(), construct=g2.ident,
           text="both states registered")


def battery():
    from sa.battery import M
    return [
        M("hold time in ms subtracted from clock", SC, "current_time - (ms / 1000.0)", "current_time - ms", "UNIT-1"),
        M("deadline adds raw ms", SC, "key = switch.last_change + (entry.ms / 1000.0)", "key = switch.last_change + entry.ms", "UNIT-1"),
        M("catch-up direction inverted", SC, "if switch.last_change > current_time - (ms / 1000.0) and state == switch.state:", "if switch.last_change < current_time - (ms / 1000.0) and state == switch.state:", "UNIT-1"),
        M("catch-up ignores state", SC, "if switch.last_change > current_time - (ms / 1000.0) and state == switch.state:", "if switch.last_change > current_time - (ms / 1000.0):", "UNIT-1"),
        M("hw_state updated before duplicate test", SC, "        # if the switch is already in this state, then abort\n        if obj.state == state:", "        obj.hw_state = hw_state\n        # if the switch is already in this state, then abort\n        if obj.state == state:", "DOM-6"),
        M("duplicates still call monitors", SC, "                    state, obj.name, error_no=1)\n            return\n", "                    state, obj.name, error_no=1)\n", "DOM-6"),
        M("raw NC flips hw_state too", SC, "                state ^= 1\n", "                state ^= 1\n                hw_state ^= 1\n", "DOM-7"),
        M("inversion branches swapped", SC, "            if logical:  # NC + logical means hw_state is opposite of state", "            if not logical:  # NC + logical means hw_state is opposite of state", "DOM-7"),
        M("inversion after duplicate test", SC, "        if obj.invert:\n            if logical:  # NC + logical means hw_state is opposite of state\n                hw_state ^= 1\n            else:\n                # NC w/o logical (i.e. hardware state was sent) means logical\n                # state is the opposite\n                state ^= 1\n\n        # if the switch is already in this state, then abort\n        if obj.state == state:\n            if not self.machine.options['production']:\n                self.warning_log(\n                    \"Received duplicate switch state %s for switch %s from the platform interface.\",\n                    state, obj.name, error_no=1)\n            return\n", "        # if the switch is already in this state, then abort\n        if obj.state == state:\n            return\n\n        if obj.invert:\n            if logical:  # NC + logical means hw_state is opposite of state\n                hw_state ^= 1\n            else:\n                state ^= 1\n", "DOM-7"),
        M("timed handlers not cancelled on change", SC, "        self._cancel_timed_handlers(obj)\n\n        # Don't call switch callbacks", "        # Don't call switch callbacks", "DOM-8"),
        M("cancel after calling handlers", SC, "        self._cancel_timed_handlers(obj)\n\n        # Don't call switch callbacks during initialization, or devices may try and\n        # flag playfields active and mess up the ball counts.\n        if self._initialized and not obj.is_muted:\n            self._call_handlers(obj, state)\n", "        if self._initialized and not obj.is_muted:\n            self._call_handlers(obj, state)\n        self._cancel_timed_handlers(obj)\n", "DOM-8"),
        M("handlers of old state called", SC, "            self._call_handlers(obj, state)", "            self._call_handlers(obj, obj.hw_state)", "DOM-8"),
        M("monitors only when initialised", SC, "        for monitor in self.monitors:\n            monitor(MonitoredSwitchChange(", "        for monitor in (self.monitors if self._initialized else []):\n            monitor(MonitoredSwitchChange(", ("DOM-8", "DOM-6")),
        M("live list in _call_handlers", SC, "for entry in self.registered_switches[switch][state][:]:", "for entry in self.registered_switches[switch][state]:", "SNAP-2"),
        M("cancelled test dropped", SC, "            if entry.cancelled:\n                continue\n", "", "DOM-9"),
        M("membership re-check dropped", SC, "                    if entry not in self._active_timed_switches[switch][k]:\n                        continue\n", "", "DOM-9"),
        M("fires early", SC, "            if k <= current_time:  # change to generator?", "            if k <= current_time + 1:  # change to generator?", "DOM-9"),
        M("fired deadline kept", SC, "                    entry.callback()\n                del self._active_timed_switches[switch][k]\n", "                    entry.callback()\n", "DOM-9"),
        M("replace wake-up without unschedule", SC, "            add_handler = True\n            self.machine.clock.unschedule(self._timed_switch_handler_delay[switch][0])", "            add_handler = True", "PAIR-4"),
        M("later deadline pre-empts", SC, "elif next_event_time < self._timed_switch_handler_delay[switch][1]:", "elif next_event_time > self._timed_switch_handler_delay[switch][1]:", "PAIR-4"),
        M("remove ignores ms", SC, "            if entry.ms == ms and entry.callback == callback:\n                entry.cancelled = True", "            if entry.callback == callback:\n                entry.cancelled = True", "PAIR-3"),
        M("remove does not mark cancelled", SC, "                entry.cancelled = True\n", "", "PAIR-3"),
        M("armed record matched without state", SC, "if entry.state == state and entry.ms == ms and entry.callback == callback:", "if entry.ms == ms and entry.callback == callback:", "PAIR-3"),
        M("armed records survive removal", SC, "                for dummy_key, entry in enumerate(timed_entry):\n                    if entry.state == state and entry.ms == ms and entry.callback == callback:\n                        del self._active_timed_switches[switch][k][dummy_key]\n", "                pass\n", "PAIR-3"),
        M("cancel keeps the wake-up", SC, "            self.machine.clock.unschedule(self._timed_switch_handler_delay[switch][0])\n            del self._timed_switch_handler_delay[switch]\n\n    def _add_timed_switch_handler", "            del self._timed_switch_handler_delay[switch]\n\n    def _add_timed_switch_handler", "PAIR-3"),
        M("events of the other state posted", SW, "        for event in self._events_to_post[state]:", "        for event in self._events_to_post[self.state ^ 1]:", "DOM-9"),
        M("inactive handler posts active events", SW, "self.add_handler(state=0, callback=self._post_events, callback_kwargs={\"state\": 0})", "self.add_handler(state=0, callback=self._post_events, callback_kwargs={\"state\": 1})", "DOM-9"),
        # twins
        M("twin: list() snapshot", SC, "for entry in self.registered_switches[switch][state][:]:", "for entry in list(self.registered_switches[switch][state]):", None),
        M("twin: flip via 1 - x", SC, "                hw_state ^= 1\n", "                hw_state = 1 - hw_state\n", None),
        M("twin: deadline form", SC, "if switch.last_change > current_time - (ms / 1000.0) and state == switch.state:", "if switch.last_change + (ms / 1000.0) > current_time and state == switch.state:", None),
        M("twin: early return refactor", SC, "            if entry.cancelled:\n                continue\n\n            if entry.ms:", "            if entry.cancelled:\n                continue\n            if entry.ms:", None),
    ]


def thorough(chk):
    from sa.battery import run_battery
    run_battery(chk, battery())
