"""C03 — switch state mirrors hardware; handlers fire once per change (structural clauses).

UNIT-1 dimensions in the switch controller   DOM-6 duplicate suppression
DOM-7  NC inversion                           DOM-8 cancel timed handlers on change, then call handlers, then monitors
PAIR-3 symmetric add/remove stores            SNAP-2 / DOM-9 snapshot + cancelled / membership re-check
PAIR-4 one scheduled wake-up per switch       DOM-10t timed deadline = change time + hold time, fired when due
FWD-3  entry points / removal wrappers hand their arguments to the worker unchanged
QUERY-1 is_state / is_active / is_inactive read the logical state (and the time since the last change)
INIT-1 the initial hardware read applies NC inversion to every switch of the platform
EVT-1  configured / automatic switch events are registered for the state their name says
"""
import ast

from sa.model import src, short, dotted, call_attr, kwarg, walk_local, AnalysisError, assigned_targets, const_value
from sa.helpers import is_snapshot, base_container, feasible_paths, forwarded, mutation_while_iterating
from sa.units import Units, load_spec, ABS, S, MS

SC = "mpf/core/switch_controller.py"
SW = "mpf/devices/switch.py"
K = "SwitchController"


def _flip_target(stmt):
    """Name flipped by `x ^= 1`, `x = x ^ 1`, `x = 1 - x`, `x = int(not x)`, `x = not x` or None."""
    if isinstance(stmt, ast.AugAssign) and isinstance(stmt.op, ast.BitXor) and const_value(stmt.value) == 1:
        return dotted(stmt.target)
    if isinstance(stmt, ast.Assign) and len(stmt.targets) == 1:
        t = dotted(stmt.targets[0])
        v = stmt.value
        if t is None:
            return None
        if isinstance(v, ast.BinOp) and isinstance(v.op, ast.BitXor) and {src(v.left), src(v.right)} == {t, "1"}:
            return t
        if isinstance(v, ast.BinOp) and isinstance(v.op, ast.Sub) and src(v.left) == "1" and src(v.right) == t:
            return t
        if isinstance(v, ast.UnaryOp) and isinstance(v.op, ast.Not) and src(v.operand) == t:
            return t
        if isinstance(v, ast.Call) and call_attr(v) == "int" and v.args and isinstance(v.args[0], ast.UnaryOp) \
                and isinstance(v.args[0].op, ast.Not) and src(v.args[0].operand) == t:
            return t
    return None


def _switch_obj_rules(chk, repo):
    """DOM-6 / DOM-7 / DOM-8 in SwitchController.process_switch_obj."""
    f = repo.func(SC, K + ".process_switch_obj")
    chk.analysed(f)
    cfg = f.cfg()
    dup = [b for b in cfg.nodes if b.kind == "branch" and src(b.ast).replace(" ", "") in ("obj.state==state", "state==obj.state")]
    dupn = [b for b in cfg.nodes if b.kind == "branch" and src(b.ast).replace(" ", "") in ("obj.state!=state", "state!=obj.state")]
    if not (dup or dupn):
        chk.missing("DOM-6", "process_switch_obj compares the report with the current logical state (duplicate test)", f)

    def not_dup(nid):
        g = cfg.guards_at(nid)
        return any(k.replace(" ", "") in ("obj.state==state", "state==obj.state") and v is False for k, v in g.items()) or \
            any(k.replace(" ", "") in ("obj.state!=state", "state!=obj.state") and v is True for k, v in g.items())
    effects = []
    for n in cfg.nodes_where(lambda n: n.kind == "stmt"):
        for t in assigned_targets(n.ast):
            if dotted(t) in ("obj.state", "obj.hw_state", "obj.last_change"):
                effects.append((n, "store " + dotted(t)))
    for n, c in cfg.calls_named("_cancel_timed_handlers", "_call_handlers"):
        effects.append((n, "call " + call_attr(c)))
    for n in cfg.nodes:
        if n.kind == "loop" and "monitors" in src(n.ast.iter):
            effects.append((n, "monitor loop"))
    chk.expect(len(effects) >= 6, "C03: effects of a switch change not found in process_switch_obj")
    for n, what in effects:
        chk.ob("DOM-6", "%s happens only for a real change (not a duplicate report)" % what, not_dup(n.id), f.where(n.ast),
               detail="not dominated by the false side of `obj.state == state`", construct=f.ident, text="effect " + what)
    # the duplicate side returns without effects
    for b in dup:
        if b.value is True:
            reach = cfg.reachable([b.id])
            bad = [n for n, what in effects if n.id in reach]
            chk.ob("DOM-6", "a duplicate report reaches no effect", not bad, f.where(b.ast), construct=f.ident,
                   text="duplicate side effects")
    # the comparison happens after the inversion and against the *logical* state
    flips = [(n, _flip_target(n.ast)) for n in cfg.nodes_where(lambda n: n.kind == "stmt") if _flip_target(n.ast)]
    got = {}
    for n, t in flips:
        g = cfg.guards_at(n.id)
        got[t] = (g.get("obj.invert"), g.get("logical"))
        for b in dup + dupn:
            chk.ob("DOM-7", "inversion of %s precedes the duplicate test" % t, not cfg.path_avoiding(b.id, [n.id], []),
                   f.where(n.ast), construct=f.ident, text="flip after test " + t)
    chk.ob("DOM-7", "NC + logical report flips exactly the hardware state", got.get("hw_state") == (True, True), f.where(),
           detail="flips found: %s" % got, construct=f.ident, text="flip hw_state under invert&logical")
    chk.ob("DOM-7", "NC + raw report flips exactly the logical state", got.get("state") == (True, False), f.where(),
           detail="flips found: %s" % got, construct=f.ident, text="flip state under invert&not logical")
    chk.ob("DOM-7", "no other inversion", set(got) <= {"hw_state", "state"} and len(flips) == 2, f.where(),
           detail="flips: %s" % [(t, f.where(n.ast)) for n, t in flips], construct=f.ident, text="flip count")
    hw0 = [n for n in cfg.nodes_where(lambda n: n.kind == "stmt" and isinstance(n.ast, ast.Assign) and
                                      dotted(n.ast.targets[0]) == "hw_state")]
    ok = bool(hw0) and src(hw0[0].ast.value) == "state" and all(cfg.dominates(hw0[0].id, n.id) for n, t in flips)
    chk.ob("DOM-7", "hardware state starts as the normalised reported state, before inversion", ok, f.where(),
           construct=f.ident, text="hw_state = state first")
    # normalisation to 0/1
    norm = [n for n in cfg.nodes_where(lambda n: n.kind == "stmt" and isinstance(n.ast, ast.Assign) and
                                       dotted(n.ast.targets[0]) == "state" and src(n.ast.value) in ("1", "0", "int(bool(state))", "1 if state else 0"))]
    nvals = {src(n.ast.value) for n in norm}
    chk.ob("DOM-7", "reported state is normalised to 0/1", bool(norm) and (nvals >= {"0", "1"} or bool(nvals - {"0", "1"})), f.where(),
           detail="normalising stores: %s" % sorted(nvals), construct=f.ident, text="state normalised")
    st_store = [n for n, w in effects if w == "store obj.state"]
    hw_store = [n for n, w in effects if w == "store obj.hw_state"]
    chk.ob("DOM-7", "obj.state receives the logical and obj.hw_state the hardware value",
           bool(st_store) and src(st_store[0].ast.value) == "state" and bool(hw_store) and src(hw_store[0].ast.value) == "hw_state",
           f.where(), construct=f.ident, text="stores of state/hw_state")
    lc = [n for n, w in effects if w == "store obj.last_change"]
    # a missing timestamp defaults to the clock; a supplied one is kept
    tstores = [n for n in cfg.nodes_where(lambda n: n.kind == "stmt" and isinstance(n.ast, ast.Assign) and
                                          dotted(n.ast.targets[0]) == "timestamp")]
    a_ = f.node.args
    names_ = [x.arg for x in a_.args]
    dflt = None
    if "timestamp" in names_:
        i_ = names_.index("timestamp") - (len(names_) - len(a_.defaults))
        dflt = a_.defaults[i_] if i_ >= 0 else None
    if dflt is not None and const_value(dflt) is None and isinstance(dflt, ast.Constant):
        chk.ob("DOM-7", "an omitted timestamp defaults to the clock", bool(tstores), f.where(), construct=f.ident,
               text="timestamp default")
    for n in tstores:
        g = cfg.guards_at(n.id)
        ok = g.get("timestamp is None") is True or g.get("timestamp is not None") is False or g.get("timestamp") is False
        chk.ob("DOM-7", "a timestamp supplied by the platform is never overwritten", ok and "get_time" in src(n.ast.value),
               f.where(n.ast), detail="guards %s, value %s" % (sorted(g.items()), src(n.ast.value)), construct=f.ident,
               text="timestamp overwritten")
    chk.ob("DOM-7", "last_change receives the change timestamp", bool(lc) and src(lc[0].ast.value) == "timestamp", f.where(),
           construct=f.ident, text="last_change = timestamp")
    # DOM-8 order: store -> cancel -> call handlers -> monitors
    cancel = [n for n, w in effects if w == "call _cancel_timed_handlers"]
    callh = [n for n, w in effects if w == "call _call_handlers"]
    mon = [n for n, w in effects if w == "monitor loop"]
    for lst, what in ((callh, "handlers of the new state are called (_call_handlers)"), (mon, "switch monitors are notified"),
                      (st_store, "the logical state is stored (obj.state = state)")):
        if not lst:
            chk.missing("DOM-8", what, f)
    if not (callh and mon and st_store):
        return
    w = cfg.must_pass(st_store[0].id, [c.id for c in cancel])
    chk.ob("DOM-8", "every path after the state store cancels the pending timed handlers", w is None, f.where(st_store[0].ast),
           path=cfg.fmt_path(w, SC) if w else None, construct=f.ident, text="cancel after store")
    chk.ob("DOM-8", "timed handlers of the old state are cancelled before the new state's handlers are armed/called",
           all(cfg.dominates(c.id, h.id) for c in cancel for h in callh), f.where(callh[0].ast), construct=f.ident,
           text="cancel before call")
    chk.ob("DOM-8", "the state is stored before handlers run", all(cfg.dominates(st_store[0].id, h.id) and cfg.dominates(lc[0].id, h.id)
                                                                   for h in callh) if lc else False, f.where(), construct=f.ident,
           text="store before handlers")
    for h in callh:
        g = cfg.guards_at(h.id)
        # tests of the `if` statements lexically enclosing the call
        encl = set()
        for x in ast.walk(f.node):
            if isinstance(x, ast.If) and any(y is h.ast for st in x.body + x.orelse for y in ast.walk(st)):
                for b in cfg.nodes:
                    if b.kind == "test" and b.owner is x:
                        encl.add(src(b.ast))
        ok = g.get("self._initialized") is True and g.get("obj.is_muted") is False and \
            encl <= {"self._initialized", "obj.is_muted"}
        chk.ob("DOM-8", "handlers are skipped only before init or while muted", ok, f.where(h.ast),
               detail="guards %s" % sorted(g.items()), construct=f.ident, text="handler call guards")
        c = [c for c in h.calls() if call_attr(c) == "_call_handlers"][0]
        chk.ob("DOM-8", "handlers of the *new* logical state are called", len(c.args) == 2 and src(c.args[0]) == "obj" and src(c.args[1]) == "state",
               f.where(c), construct=f.ident, text="call_handlers args " + short(c))
    for m_ in mon:
        chk.ob("DOM-8", "the monitor loop runs over all registered monitors", src(base_container(m_.ast.iter)) == "self.monitors",
               f.where(m_.ast), detail="iterates " + short(m_.ast.iter), construct=f.ident, text="monitor loop iter " + short(m_.ast.iter))
    w = cfg.must_pass(st_store[0].id, [m.id for m in mon])
    chk.ob("DOM-8", "monitors see every change", w is None, f.where(), path=cfg.fmt_path(w, SC) if w else None,
           construct=f.ident, text="monitors after store")
    chk.floor("DOM-6", 5)
    chk.floor("DOM-7", 6)
    chk.floor("DOM-8", 5)



def check(chk):
    repo = chk.repo
    chk.explanation = ("C03: unit consistency of every time expression in the switch controller, dominance of the "
                       "duplicate test over all effects, NC inversion branches, cancel-before-call order, symmetric "
                       "add/remove of handler records, snapshot iteration and re-checks, single scheduled wake-up. "
                       "Exactly-once over arbitrary timelines is not decided.")
    units = Units(repo, load_spec(repo))
    sc = repo.cls(SC, K)

    # ------------------------------------------------------------- UNIT-1
    typed = 0
    for rel, cls in ((SC, K), (SW, "Switch")):
        c = repo.cls(rel, cls)
        for f in c.methods.values():
            chk.analysed(f)
            for kind, node, detail in units.scan_function(f):
                gating = kind in ("arith", "sink", "assign") or (kind == "compare" and f.name == "add_switch_handler_obj")
                if gating:
                    chk.ob("UNIT-1", "time arithmetic is dimensionally consistent in %s" % f.qualname, False, f.where(node),
                           detail=detail, construct=f.ident, text="%s %s" % (kind, short(node, 90)))
                else:
                    chk.observe("UNIT-1", detail, f.where(node))
    # named anchors: the deadline key and the catch-up test
    for fn in ("_call_handlers", "add_switch_handler_obj"):
        f = repo.func(SC, K + "." + fn)
        env = units.env_for(f)
        keys = [n for n in walk_local(f.node) if isinstance(n, ast.Assign) and dotted(n.targets[0]) == "key"]
        chk.ob("UNIT-1", "%s computes a deadline key" % fn, bool(keys), f.where(), construct=f.ident, text="key present")
        for n in keys:
            v = n.value
            ok = isinstance(v, ast.BinOp) and isinstance(v.op, ast.Add) and units.dim(v.left, f, env) == ABS \
                and units.dim(v.right, f, env) == S and "last_change" in src(v.left)
            typed += 1
            chk.ob("UNIT-1", "deadline = last change (clock seconds) + hold time in seconds (%s)" % fn, ok, f.where(n),
                   detail="%s : %s + %s" % (src(v), units.dim(getattr(v, "left", None), f, env), units.dim(getattr(v, "right", None), f, env)),
                   construct=f.ident, text="deadline " + src(v))
    # one registration, one callable: the stored registration, the pending catch-up entry and the returned key all carry the callback *as
    # wrapped* with the switch info / caller's kwargs.  The switch controller matches and calls by that object: a catch-up entry built from the
    # unwrapped callback fires without its arguments and is not found when the handler is removed by key.
    f = repo.func(SC, K + ".add_switch_handler_obj")
    recs = []
    for c in f.calls():
        nm = c.func.id if isinstance(c.func, ast.Name) else None
        if nm in ("RegisteredSwitch", "TimedSwitchHandler"):
            cb = kwarg(c, "callback")
            recs.append((nm, src(cb) if cb is not None else None, c))
        elif nm == "SwitchHandler":
            cb = kwarg(c, "callback") or (c.args[1] if len(c.args) > 1 else None)
            recs.append((nm, src(cb) if cb is not None else None, c))
    wraps = {src(x.targets[0]) for x in walk_local(f.node) if isinstance(x, ast.Assign) and isinstance(x.value, ast.Call) and call_attr(x.value) == "partial"}
    names = {r[1] for r in recs}
    ok = {r[0] for r in recs} == {"RegisteredSwitch", "TimedSwitchHandler", "SwitchHandler"} and len(names) == 1 and wraps <= names and bool(wraps)
    chk.ob("PAIR-3", "the stored registration, the pending catch-up entry and the returned key of one add_switch_handler_obj carry the same, wrapped, "
           "callback", ok, f.where(), detail="records %s, wrapped into %s" % (sorted((r[0], r[1]) for r in recs), sorted(wraps)), construct=f.ident,
           text="one callback per registration")
    env = units.env_for(f)
    cmpn = [n for n in walk_local(f.node) if isinstance(n, ast.Compare) and "last_change" in src(n)]
    chk.ob("UNIT-1", "mid-interval catch-up test exists", bool(cmpn), f.where(), construct=f.ident, text="catch-up test present")
    for n in cmpn:
        l = units.dim(n.left, f, env)
        r = units.dim(n.comparators[0], f, env)
        typed += 1
        chk.ob("UNIT-1", "catch-up test compares clock seconds with clock seconds", l == ABS and r == ABS, f.where(n),
               detail="%s vs %s in %s" % (l, r, src(n)), construct=f.ident, text="catch-up " + src(n))
        # direction: still ahead  <=>  last_change + hold > now  <=>  last_change > now - hold
        ok = isinstance(n.ops[0], (ast.Gt, ast.GtE)) and "last_change" in src(n.left) and isinstance(n.comparators[0], ast.BinOp) \
            and isinstance(n.comparators[0].op, ast.Sub)
        ok = ok or (isinstance(n.ops[0], (ast.Lt, ast.LtE)) and "last_change" in src(n.comparators[0]))
        ok = ok or (isinstance(n.left, ast.BinOp) and isinstance(n.left.op, ast.Add) and isinstance(n.ops[0], (ast.Gt, ast.GtE)))
        chk.ob("UNIT-1", "catch-up arms the handler only when the original deadline is still ahead", ok, f.where(n),
               construct=f.ident, text="catch-up direction " + src(n))
    cfg = f.cfg()
    adds = [(n, c) for n, c in cfg.calls_named("_add_timed_switch_handler")]
    for n, c in adds:
        g = cfg.guards_at(n.id)
        ok = g.get("ms") is True and any("state == switch.state" in k.replace("switch.state == state", "state == switch.state") and v is True
                                         for k, v in g.items())
        chk.ob("UNIT-1", "catch-up only for timed handlers whose state is the current state", ok, f.where(c),
               detail="guards %s" % sorted(g.items()), construct=f.ident, text="catch-up guards")
    chk.floor("UNIT-1", 5)

    # ------------------------------------------------------- DOM-6/7/8
    _switch_obj_rules(chk, repo)

    # ------------------------------------------------------------- SNAP-2 / DOM-9
    f = repo.func(SC, K + "._call_handlers")
    chk.analysed(f)
    cfg = f.cfg()
    loops = [h for h in cfg.nodes if h.kind == "loop"]
    chk.need(loops, "DOM-9", "_call_handlers loops over the registered handlers", f)
    head = loops[0]
    chk.ob("SNAP-2", "_call_handlers iterates a copy of the handler list", is_snapshot(head.ast.iter), f.where(head.ast),
           detail="handlers add/remove handlers while being called", construct=f.ident, text="snapshot " + short(head.ast.iter))
    bt = src(base_container(head.ast.iter)).replace(" ", "")
    chk.ob("SNAP-2", "handlers are taken from registered_switches[switch][state]", bt == "self.registered_switches[switch][state]",
           f.where(head.ast), detail=bt, construct=f.ident, text="handler list " + bt)
    ev = head.ast.target.id if isinstance(head.ast.target, ast.Name) else "entry"
    uses = [(n, c) for n, c in cfg.calls_named("callback", "_add_timed_switch_handler")]
    if not any(call_attr(c) == "callback" for n, c in uses):
        chk.missing("DOM-9", "_call_handlers calls untimed handlers", f)
    if not any(call_attr(c) == "_add_timed_switch_handler" for n, c in uses):
        chk.missing("DOM-9", "_call_handlers arms timed handlers", f)
    for n, c in uses:
        g = cfg.guards_at(n.id)
        chk.ob("DOM-9", "a handler removed meanwhile (cancelled) is skipped before `%s`" % call_attr(c),
               g.get("%s.cancelled" % ev) is False, f.where(c), detail="guards %s" % sorted(g.items()), construct=f.ident,
               text="cancelled test before " + call_attr(c))
        if call_attr(c) == "callback":
            chk.ob("DOM-9", "untimed handlers are called at once, timed ones are armed", g.get("%s.ms" % ev) is False, f.where(c),
                   construct=f.ident, text="untimed call guard")
        else:
            chk.ob("DOM-9", "timed handlers are armed, not called", g.get("%s.ms" % ev) is True, f.where(c), construct=f.ident,
                   text="timed arm guard")
            val = [x for x in walk_local(f.node) if isinstance(x, ast.Call) and call_attr(x) == "TimedSwitchHandler"]
            ok = bool(val) and all(src(kwarg(v, "callback")) == ev + ".callback" and src(kwarg(v, "state")) == "state" and
                                   src(kwarg(v, "ms")) == ev + ".ms" for v in val)
            chk.ob("DOM-9", "the armed record carries this handler's callback, state and hold time", ok, f.where(c),
                   construct=f.ident, text="timed record fields")
    # sufficiency: *every* live handler is served -- nothing but `cancelled` exempts an entry, nothing but `ms` decides call / arm
    from sa.helpers import exact_selection
    for n, c in uses:
        if call_attr(c) == "callback":
            exact_selection(chk, "DOM-9", "every live untimed handler of the new state is called (no further condition)", f, cfg, n, head,
                            {("%s.cancelled" % ev, False), ("%s.ms" % ev, False)}, text="untimed call exactly")
        else:
            exact_selection(chk, "DOM-9", "every live timed handler of the new state is armed (no further condition)", f, cfg, n, head,
                            {("%s.cancelled" % ev, False), ("%s.ms" % ev, True)}, text="timed arm exactly")
    f = repo.func(SC, K + "._process_active_timed_switches")
    chk.analysed(f)
    cfg = f.cfg()
    loops = [h for h in cfg.nodes if h.kind == "loop"]
    for h in loops:
        chk.ob("SNAP-2", "timed-handler processing iterates copies (callbacks may add/remove entries)", is_snapshot(h.ast.iter),
               f.where(h.ast), construct=f.ident, text="snapshot " + short(h.ast.iter))
    cbs = [(n, c) for n, c in cfg.calls_named("callback")]
    if not cbs:
        chk.missing("DOM-9", "_process_active_timed_switches calls the due handlers", f)
    for n, c in cbs:
        g = cfg.guards_at(n.id)
        due = [k for k, v in g.items() if k.replace(" ", "") in ("k<=current_time", "current_time>=k") and v is True]
        chk.ob("DOM-9", "a timed handler fires only when its deadline has passed", bool(due), f.where(c),
               detail="guards %s" % sorted(g.items()), construct=f.ident, text="due test")
        member = [k for k, v in g.items() if " not in self._active_timed_switches" in k and v is False] + \
                 [k for k, v in g.items() if " in self._active_timed_switches" in k and " not in " not in k and v is True]
        chk.ob("DOM-9", "an entry removed by an earlier callback is not fired", bool(member), f.where(c), construct=f.ident,
               text="membership re-check")
    outer = [h for h in loops if isinstance(h.ast.target, ast.Name) and h.ast.target.id == "k"]
    for n, c in cbs:
        if outer:
            got = exact_selection(chk, "DOM-9", "every due timed handler that is still registered fires (no further condition)", f, cfg, n, outer[0],
                                  {("k <= current_time", True), ("entry not in self._active_timed_switches[switch][k]", False)}, text="due handler fires exactly")
    dels = [n for n in cfg.nodes_where(lambda n: n.kind == "stmt" and isinstance(n.ast, ast.Delete) and
                                       src(n.ast.targets[0]).replace(" ", "") == "self._active_timed_switches[switch][k]")]
    for n in dels:
        if outer:
            exact_selection(chk, "DOM-9", "every fired deadline is forgotten (exactly the due ones)", f, cfg, n, outer[0], {("k <= current_time", True)},
                            text="fired deadline deleted exactly")
    ok = bool(dels) and all(any(k.replace(" ", "") in ("k<=current_time",) and v is True for k, v in cfg.guards_at(n.id).items()) for n in dels)
    chk.ob("DOM-9", "fired deadlines are deleted (fire once), pending ones are kept", ok, f.where(), construct=f.ident,
           text="delete fired key")
    # the consumed wake-up record is forgotten before any user code runs (callbacks may arm new deadlines)
    recdel = [n for n in cfg.nodes_where(lambda n: n.kind == "stmt" and isinstance(n.ast, ast.Delete) and
                                         src(n.ast.targets[0]).replace(" ", "") == "self._timed_switch_handler_delay[switch]")] + \
             [n for n, c in cfg.calls_named("pop") if "_timed_switch_handler_delay" in src(c.func)]
    user = [n for n, c in cbs] + [n for n, c in cfg.calls_named("process_event_queue")]
    ok = bool(recdel) and all(any(cfg.dominates(d.id, u_.id) for d in recdel) for u_ in user)
    chk.ob("PAIR-4", "the fired wake-up's record is dropped before callbacks / the event drain run", ok, f.where(),
           detail="with the stale record present a deadline armed by a callback is believed to be scheduled already and never fires",
           construct=f.ident, text="stale wake-up record during callbacks")
    # reschedule for the earliest remaining deadline
    ca = [(n, c) for n, c in cfg.calls_named("call_at")]
    ok = bool(ca) and all(src(c.args[0]) == "next_event_time" and "_process_active_timed_switches" in src(c.args[1]) for n, c in ca)
    chk.ob("PAIR-4", "remaining deadlines are rescheduled with call_at(earliest)", ok, f.where(), construct=f.ident,
           text="reschedule")
    for n, c in ca:
        g = cfg.guards_at(n.id)
        chk.ob("PAIR-4", "reschedule only when a deadline remains", g.get("next_event_time") is True, f.where(c), construct=f.ident,
               text="reschedule guard")
    mins = [x for x in walk_local(f.node) if isinstance(x, ast.Compare) and "next_event_time" in src(x.left) and src(x.comparators[0]) == "k"]
    ok = any(isinstance(x.ops[0], ast.Gt) for x in mins)
    chk.ob("PAIR-4", "the earliest remaining deadline is selected", ok, f.where(), construct=f.ident, text="min selection")
    from sa.helpers import running_min_ifs
    ex, inex = running_min_ifs(f.node, "next_event_time", "k")
    chk.ob("PAIR-4", "the next wake-up is the running minimum of the pending deadlines (`if not m or m > k: m = k`, nothing more, nothing less)",
           len(ex) == 1 and not inex, f.where(), detail="%d exact, %d other updates of next_event_time" % (len(ex), len(inex)), construct=f.ident,
           text="running minimum of deadlines")
    if ex and outer:
        nn = [x for x in cfg.nodes if x.kind == "stmt" and x.ast in ex[0].body]
        if nn:
            exact_selection(chk, "PAIR-4", "every pending (not yet due) deadline takes part in the minimum", f, cfg, nn[0], outer[0],
                            {("k <= current_time", False)}, text="pending deadlines in minimum")
    chk.floor("SNAP-2", 3)
    chk.floor("DOM-9", 7)

    # ------------------------------------------------------------- PAIR-4 (arming)
    f = repo.func(SC, K + "._add_timed_switch_handler")
    chk.analysed(f)
    cfg = f.cfg()
    stores = [n for n in cfg.nodes_where(lambda n: n.kind == "stmt" and isinstance(n.ast, ast.Assign) and
                                         src(n.ast.targets[0]).replace(" ", "") == "self._timed_switch_handler_delay[switch]")]
    if not stores:
        chk.missing("PAIR-4", "_add_timed_switch_handler records the scheduled wake-up", f)
    uns = [n.id for n, c in cfg.calls_named("unschedule")]
    fresh = [b.id for b in cfg.nodes if b.kind == "branch" and src(b.ast).replace(" ", "") == "switchnotinself._timed_switch_handler_delay" and b.value is True] + \
            [b.id for b in cfg.nodes if b.kind == "branch" and src(b.ast).replace(" ", "") == "switchinself._timed_switch_handler_delay" and b.value is False]
    for s_ in stores:
        w = None
        safe = set(uns + fresh)
        for path, _fx in feasible_paths(cfg, cfg.entry.id, [s_.id]):
            if not safe & set(path):
                w = path
                break
        chk.ob("PAIR-4", "a scheduled wake-up is replaced only after unscheduling the old one", w is None, f.where(s_.ast),
               path=cfg.fmt_path(w, SC) if w else None, detail="two wake-ups for one switch: the second finds its record deleted",
               construct=f.ident, text="replace without unschedule")
        v = s_.ast.value
        ok = isinstance(v, ast.Tuple) and len(v.elts) == 2 and src(v.elts[1]) == "next_event_time"
        chk.ob("PAIR-4", "the record keeps (handle, deadline)", ok, f.where(s_.ast), construct=f.ident, text="record shape")
    ca = [(n, c) for n, c in cfg.calls_named("call_at")]
    ok = bool(ca) and all(src(c.args[0]) == "next_event_time" for n, c in ca)
    chk.ob("PAIR-4", "the wake-up is scheduled at the earliest deadline (absolute time)", ok, f.where(), construct=f.ident,
           text="call_at earliest")
    # earlier deadline replaces a later wake-up
    cmpx = [x for x in walk_local(f.node) if isinstance(x, ast.Compare) and "next_event_time" in src(x.left) and
            "_timed_switch_handler_delay[switch][1]" in src(x.comparators[0])]
    chk.ob("PAIR-4", "an earlier deadline pre-empts the scheduled wake-up", bool(cmpx) and isinstance(cmpx[0].ops[0], ast.Lt), f.where(),
           construct=f.ident, text="pre-empt test")
    mins = [x for x in walk_local(f.node) if isinstance(x, ast.Call) and call_attr(x) == "min"]
    chk.ob("PAIR-4", "next deadline is the minimum over pending deadlines", len(mins) >= 2, f.where(), construct=f.ident,
           text="min over keys")
    chk.floor("PAIR-4", 6)

    # ------------------------------------------------------------- PAIR-3
    f = repo.func(SC, K + ".remove_switch_handler_obj")
    g_add = repo.func(SC, K + ".add_switch_handler_obj")
    chk.analysed(f, g_add)
    cfg = f.cfg()
    # stores made by add
    add_app = [c for c in g_add.calls() if call_attr(c) == "append" and "registered_switches" in src(c.func)]
    chk.ob("PAIR-3", "add registers the handler under registered_switches[switch][state]",
           bool(add_app) and src(add_app[0].func.value).replace(" ", "") == "self.registered_switches[switch][state]", g_add.where(),
           construct=g_add.ident, text="add store")
    rem = [(n, c) for n, c in cfg.calls_named("remove") if "registered_switches" in src(c.func)]
    chk.ob("PAIR-3", "remove purges registered_switches[switch][state]",
           bool(rem) and all(src(c.func.value).replace(" ", "") == "self.registered_switches[switch][state]" for n, c in rem), f.where(),
           construct=f.ident, text="remove store")
    for n, c in rem:
        g = cfg.guards_at(n.id)
        ok = any(k.replace(" ", "") in ("entry.ms==ms", "ms==entry.ms") and v is True for k, v in g.items()) and \
            any(k.replace(" ", "") in ("entry.callback==callback", "callback==entry.callback") and v is True for k, v in g.items())
        chk.ob("PAIR-3", "remove matches on (callback, ms) exactly", ok, f.where(c), detail="guards %s" % sorted(g.items()),
               construct=f.ident, text="remove match")
        rl_ = [h for h in cfg.nodes if h.kind == "loop" and any(y is c for y in ast.walk(h.ast))]
        if rl_:
            from sa.helpers import exact_selection
            exact_selection(chk, "PAIR-3", "every registration matching (callback, ms) is removed - nothing else takes part in the match", f, cfg, n, rl_[-1],
                            {("entry.ms == ms", True), ("entry.callback == callback", True)}, text="remove match exactly")
        canc = [s_ for s_ in cfg.nodes_where(lambda s_: s_.kind == "stmt" and isinstance(s_.ast, ast.Assign) and
                                             src(s_.ast.targets[0]) == "entry.cancelled" and src(s_.ast.value) == "True")]
        ok = bool(canc) and all(cfg.guards_at(s_.id) == g for s_ in canc)
        chk.ob("PAIR-3", "a removed handler is marked cancelled (a dispatch in progress skips it)", ok, f.where(c), construct=f.ident,
               text="cancelled mark")
    loops = [h for h in cfg.nodes if h.kind == "loop" and "registered_switches" in src(h.ast.iter)]
    for h in loops:
        chk.ob("PAIR-3", "remove iterates a copy of the list it mutates", is_snapshot(h.ast.iter), f.where(h.ast), construct=f.ident,
               text="snapshot " + short(h.ast.iter))
    t_alias = {x.targets[0].id for x in ast.walk(f.node) if isinstance(x, ast.Assign) and isinstance(x.targets[0], ast.Name)
               and "_active_timed_switches" in src(x.value) and not isinstance(x.value, (ast.ListComp, ast.Call))}
    tdel = [n for n in cfg.nodes_where(lambda n: n.kind == "stmt" and isinstance(n.ast, (ast.Delete,)) and
                                       ("_active_timed_switches" in src(n.ast) or any(
                                           isinstance(t, ast.Subscript) and isinstance(t.value, ast.Name) and t.value.id in t_alias
                                           for t in n.ast.targets)))] + \
           [n for n, c in cfg.calls_named("remove", "pop") if "_active_timed_switches" in src(c.func) or src(c.func.value) in ("timed_entry",)]
    # the purge may also be written as a rebuild: <timed list> = [e for e in <timed list> if not (match)]
    rebuilt = []
    for n in cfg.nodes_where(lambda n: n.kind == "stmt" and isinstance(n.ast, ast.Assign) and "_active_timed_switches" in src(n.ast.targets[0])
                             and isinstance(n.ast.value, ast.ListComp)):
        comp = n.ast.value
        gen = comp.generators[0]
        ev_ = src(gen.target)
        terms_eq, terms_ne, negated = set(), set(), False
        for cond in gen.ifs:
            inner = cond
            if isinstance(cond, ast.UnaryOp) and isinstance(cond.op, ast.Not):
                negated = True
                inner = cond.operand
            for x in ast.walk(inner):
                if isinstance(x, ast.Compare) and len(x.ops) == 1:
                    t_ = src(x).replace(" ", "")
                    if isinstance(x.ops[0], ast.Eq):
                        terms_eq.add(t_)
                    elif isinstance(x.ops[0], ast.NotEq):
                        terms_ne.add(t_.replace("!=", "=="))
            is_and = isinstance(inner, ast.BoolOp) and isinstance(inner.op, ast.And)
            is_or = isinstance(inner, ast.BoolOp) and isinstance(inner.op, ast.Or)
        from sa.model import canon_eq
        need = {canon_eq("%s.state" % ev_, "state").replace(" ", ""), canon_eq("%s.ms" % ev_, "ms").replace(" ", ""),
                canon_eq("%s.callback" % ev_, "callback").replace(" ", "")}
        ok = src(comp.elt) == ev_ and ((negated and is_and and need <= terms_eq) or (not negated and is_or and need <= terms_ne))
        rebuilt.append(n)
        chk.ob("PAIR-3", "the rebuilt timed list keeps exactly the entries that do not match (state, ms, callback)", ok, f.where(n.ast),
               detail=src(comp)[:160], construct=f.ident, text="timed purge match")
    chk.ob("PAIR-3", "remove also purges an armed timed record", bool(tdel) or bool(rebuilt), f.where(), construct=f.ident, text="timed purge present")
    for n in tdel:
        g = cfg.guards_at(n.id)
        from sa.model import canon_eq
        need = tuple(canon_eq(a_, b_).replace(" ", "") for a_, b_ in (("entry.state", "state"), ("entry.ms", "ms"), ("entry.callback", "callback")))
        ok = all(any(k.replace(" ", "") == nd and v is True for k, v in g.items()) for nd in need)
        chk.ob("PAIR-3", "the armed record is matched on (state, ms, callback)", ok, f.where(n.ast), detail="guards %s" % sorted(g.items()),
               construct=f.ident, text="timed purge match")
    # every pending hold-time deadline of a switch (and the wake-up) is dropped in one place only: when the switch changes state.  Removing one
    # handler removes that handler's entries; it never cancels the deadlines of the others
    ctc = [(m_.qualname, c) for m_ in repo.cls(SC, K).methods.values() for c in m_.calls() if call_attr(c) == "_cancel_timed_handlers"]
    chk.ob("DOM-8", "the pending hold-time deadlines of a switch are dropped wholesale only by a state change (process_switch_obj)",
           {q for q, _ in ctc} == {K + ".process_switch_obj"}, "%s:%d" % (SC, ctc[0][1].lineno if ctc else 1), detail="called from %s" % sorted({q for q, _ in ctc}),
           construct=SC + "::" + K + "._cancel_timed_handlers", text="callers of _cancel_timed_handlers")
    f = repo.func(SC, K + "._cancel_timed_handlers")
    chk.analysed(f)
    cfg = f.cfg()
    d1 = [n for n in cfg.nodes_where(lambda n: n.kind == "stmt" and isinstance(n.ast, ast.Delete) and
                                     src(n.ast.targets[0]).replace(" ", "") == "self._active_timed_switches[switch]")] + \
         [n for n, c in cfg.calls_named("pop") if "_active_timed_switches" in src(c.func)]
    d2 = [n for n in cfg.nodes_where(lambda n: n.kind == "stmt" and isinstance(n.ast, ast.Delete) and
                                     src(n.ast.targets[0]).replace(" ", "") == "self._timed_switch_handler_delay[switch]")] + \
         [n for n, c in cfg.calls_named("pop") if "_timed_switch_handler_delay" in src(c.func)]
    un = [n for n, c in cfg.calls_named("unschedule", "cancel")]
    chk.ob("PAIR-3", "a state change drops all armed records of the switch", bool(d1), f.where(), construct=f.ident, text="drop armed")
    chk.ob("PAIR-3", "… and unschedules + forgets its wake-up", bool(d2) and bool(un) and all(cfg.dominates(u.id, d.id) or cfg.dominates(d.id, u.id) for u in un for d in d2),
           f.where(), construct=f.ident, text="drop wakeup")
    for d in d2:
        g = cfg.guards_at(d.id)
        chk.ob("PAIR-3", "wake-up removal is guarded by its existence only", set(g) <= {"switch in self._timed_switch_handler_delay",
                                                                                        "switch not in self._timed_switch_handler_delay",
                                                                                        "switch in self._active_timed_switches",
                                                                                        "switch not in self._active_timed_switches"},
               f.where(d.ast), detail="guards %s" % sorted(g.items()), construct=f.ident, text="wakeup removal guard")
    chk.floor("PAIR-3", 7)

    # ------------------------------------------------------------- switch events (devices/switch.py)
    f = repo.func(SW, "Switch._post_events")
    g2 = repo.func(SW, "Switch._initialize")
    chk.analysed(f, g2)
    loops = [n for n in walk_local(f.node) if isinstance(n, ast.For)]
    ok = bool(loops) and src(loops[0].iter).replace(" ", "") == "self._events_to_post[state]"
    chk.ob("DOM-9", "a change posts the events configured for the *new* state", ok, f.where(), construct=f.ident,
           text="events_to_post[state]")
    regs = [c for c in g2.calls() if call_attr(c) == "add_handler" and dotted(c.func.value) == "self"]
    pairs = set()
    for c in regs:
        st = kwarg(c, "state")
        kw = kwarg(c, "callback_kwargs")
        if st is not None and kw is not None:
            pairs.add((src(st), src(kw).replace(" ", "")))
            chk.ob("DOM-9", "switch event handler for state %s passes the same state" % src(st),
                   src(kw).replace(" ", "") == "{'state':%s}" % src(st), g2.where(c), construct=g2.ident,
                   text="handler state/kwarg " + src(st) + src(kw))
    chk.ob("DOM-9", "both states have an event-posting handler", {p[0] for p in pairs} >= {"0", "1"}, g2.where(), construct=g2.ident,
           text="both states registered")

    _more_rules(chk, repo)
    _ignore_window(chk, repo)
    _time_string_parsers(chk, repo)
    _raw_state_readers(chk, repo)


def _ignore_window(chk, repo):
    """RECYCLE-3 (ignore_window_ms): the first change opens the window, posts the events of its state and books a wake-up for the end of
    the window that remembers which state was announced; changes inside the window post nothing; when the window ends it is closed
    first, and the events of the *current* state are posted exactly when it differs from the announced one - in either direction -
    so that the last posted event always agrees with the switch."""
    from sa.cfg import canon_set, canon_fact
    from sa.helpers import positive
    w = repo.func(SW, "Switch._post_events_with_recycle")
    r = repo.func(SW, "Switch._recycle_passed")
    ini = repo.func(SW, "Switch._initialize")
    chk.analysed(w, r)
    cfg = w.cfg()
    st = [n for n in cfg.nodes if n.kind == "stmt" and isinstance(n.ast, ast.Assign) and src(n.ast.targets[0]) == "self.recycle_clear_time"]
    ca = [(n, c) for n, c in cfg.calls_named("call_at")]
    po = [(n, c) for n, c in cfg.calls_named("_post_events")]
    chk.need(len(st) == 1 and len(ca) == 1 and len(po) == 1, "RECYCLE-3", "_post_events_with_recycle opens the window, books its end and posts", w)
    want = positive({canon_fact("self.recycle_clear_time", False)})
    for n in (st[0], ca[0][0], po[0][0]):
        got = positive(set(canon_set(cfg.guards_at(n.id))))
        chk.ob("RECYCLE-3", "outside a window - and only then - a change opens one, books its end and is announced", got == want, w.where(n.ast),
               detail="guards %s" % sorted(got), construct=w.ident, text="window opening guard " + n.text(30))
    ok = src(st[0].ast.value).replace(" ", "") in ("self.last_change+self.recycle_secs", "self.recycle_secs+self.last_change")
    chk.ob("RECYCLE-3", "the window ends recycle_secs after the change that opened it", ok, w.where(st[0].ast), detail=src(st[0].ast.value), construct=w.ident,
           text="window end")
    c = ca[0][1]
    ok = len(c.args) == 2 and src(c.args[0]) == "self.recycle_clear_time" and isinstance(c.args[1], ast.Call) and call_attr(c.args[1]) == "partial" and \
        [src(a) for a in c.args[1].args] == ["self._recycle_passed", "state"] and cfg.dominates(st[0].id, ca[0][0].id)
    chk.ob("RECYCLE-3", "the wake-up is booked for the end of the window and remembers the announced state", ok, w.where(c), construct=w.ident, text="window wake-up")
    chk.ob("RECYCLE-3", "the change that opens the window is announced with its own state", [src(a) for a in po[0][1].args] == ["state"], w.where(po[0][1]),
           construct=w.ident, text="window opening announcement")
    rc = r.cfg()
    cl = [n for n in rc.nodes if n.kind == "stmt" and isinstance(n.ast, ast.Assign) and src(n.ast.targets[0]) == "self.recycle_clear_time" and src(n.ast.value) == "None"]
    pp = [(n, c) for n, c in rc.calls_named("_post_events")]
    chk.need(len(cl) == 1 and len(pp) == 1, "RECYCLE-3", "_recycle_passed closes the window and catches up", r)
    ok = not rc.guards_at(cl[0].id) and rc.must_pass(rc.entry.id, [cl[0].id], ends=[rc.exit.id]) is None and rc.dominates(cl[0].id, pp[0][0].id)
    chk.ob("RECYCLE-3", "the window is closed on every path, before the catch-up is posted (a change caused by it opens a new one)", ok, r.where(cl[0].ast),
           construct=r.ident, text="window closed first")
    got = positive(set(canon_set(rc.guards_at(pp[0][0].id))))
    ok = got == positive({canon_fact("self.state != state", True)}) and [src(a) for a in pp[0][1].args] == ["self.state"]
    chk.ob("RECYCLE-3", "at the end of the window the current state is announced exactly when it differs from the announced one (either direction)", ok,
           r.where(pp[0][1]), detail="guards %s; posts %s" % (sorted(got), [src(a) for a in pp[0][1].args]), construct=r.ident, text="window catch-up")
    # which poster is registered
    icfg = ini.cfg()
    regs = [(n, c) for n, c in icfg.calls_named("add_handler") if dotted(c.func.value) == "self" and kwarg(c, "callback") is not None]
    n_r = 0
    for n, c in regs:
        cb = src(kwarg(c, "callback"))
        if cb not in ("self._post_events_with_recycle", "self._post_events"):
            continue
        n_r += 1
        g = icfg.guards_at(n.id).get("self.recycle_secs")
        chk.ob("RECYCLE-3", "the windowed poster is registered exactly when an ignore window is configured", g is (cb == "self._post_events_with_recycle"),
               ini.where(c), construct=ini.ident, text="poster choice " + cb)
    chk.ob("RECYCLE-3", "event posters registered", n_r == 4, ini.where(), detail=str(n_r), nontrivial=False)
    rs = [x for x in walk_local(ini.node) if isinstance(x, ast.Assign) and src(x.targets[0]) == "self.recycle_secs"]
    ok = len(rs) == 1 and src(rs[0].value).replace(" ", "") in ("self.config['ignore_window_ms']/1000.0", "self.config['ignore_window_ms']/1000") and \
        all(icfg.dominates(icfg.by_ast[id(rs[0])][0], n.id) for n, c in regs) if rs and id(rs[0]) in icfg.by_ast else False
    chk.ob("RECYCLE-3", "the window length is ignore_window_ms in seconds, known before the posters are chosen", ok, ini.where(), construct=ini.ident,
           text="window length")


def _more_rules(chk, repo):
    sc = repo.cls(SC, K)
    # ------------------------------------------------------------- PAIR-4 (earliest deadline really armed)
    f = repo.func(SC, K + "._add_timed_switch_handler")
    cfg = f.cfg()
    ca = {n.id for n, c in cfg.calls_named("call_at")}
    n_paths = 0
    for path, facts in feasible_paths(cfg, cfg.entry.id, [cfg.exit.id]):
        if ca & set(path):
            continue
        n_paths += 1
        has_wakeup = any(v is False and k.replace(" ", "") == "switchnotinself._timed_switch_handler_delay" for k, v in facts.items()) or \
            any(v is True and k.replace(" ", "") == "switchinself._timed_switch_handler_delay" for k, v in facts.items())
        not_earlier = False
        for k, v in facts.items():
            try:
                e = ast.parse(k, mode="eval").body
            except SyntaxError:
                continue
            if isinstance(e, ast.Compare) and len(e.ops) == 1 and "_timed_switch_handler_delay[switch]" in k:
                l, r, op = src(e.left), src(e.comparators[0]), e.ops[0]
                if l == "next_event_time" and isinstance(op, ast.Lt) and v is False:
                    not_earlier = True
                if r == "next_event_time" and isinstance(op, ast.Gt) and v is False:
                    not_earlier = True
                if l == "next_event_time" and isinstance(op, ast.GtE) and v is True:
                    not_earlier = True
        chk.ob("PAIR-4", "no wake-up is (re)armed only if one is scheduled that is not later than the earliest deadline",
               has_wakeup and not_earlier, f.where(), detail="path facts: %s" % sorted(facts.items()), construct=f.ident,
               text="path without call_at", path=cfg.fmt_path(path, SC))
    chk.ob("PAIR-4", "arming can be skipped at all (an armed earlier wake-up is kept)", n_paths >= 1, f.where(), construct=f.ident,
           text="skip path exists", nontrivial=False)
    # the compared deadline is the one stored in the record
    recs = [n for n in ast.walk(f.node) if isinstance(n, ast.Assign) and "_timed_switch_handler_delay[switch]" in src(n.targets[0])
            and isinstance(n.value, ast.Tuple)]
    for r_ in recs:
        idx = [i for i, e in enumerate(r_.value.elts) if src(e) == "next_event_time"]
        cmps = [x for x in ast.walk(f.node) if isinstance(x, ast.Compare) and "_timed_switch_handler_delay[switch][" in src(x)]
        for x in cmps:
            subs = [y for y in ast.walk(x) if isinstance(y, ast.Subscript) and src(y.value).replace(" ", "") == "self._timed_switch_handler_delay[switch]"]
            ok = bool(idx) and all(const_value(y.slice) == idx[0] for y in subs)
            chk.ob("PAIR-4", "the pre-emption test reads the deadline field of the wake-up record", ok, f.where(x),
                   construct=f.ident, text="record field index " + short(x, 70))
        uns = [c for c in ast.walk(f.node) if isinstance(c, ast.Call) and call_attr(c) == "unschedule"]
        hidx = [i for i, e in enumerate(r_.value.elts) if src(e) != "next_event_time"]
        for c in uns:
            subs = [y for y in ast.walk(c) if isinstance(y, ast.Subscript) and src(y.value).replace(" ", "") == "self._timed_switch_handler_delay[switch]"]
            ok = bool(hidx) and all(const_value(y.slice) == hidx[0] for y in subs)
            chk.ob("PAIR-4", "the replaced wake-up is unscheduled through its handle field", ok, f.where(c), construct=f.ident,
                   text="unschedule handle index " + short(c, 70))

    # ------------------------------------------------------------- SNAP-3
    n_loops = 0
    for m_ in sc.methods.values():
        n_loops += sum(1 for x in ast.walk(m_.node) if isinstance(x, (ast.For, ast.AsyncFor)))
        for loop, x, what in mutation_while_iterating(m_.node):
            chk.ob("SNAP-3", "%s does not delete from / insert into the container it is iterating" % m_.qualname, False, m_.where(x),
                   detail="`%s` inside `for ... in %s`: the element after a deleted one is skipped (a second matching handler survives its "
                          "removal and still fires)" % (what, short(loop.iter, 50)), construct=m_.ident,
                   text="%s while iterating %s" % (what, short(loop.iter, 50)))
    chk.ob("SNAP-3", "loops of the switch controller examined for mutation of the iterated container", n_loops >= 10,
           "%s:1" % SC, detail="%d loops" % n_loops, nontrivial=False)

    # ------------------------------------------------------------- FWD-3
    obj = repo.func(SC, K + ".process_switch_obj")
    rm = repo.func(SC, K + ".remove_switch_handler_obj")
    add = repo.func(SC, K + ".add_switch_handler_obj")
    FWD = [
        (SC, K + ".process_switch", obj, ("state", "logical", "timestamp"), {"obj": {"obj", "switch", "self.machine.switches[name]"}}),
        (SC, K + ".process_switch_by_num", obj, ("state", "logical", "timestamp"), {"obj": {"switch", "obj"}}),
        (SC, K + ".remove_switch_handler_by_key", rm, ("callback", "state", "ms"),
         {"switch": {"switch_handler.switch_name", "switch_handler.switch"}}),
        (SC, K + ".remove_switch_handler_by_keys", rm, ("callback", "state", "ms"),
         {"switch": {"switch_handler.switch_name", "switch_handler.switch"}}),
        (SC, K + ".remove_switch_handler", rm, ("switch", "callback", "state", "ms"), None),
        (SC, K + ".add_switch_handler", add, ("switch", "callback", "state", "ms", "return_info", "callback_kwargs"), None),
        (SW, "Switch.add_handler", add, ("callback", "state", "ms", "return_info", "callback_kwargs"), {"switch": {"self"}}),
        (SW, "Switch.remove_handler", rm, ("callback", "state", "ms"), {"switch": {"self"}}),
    ]
    for rel, qual, callee, same, mapping in FWD:
        w = repo.try_func(rel, qual)
        if w is None:
            chk.expect(False, "C03: wrapper %s vanished" % qual)
            continue
        chk.analysed(w)
        calls = [c for c in ast.walk(w.node) if isinstance(c, ast.Call) and call_attr(c) == callee.name]
        if not calls:
            chk.missing("FWD-3", "%s hands over to %s" % (qual, callee.name), w)
            continue
        for c in calls:
            forwarded(chk, "FWD-3", w, c, callee, same=same, mapping=mapping, require_all=True)
            # the hand-over is unconditional apart from validity checks that raise
        if qual.endswith("process_switch_by_num"):
            cf = w.cfg()
            for n, c in cf.calls_named(callee.name):
                g = {k: v for k, v in cf.guards_at(n.id).items() if "_debug" not in k}
                ok = all((k == "switch" and v is True) or (k.replace(" ", "") == "notself._initialized" and v is False)
                         or (k == "self._initialized" and v is True) for k, v in g.items())
                chk.ob("FWD-3", "a report for a known switch always reaches process_switch_obj", ok, w.where(c),
                       detail="guards %s" % sorted(g.items()), construct=w.ident, text="by_num guard")
    chk.floor("FWD-3", 25)

    # ------------------------------------------------------------- QUERY-1
    for name, want in (("is_state", "state"), ("is_active", "1"), ("is_inactive", "0")):
        q = repo.func(SC, K + "." + name)
        chk.analysed(q)
        rets = [r for r in ast.walk(q.node) if isinstance(r, ast.Return) and r.value is not None]
        if not rets:
            chk.missing("QUERY-1", "%s returns the comparison" % name, q)
            continue
        for r in rets:
            v = r.value
            # delegation to is_state(switch, <const>, ms)
            if isinstance(v, ast.Call) and call_attr(v) == "is_state":
                a = [src(x) for x in v.args] + [src(k.value) for k in v.keywords]
                chk.ob("QUERY-1", "%s delegates to is_state with state %s" % (name, want), len(a) >= 2 and a[1] in (want, {"1": "True", "0": "False"}.get(want, want)),
                       q.where(r), construct=q.ident, text="delegation " + short(v, 60))
                continue
            parts = v.values if isinstance(v, ast.BoolOp) and isinstance(v.op, ast.And) else [v]
            st = [x for x in parts if isinstance(x, ast.Compare) and len(x.ops) == 1 and isinstance(x.ops[0], ast.Eq)
                  and {src(x.left), src(x.comparators[0])} == {"switch.state", want}]
            chk.ob("QUERY-1", "%s compares the logical state with %s" % (name, want), len(st) == 1 and not (
                isinstance(v, ast.BoolOp) and isinstance(v.op, ast.Or)), q.where(r), detail=src(v), construct=q.ident,
                text="state comparison in " + name + ": " + short(v, 60))
            rest = [x for x in parts if x not in st]
            for x in rest:
                ok = isinstance(x, ast.Compare) and len(x.ops) == 1 and (
                    (isinstance(x.ops[0], ast.LtE) and src(x.left) == "ms" and "get_ms_since_last_change" in src(x.comparators[0])) or
                    (isinstance(x.ops[0], ast.GtE) and src(x.comparators[0]) == "ms" and "get_ms_since_last_change" in src(x.left)))
                chk.ob("QUERY-1", "%s: the hold time asked for has elapsed (ms <= ms since last change)" % name, ok, q.where(r),
                       detail=src(x), construct=q.ident, text="elapsed comparison in " + name + ": " + short(x, 60))
        # a request with ms never answers from the state alone
        cfq = q.cfg()
        for n in cfq.nodes:
            if n.kind == "stmt" and isinstance(n.ast, ast.Return) and n.ast.value is not None and "get_ms_since_last_change" not in src(n.ast.value) \
                    and not (isinstance(n.ast.value, ast.Call) and call_attr(n.ast.value) == "is_state"):
                g = cfq.guards_at(n.id)
                chk.ob("QUERY-1", "%s answers from the state alone only when no hold time was asked" % name, g.get("ms") is False,
                       q.where(n.ast), detail="guards %s" % sorted(g.items()), construct=q.ident, text="ms ignored in " + name)
        for n in cfq.nodes:
            if n.kind == "stmt" and isinstance(n.ast, (ast.Assign, ast.AugAssign)) and any(
                    isinstance(t, ast.Name) and t.id == "ms" for t in assigned_targets(n.ast)):
                g = cfq.guards_at(n.id)
                chk.ob("QUERY-1", "%s never overwrites a hold time that was asked for" % name, g.get("ms") is False, q.where(n.ast),
                       detail="guards %s" % sorted(g.items()), construct=q.ident, text="ms overwritten in " + name)
    gm = repo.func(SW, "Switch.get_ms_since_last_change")
    chk.analysed(gm)
    rr = [r for r in ast.walk(gm.node) if isinstance(r, ast.Return) and r.value is not None]
    ok = bool(rr) and all("self.last_change" in src(r.value) and "1000" in src(r.value) and "-" in src(r.value) for r in rr)
    chk.ob("QUERY-1", "ms since last change = (now - last_change) * 1000", ok, gm.where(), construct=gm.ident, text="elapsed ms")
    chk.floor("QUERY-1", 9)

    # ------------------------------------------------------------- INIT-1
    u = repo.func(SC, K + ".update_switches_from_hw")
    chk.analysed(u)
    cu = u.cfg()
    sts = [n for n in cu.nodes if n.kind == "stmt" and isinstance(n.ast, ast.Assign) and src(n.ast.targets[0]).endswith(".state")]
    if not sts:
        chk.missing("INIT-1", "the initial hardware read stores each switch's state", u)
    for n in sts:
        v = n.ast.value
        ok = isinstance(v, ast.BinOp) and isinstance(v.op, ast.BitXor) and any(src(x).endswith(".invert") for x in (v.left, v.right))
        chk.ob("INIT-1", "the state read from hardware is inverted for NC switches", ok, u.where(n.ast), detail=src(v),
               construct=u.ident, text="initial state " + short(v, 60))
        g = cu.guards_at(n.id)
        from sa.cfg import canon_set
        cs = canon_set(g)
        ok = bool(cs) and cs <= canon_set({"switch.platform == platform": True})
        chk.ob("INIT-1", "every switch of the platform being read is updated (only other platforms' switches are skipped)", ok,
               u.where(n.ast), detail="guards %s" % sorted(g.items()), construct=u.ident, text="initial state guard")
        hw = [x for x in ast.walk(v) if isinstance(x, ast.Subscript)]
        loops = [h for h in cu.nodes if h.kind == "loop"]
        chk.ob("INIT-1", "the value comes from the platform's reported states, indexed by the switch's number", bool(hw) and
               any(call_attr(a.value) == "get_hw_switch_states" or (isinstance(a.value, ast.Await) and call_attr(a.value.value) == "get_hw_switch_states")
                   for a in ast.walk(u.node) if isinstance(a, ast.Assign)), u.where(n.ast), construct=u.ident, text="reported states used")
    # all switches and all their platforms are visited
    adds = {src(c.func.value): c for c in ast.walk(u.node) if isinstance(c, ast.Call) and call_attr(c) == "add"}
    chk.ob("INIT-1", "every configured switch and its platform are collected for the read", len(adds) >= 2 and all(
        "switch" in src(c.args[0]) for c in adds.values()), u.where(), detail="collected: %s" % sorted(adds), construct=u.ident,
        text="collection of switches/platforms")
    ini = repo.func(SC, K + "._initialize_switches")
    chk.analysed(ini)
    ok = any(call_attr(c) == "update_switches_from_hw" for c in ast.walk(ini.node) if isinstance(c, ast.Call))
    chk.ob("INIT-1", "initialisation reads the hardware states", ok, ini.where(), construct=ini.ident, text="initial read called")
    lk = [n for n in ast.walk(ini.node) if isinstance(n, ast.Assign) and "_switch_lookup[" in src(n.targets[0])]
    ok = bool(lk) and all("hw_switch.number" in src(n.targets[0]) and ".platform" in src(n.targets[0]) and src(n.value) == "switch" for n in lk)
    chk.ob("INIT-1", "the (number, platform) lookup used by platform reports maps to the switch", ok, ini.where(), construct=ini.ident,
           text="switch lookup table")
    chk.floor("INIT-1", 4)

    # ------------------------------------------------------------- EVT-1
    g2 = repo.func(SW, "Switch._initialize")
    cae = repo.func(SW, "Switch._create_activation_event")
    chk.analysed(cae)
    k = 0
    for c in ast.walk(g2.node):
        if not (isinstance(c, ast.Call) and call_attr(c) == "_create_activation_event" and len(c.args) >= 2):
            continue
        name_e, st = c.args[0], const_value(c.args[1])
        text = src(name_e)
        if isinstance(name_e, ast.Name):
            for loop in ast.walk(g2.node):
                if isinstance(loop, ast.For) and isinstance(loop.target, ast.Name) and loop.target.id == name_e.id \
                        and any(x is c for x in ast.walk(loop)):
                    text = src(loop.iter)
        t = text.lower()
        if "inactive" in t or "deactivated" in t:
            want = 0
        else:
            want = 1
        k += 1
        chk.ob("EVT-1", "switch event `%s` is registered for state %d" % (short(name_e, 50), want), st == want, g2.where(c),
               detail="registered for state %r" % (st,), construct=g2.ident, text="event %s state %r" % (" ".join(text.split())[:80], st))
    chk.floor("EVT-1", 5)
    # every configured source of switch events is registered
    texts = [" ".join(src(c.args[0]).split()) for c in ast.walk(g2.node)
             if isinstance(c, ast.Call) and call_attr(c) == "_create_activation_event" and c.args]
    loops_txt = [src(l.iter) for l in ast.walk(g2.node) if isinstance(l, ast.For) and any(
        isinstance(c, ast.Call) and call_attr(c) == "_create_activation_event" for c in ast.walk(l))]
    alltxt = texts + loops_txt
    SOURCES = [("switch_event_active", lambda t: "'switch_event_active'" in t), ("switch_event_inactive", lambda t: "'switch_event_inactive'" in t),
               ("switch_tag_event (bare)", lambda t: "'switch_tag_event'" in t and "_active" not in t and "_inactive" not in t),
               ("switch_tag_event + _active", lambda t: "'switch_tag_event'" in t and "'_active'" in t),
               ("switch_tag_event + _inactive", lambda t: "'switch_tag_event'" in t and "'_inactive'" in t),
               ("events_when_activated", lambda t: "'events_when_activated'" in t),
               ("events_when_deactivated", lambda t: "'events_when_deactivated'" in t)]
    for nm, pred in SOURCES:
        chk.ob("EVT-1", "switch events from `%s` are registered" % nm, any(pred(t.replace('"', "'")) for t in alltxt), g2.where(),
               construct=g2.ident, text="event source " + nm)
    stores = [n for n in ast.walk(cae.node) if isinstance(n, ast.Call) and call_attr(n) in ("append", "add") and "_events_to_post" in src(n.func)]
    ok = bool(stores) and all("_events_to_post[state]" in src(n.func).replace(" ", "") for n in stores)
    chk.ob("EVT-1", "an activation event is filed under the state it was created for", ok, cae.where(), construct=cae.ident,
           text="events_to_post[state] append")


def _raw_state_readers(chk, repo):
    """OWN-6b: `switch.hw_state` is the raw level last reported by the hardware, `switch.state` the logical (NC-corrected) state.
    Everything that decides about handlers, events and queries reads the logical state; the raw level is read only where hardware
    reports are compared with each other (tabled).  A decision made on the raw level is wrong for every normally-closed switch."""
    from sa.index import get_index
    idx = get_index(repo)
    ALLOWED = {("mpf/platforms/fast/communicators/net_neuron.py", "FastNetNeuronCommunicator.update_switches_from_hw_data"):
               "compares two raw reports of the same board to find changes; the change itself goes through process_switch_by_num"}
    n = 0
    for u in idx.uses("hw_state"):
        if u.store:
            continue
        n += 1
        ok = (u.relpath, u.scope) in ALLOWED
        chk.ob("OWN-6", "the raw hardware level `hw_state` is read only where raw reports are compared (%s)" % u.scope, ok, u.where(),
               detail="decisions use the logical `state`; on an NC switch the raw level is the opposite", construct=u.ident, text="hw_state read in " + u.scope)
    chk.ob("OWN-6", "reads of hw_state examined", n >= 1, "mpf/core/switch_controller.py:1", detail=str(n), nontrivial=False)


def _time_string_parsers(chk, repo):
    from sa.helpers import rescaled_time_strings
    bad, n = rescaled_time_strings(repo, ("mpf/devices/switch.py", "mpf/core/switch_controller.py", "mpf/plugins/switch_player.py"))
    for f, x, t in bad:
        chk.ob("UNIT-1", "a hold time given as a string is parsed by the millisecond parser, never by the seconds parser and rescaled", False, f.where(x),
               detail="`%s`: a bare number (e.g. `held|250`) would be read as seconds" % t, construct=f.ident, text="rescaled time string " + t)
    chk.ob("UNIT-1", "hold-time strings of switches are parsed by the parser of their unit (%d parser calls)" % n, not bad and n >= 3, "mpf/devices/switch.py:1", nontrivial=False)


def battery():
    from sa.battery import M
    return [
        M("catch-up entry built from the unwrapped callback", SC, "                value = TimedSwitchHandler(callback=callback,\n                                           state=state,\n                                           ms=ms)\n                self._add_timed_switch_handler(switch, key, value)\n\n        # Return the args", "                value = TimedSwitchHandler(callback=raw_callback,\n                                           state=state,\n                                           ms=ms)\n                self._add_timed_switch_handler(switch, key, value)\n\n        # Return the args", "PAIR-3", also=[(SC, "        if callback_kwargs and return_info:\n            callback = partial(callback, switch_name=switch.name, state=state, ms=ms, **callback_kwargs)", "        raw_callback = callback\n        if callback_kwargs and return_info:\n            callback = partial(callback, switch_name=switch.name, state=state, ms=ms, **callback_kwargs)")]),
        M("opposite-to-current state decided by the first switch only", SC, "        for switch in switches:\n            if state == 2:\n                handler_state = 0 if self.is_active(switch) else 1\n            else:\n                handler_state = state\n", "        handler_state = state\n        for switch in switches:\n            if handler_state == 2:\n                handler_state = 0 if self.is_active(switch) else 1\n", "TRIP-0"),
        M("hold time in ms subtracted from clock", SC, "current_time - (ms / 1000.0)", "current_time - ms", "UNIT-1"),
        M("deadline adds raw ms", SC, "key = switch.last_change + (entry.ms / 1000.0)", "key = switch.last_change + entry.ms", "UNIT-1"),
        M("catch-up direction inverted", SC, "if switch.last_change > current_time - (ms / 1000.0) and state == switch.state:", "if switch.last_change < current_time - (ms / 1000.0) and state == switch.state:", "UNIT-1"),
        M("catch-up ignores state", SC, "if switch.last_change > current_time - (ms / 1000.0) and state == switch.state:", "if switch.last_change > current_time - (ms / 1000.0):", "UNIT-1"),
        M("hw_state updated before duplicate test", SC, "        # if the switch is already in this state, then abort\n        if obj.state == state:", "        obj.hw_state = hw_state\n        # if the switch is already in this state, then abort\n        if obj.state == state:", "DOM-6"),
        M("duplicates still call monitors", SC, "                    state, obj.name, error_no=1)\n            return\n", "                    state, obj.name, error_no=1)\n", "DOM-6"),
        M("raw NC flips hw_state too", SC, "                state ^= 1\n", "                state ^= 1\n                hw_state ^= 1\n", "DOM-7"),
        M("inversion branches swapped", SC, "            if logical:  # NC + logical means hw_state is opposite of state", "            if not logical:  # NC + logical means hw_state is opposite of state", "DOM-7"),
        M("inversion after duplicate test", SC, "        if obj.invert:\n            if logical:  # NC + logical means hw_state is opposite of state\n                hw_state ^= 1\n            else:\n                # NC w/o logical (i.e. hardware state was sent) means logical\n                # state is the opposite\n                state ^= 1\n\n        # if the switch is already in this state, then abort\n        if obj.state == state:\n            if not self.machine.options['production']:\n                self.warning_log(\n                    \"Received duplicate switch state %s for switch %s from the platform interface.\",\n                    state, obj.name, error_no=1)\n            return\n", "        # if the switch is already in this state, then abort\n        if obj.state == state:\n            return\n\n        if obj.invert:\n            if logical:  # NC + logical means hw_state is opposite of state\n                hw_state ^= 1\n            else:\n                state ^= 1\n", "DOM-7"),
        M("timed handlers not cancelled on change", SC, "        self._cancel_timed_handlers(obj)\n\n        # Don't call switch callbacks", "        # Don't call switch callbacks", "DOM-8"),
        M("cancel after calling handlers", SC, "        self._cancel_timed_handlers(obj)\n\n        # Don't call switch callbacks during initialization, or devices may try and\n        # flag playfields active and mess up the ball counts.\n        if self._initialized and not obj.is_muted:\n            self._call_handlers(obj, state)\n", "        if self._initialized and not obj.is_muted:\n            self._call_handlers(obj, state)\n        self._cancel_timed_handlers(obj)\n", "DOM-8"),
        M("handlers of old state called", SC, "            self._call_handlers(obj, state)", "            self._call_handlers(obj, obj.hw_state)", "DOM-8"),
        M("monitors only when initialised", SC, "        for monitor in self.monitors:\n            monitor(MonitoredSwitchChange(", "        for monitor in (self.monitors if self._initialized else []):\n            monitor(MonitoredSwitchChange(", ("DOM-8", "DOM-6")),
        M("live list in _call_handlers", SC, "for entry in self.registered_switches[switch][state][:]:", "for entry in self.registered_switches[switch][state]:", "SNAP-2"),
        M("cancelled test dropped", SC, "            if entry.cancelled:\n                continue\n", "", "DOM-9"),
        M("membership re-check dropped", SC, "                    if entry not in self._active_timed_switches[switch][k]:\n                        continue\n", "", "DOM-9"),
        M("fires early", SC, "            if k <= current_time:  # change to generator?", "            if k <= current_time + 1:  # change to generator?", "DOM-9"),
        M("fired deadline kept", SC, "                    entry.callback()\n                del self._active_timed_switches[switch][k]\n", "                    entry.callback()\n", "DOM-9"),
        M("replace wake-up without unschedule", SC, "            add_handler = True\n            self.machine.clock.unschedule(self._timed_switch_handler_delay[switch][0])", "            add_handler = True", "PAIR-4"),
        M("later deadline pre-empts", SC, "elif next_event_time < self._timed_switch_handler_delay[switch][1]:", "elif next_event_time > self._timed_switch_handler_delay[switch][1]:", "PAIR-4"),
        M("remove ignores ms", SC, "            if entry.ms == ms and entry.callback == callback:\n                entry.cancelled = True", "            if entry.callback == callback:\n                entry.cancelled = True", "PAIR-3"),
        M("remove does not mark cancelled", SC, "                entry.cancelled = True\n", "", "PAIR-3"),
        M("armed record matched without state", SC, "if not (entry.state == state and entry.ms == ms and entry.callback == callback)]", "if not (entry.ms == ms and entry.callback == callback)]", "PAIR-3"),
        M("armed records survive removal", SC, "                self._active_timed_switches[switch][k] = [\n                    entry for entry in timed_entry\n                    if not (entry.state == state and entry.ms == ms and entry.callback == callback)]\n", "                pass\n", "PAIR-3"),
        M("F18 again: delete while enumerating", SC, "                self._active_timed_switches[switch][k] = [\n                    entry for entry in timed_entry\n                    if not (entry.state == state and entry.ms == ms and entry.callback == callback)]\n", "                for dummy_key, entry in enumerate(timed_entry):\n                    if entry.state == state and entry.ms == ms and entry.callback == callback:\n                        del self._active_timed_switches[switch][k][dummy_key]\n", "SNAP-3"),
        M("twin: delete while walking backwards", SC, "                self._active_timed_switches[switch][k] = [\n                    entry for entry in timed_entry\n                    if not (entry.state == state and entry.ms == ms and entry.callback == callback)]\n", "                for dummy_key in reversed(range(len(timed_entry))):\n                    entry = timed_entry[dummy_key]\n                    if entry.state == state and entry.ms == ms and entry.callback == callback:\n                        del timed_entry[dummy_key]\n", None),
        M("cancel keeps the wake-up", SC, "            self.machine.clock.unschedule(self._timed_switch_handler_delay[switch][0])\n            del self._timed_switch_handler_delay[switch]\n\n    def _add_timed_switch_handler", "            del self._timed_switch_handler_delay[switch]\n\n    def _add_timed_switch_handler", "PAIR-3"),
        M("events of the other state posted", SW, "        for event in self._events_to_post[state]:", "        for event in self._events_to_post[self.state ^ 1]:", "DOM-9"),
        M("inactive handler posts active events", SW, "self.add_handler(state=0, callback=self._post_events, callback_kwargs={\"state\": 0})", "self.add_handler(state=0, callback=self._post_events, callback_kwargs={\"state\": 1})", "DOM-9"),
        # twins
        M("twin: list() snapshot", SC, "for entry in self.registered_switches[switch][state][:]:", "for entry in list(self.registered_switches[switch][state]):", None),
        M("twin: flip via 1 - x", SC, "                hw_state ^= 1\n", "                hw_state = 1 - hw_state\n", None),
        M("twin: deadline form", SC, "if switch.last_change > current_time - (ms / 1000.0) and state == switch.state:", "if switch.last_change + (ms / 1000.0) > current_time and state == switch.state:", None),
        M("twin: early return refactor", SC, "            if entry.cancelled:\n                continue\n\n            if entry.ms:", "            if entry.cancelled:\n                continue\n            if entry.ms:", None),
        M("earlier deadline does not pre-empt (flag not set)", SC, "        elif next_event_time < self._timed_switch_handler_delay[switch][1]:\n            add_handler = True\n", "        elif next_event_time < self._timed_switch_handler_delay[switch][1]:\n", "PAIR-4"),
        M("pre-emption test reads the handle field", SC, "next_event_time < self._timed_switch_handler_delay[switch][1]", "next_event_time < self._timed_switch_handler_delay[switch][0]", "PAIR-4"),
        M("platform report dropped", SC, "        if switch:\n            self.process_switch_obj(switch, state, logical, timestamp)\n        else:", "        if switch:\n            pass\n        else:", "FWD-3"),
        M("by_num swaps state and logical", SC, "self.process_switch_obj(switch, state, logical, timestamp)", "self.process_switch_obj(switch, logical, state, timestamp)", "FWD-3"),
        M("only the first matching registration removed", SC, "                self.registered_switches[switch][state].remove(entry)\n", "                self.registered_switches[switch][state].remove(entry)\n                break\n", "PAIR-3"),
        M("waiter's immediate answer ignores the hold time", SC, "                if self.is_state(switch, state, ms):", "                if self.is_state(switch, state):", "DROP-0"),
        M("removing one pending handler drops every pending deadline of the switch", SC, "                    if not (entry.state == state and entry.ms == ms and entry.callback == callback)]\n", "                    if not (entry.state == state and entry.ms == ms and entry.callback == callback)]\n            if not all(self._active_timed_switches[switch].values()):\n                self._cancel_timed_handlers(switch)\n", "DOM-8"),
        M("remove by key does nothing", SC, "        self.remove_switch_handler_obj(switch_handler.switch_name, switch_handler.callback, switch_handler.state,\n                                       switch_handler.ms)\n\n    def remove_switch_handler_by_keys", "        pass\n\n    def remove_switch_handler_by_keys", "FWD-3"),
        M("remove by key drops ms", SC, "switch_handler.state,\n                                       switch_handler.ms)", "switch_handler.state)", "FWD-3", nth=0),
        M("Switch.remove_handler swaps state/ms", SW, "remove_switch_handler_obj(\n            self, callback, state, ms)", "remove_switch_handler_obj(\n            self, callback, ms, state)", "FWD-3"),
        M("is_inactive tests active", SC, "        return switch.state == 0\n", "        return switch.state == 1\n", "QUERY-1"),
        M("is_state ignores the asked state", SC, "            return switch.state == state and ms <= switch.get_ms_since_last_change()", "            return ms <= switch.get_ms_since_last_change()", "QUERY-1"),
        M("is_state: elapsed test inverted", SC, "return switch.state == state and ms <= switch.get_ms_since_last_change()", "return switch.state == state and ms >= switch.get_ms_since_last_change()", "QUERY-1"),
        M("is_state drops the hold time", SC, "        if not ms:\n            ms = 0.0\n\n        if ms:\n            return switch.state == state and", "        if ms:\n            ms = 0.0\n\n        if ms:\n            return switch.state == state and", "QUERY-1"),
        M("initial read ignores NC", SC, "switch.state = switch_states[number] ^ switch.invert", "switch.state = switch_states[number]", "INIT-1"),
        M("initial read applies one platform to all switches", SC, "                if switch.platform != platform:\n                    continue\n", "", "INIT-1"),
        M("initial read not stored", SC, "                    switch.state = switch_states[number] ^ switch.invert", "                    switch_states[number] ^ switch.invert", "INIT-1"),
        M("inactive event registered for active", SW, "'%', self.name), 0)", "'%', self.name), 1)", "EVT-1"),
        M("deactivation events registered for active", SW, "            self._create_activation_event(event, 0)", "            self._create_activation_event(event, 1)", "EVT-1"),
        M("tag _inactive event dropped", SW, "            self._create_activation_event(\n                self.machine.config['mpf']['switch_tag_event'].replace(\n                    '%', tag) + \"_inactive\", 0)\n", "", "EVT-1"),
        M("platform timestamp overwritten", SC, "        if timestamp is None:\n            timestamp = self.machine.clock.get_time()\n\n        # flip", "        if timestamp is not None:\n            timestamp = self.machine.clock.get_time()\n\n        # flip", "DOM-7"),
        M("state store deleted", SC, "        obj.state = state\n", "", ("DOM-8", "DOM-7", "DOM-6")),
        M("twin: is_active delegates", SC, "        if ms:\n            return switch.state == 1 and ms <= switch.get_ms_since_last_change()\n\n        return switch.state == 1\n", "        return self.is_state(switch, 1, ms)\n", None),
        M("twin: == platform guard", SC, "                if switch.platform != platform:\n                    continue\n                try:\n                    switch.state = switch_states[number] ^ switch.invert\n                except (IndexError, KeyError):", "                if switch.platform == platform:\n                  try:\n                    switch.state = switch_states[number] ^ switch.invert\n                  except (IndexError, KeyError):", None),
        M("unit-less hold time of a configured switch event read as seconds", SW, "            ms = Util.string_to_ms(ev_time)", "            ms = int(Util.string_to_secs(ev_time) * 1000)", "UNIT-1"),
        M("switch query answers from the raw level", SC, "            return switch.state == state and ms <= switch.get_ms_since_last_change()", "            return switch.hw_state == state and ms <= switch.get_ms_since_last_change()", "OWN-6"),
        M("window catch-up only after a hit opened it", SW, "        if self.state != state:\n            self._post_events(self.state)", "        if state and not self.state:\n            self._post_events(self.state)", "RECYCLE-3"),
        M("catch-up announces the remembered state", SW, "        if self.state != state:\n            self._post_events(self.state)", "        if self.state != state:\n            self._post_events(state)", "RECYCLE-3"),
        M("window closed after the catch-up", SW, "        self.recycle_clear_time = None\n        # only post event if the switch toggled\n        if self.state != state:\n            self._post_events(self.state)", "        # only post event if the switch toggled\n        if self.state != state:\n            self._post_events(self.state)\n        self.recycle_clear_time = None", "RECYCLE-3"),
        M("window measured from now instead of from the change", SW, "self.recycle_clear_time = self.last_change + self.recycle_secs", "self.recycle_clear_time = self.machine.clock.get_time() + self.recycle_secs", "RECYCLE-3"),
        M("window length in ms", SW, "self.recycle_secs = self.config['ignore_window_ms'] / 1000.0", "self.recycle_secs = self.config['ignore_window_ms']", ["RECYCLE-3", "UNIT-1"]),
    ]


def thorough(chk):
    from sa.battery import run_battery
    run_battery(chk, battery())
