"""C06 — game lifecycle (structural clauses).

TRACE-1 the event language of Game._run (callees inlined) is included in the lifecycle grammar; event arguments
DOM-13  ball counter increment between turn events; extra-ball accounting; rotate/end decision taken after the turn has ended
BOUND-1 balls in play stays within [0, balls known]; the ball ends exactly on the 1->0 transition or on request
FRESH-1 the end-ball flag is cleared before anything that can request an end is awaited (no lost end request)
DOM-14  player-add gate                         PAIR-7  machine.game set / cleared
"""
import ast

from sa.model import canon_eq, src, short, dotted, call_attr, kwarg, walk_local, AnalysisError, const_value, assigned_targets
from sa.index import get_index
from sa.traces import TraceBuilder, spec_nfa, included, event_label

GM = "mpf/modes/game/code/game.py"
G = "Game"

BALL = ("seq", "ball_will_start", "ball_starting", "ball_started",
        ("alt", "single_player_ball_started", ("seq", "multi_player_ball_started", "player_*_ball_started")),
        ("opt", "ball_start_target"),
        "ball_will_end", "ball_ending", "ball_ended")
TURN = ("seq", "player_turn_will_start", "player_turn_starting", "player_turn_started",
        BALL, ("star", BALL),
        "player_turn_will_end", "player_turn_ending", "player_turn_ended")
SPEC = ("seq", "game_will_start", "game_starting", "game_started", ("star", TURN), "game_will_end", "game_ending", "game_ended")
ALPHABET = {"game_will_start", "game_starting", "game_started", "game_will_end", "game_ending", "game_ended",
            "player_turn_will_start", "player_turn_starting", "player_turn_started", "player_turn_will_end", "player_turn_ending",
            "player_turn_ended", "ball_will_start", "ball_starting", "ball_started", "ball_will_end", "ball_ending", "ball_ended",
            "single_player_ball_started", "multi_player_ball_started", "player_*_ball_started", "ball_start_target"}
# guards that cannot be true at that point (documented assumption): the turn has a player once it started
ASSUMED_FALSE = {("_end_player_turn", "not self.player")}


def check(chk):
    repo = chk.repo
    idx = get_index(repo)
    chk.explanation = ("C06: regular abstraction of Game._run (all callees inlined) checked for inclusion in the lifecycle "
                       "grammar; argument agreement of the ball / turn events; position of the ball-number increment and the "
                       "extra-ball decrement; the rotate-or-end decision reads state after the turn ended; bounded stores to "
                       "balls-in-play; the end-ball flag is cleared before any wait; player-add gate; machine.game pairing. "
                       "Requests arriving inside queue events beyond the freshness rule are not decided.")
    game = repo.cls(GM, G)
    run = repo.func(GM, G + "._run")
    _drain_chain(chk, repo)
    _end_requests_unconditional(chk, repo)
    _per_game_limits(chk, repo)
    # the wait for empty playfields before a ball starts polls until no playfield holds a ball: what one poll found must not carry over to the
    # next (the "found" flag is reset inside the polling loop), or a ball that was still rolling at the first poll blocks the game for ever
    wpe = repo.func("mpf/core/ball_controller.py", "BallController.wait_until_playfields_are_empty")
    chk.analysed(wpe)
    wl_ = [x for x in walk_local(wpe.node) if isinstance(x, ast.While)]
    chk.need(len(wl_) == 1, "DOM-13", "wait_until_playfields_are_empty polls in a loop", wpe)
    inside_ = {id(y) for st in wl_[0].body for y in ast.walk(st)}
    flags_ = {t.id for x in ast.walk(wl_[0]) if isinstance(x, ast.Assign) and const_value(x.value) is True for t in x.targets if isinstance(t, ast.Name)}
    resets_ = [x for x in walk_local(wpe.node) if isinstance(x, ast.Assign) and const_value(x.value) is False and any(isinstance(t, ast.Name) and t.id in flags_ for t in x.targets)]
    ok_ = bool(flags_) and bool(resets_) and all(id(x) in inside_ for x in resets_)
    chk.ob("DOM-13", "each poll of the empty-playfield wait starts with a fresh `found` flag (reset inside the loop)", ok_, wpe.where(resets_[0]) if resets_ else wpe.where(),
           detail="flags %s" % sorted(flags_), construct=wpe.ident, text="poll flag reset per poll")
    # a slam tilt always ends the game: whenever there is a game, slam_tilt() marks it slam tilted - also during a running tilt or while the
    # game is ending (the mark is what makes the loop end the game instead of rotating to the next ball)
    from sa.cfg import canon_set as _cs6, canon_fact as _cf6
    from sa.helpers import positive as _pos6
    stf = repo.func("mpf/modes/tilt/code/tilt.py", "Tilt.slam_tilt")
    chk.analysed(stf)
    scfg_ = stf.cfg()
    mk_ = [n for n in scfg_.nodes if n.kind == "stmt" and isinstance(n.ast, ast.Assign) and src(n.ast.targets[0]) == "self.machine.game.slam_tilted" and src(n.ast.value) == "True"]
    chk.need(mk_, "DOM-13", "Tilt.slam_tilt marks the game slam tilted", stf)
    for n in mk_:
        got = _pos6(set(_cs6(scfg_.guards_at(n.id))))
        chk.ob("DOM-13", "a slam tilt marks the game slam tilted whenever there is a game (nothing else decides)", got == _pos6({_cf6("self.machine.game", True)}), stf.where(n.ast),
               detail="marked under %s" % sorted(got), construct=stf.ident, text="slam tilt mark condition")
    from sa.helpers import game_ended_only_through_its_api
    game_ended_only_through_its_api(chk, "PAIR-7")
    _game_end_waits(chk)

    # ------------------------------------------------------------ TRACE-1
    tb = TraceBuilder(repo, game, alphabet=ALPHABET, assumed_false=ASSUMED_FALSE)
    s0, e0 = tb.build(run)
    sp, ss, se = spec_nfa(SPEC)
    cex = included(tb.nfa, s0, e0, sp, ss, se)
    chk.analysed(run, *[m_ for m_ in tb.inlined_funcs.values() if m_.relpath == GM])
    chk.ob("TRACE-1", "every event trace of Game._run is a well-nested game / turn / ball lifecycle", cex is None, run.where(),
           detail="counter-example trace: %s" % " ".join(cex) if cex else "", construct=run.ident,
           text="lifecycle trace violation: %s" % (" ".join(cex[-4:]) if cex else ""), path=cex)
    chk.extra["trace_nfa_states"] = tb.nfa.n
    chk.extra["trace_inlined"] = sorted(tb.inlined)
    own = {q for q in tb.inlined if q.startswith(G + ".")}
    chk.expect(len(own) >= 8, "C06: fewer callees inlined into the game trace than confirmed by hand (%d)" % len(own))
    # every lifecycle event is posted from exactly one site on the run path
    for ev in sorted(ALPHABET - {"player_*_ball_started"}):
        sites = set(tb.sites.get(ev, []))
        chk.ob("TRACE-1", "lifecycle event %s has exactly one posting site on the game run path" % ev, len(sites) == 1, run.where(),
               detail="sites %s" % sorted(sites), construct=GM + "::event " + ev, text="sites of %s: %d" % (ev, len(sites)))
    # event kinds: the *ing events are queue events, the others plain
    for f in game.methods.values():
        for c in f.calls():
            nm = call_attr(c)
            if nm in ("post_async", "post_queue_async", "post", "post_queue") and (dotted(c.func.value) or "").endswith("events"):
                lab = event_label(c)
                if lab in ALPHABET and f.qualname in tb.inlined | {G + "._run"}:
                    isq = "queue" in nm
                    want_q = lab.endswith("ing") and lab not in ("ball_start_target",)
                    chk.ob("TRACE-1", "%s is posted as a %s event" % (lab, "queue" if want_q else "plain"), isq == want_q, f.where(c),
                           construct=f.ident, text="event kind %s %s" % (lab, nm))
                    aw = _awaited(f.node, c)
                    chk.ob("TRACE-1", "%s is awaited before the lifecycle continues" % lab, aw, f.where(c), construct=f.ident,
                           text="await of " + lab)
    # argument agreement
    sb = repo.func(GM, G + "._start_ball")
    args = {}
    for c in sb.calls():
        lab = event_label(c) if call_attr(c) in ("post_async", "post_queue_async") else None
        if lab in ("ball_will_start", "ball_starting", "ball_started"):
            args[lab] = [src(k.value) for k in c.keywords if k.arg is None]
    chk.ob("TRACE-1", "the three ball start events carry the same arguments", len(args) == 3 and all(v == ["event_args"] for v in args.values()),
           sb.where(), detail=str(args), construct=sb.ident, text="ball event args")
    ea = [x for x in walk_local(sb.node) if isinstance(x, ast.Assign) and src(x.targets[0]) == "event_args" and isinstance(x.value, ast.Dict)]
    want = {"player": "self.player.number", "ball": "self.player.ball", "balls_remaining": "self.balls_per_game - self.player.ball",
            "is_extra_ball": "is_extra_ball"}
    got = {k.value: src(v) for k, v in zip(ea[0].value.keys, ea[0].value.values)} if ea else {}
    chk.ob("TRACE-1", "ball events report player number, ball number, balls remaining and the extra-ball flag", got == want, sb.where(),
           detail=str(got), construct=sb.ident, text="event_args content")
    for fn in ("_start_player_turn", "_end_player_turn"):
        f = repo.func(GM, G + "." + fn)
        for c in f.calls():
            if call_attr(c) in ("post_async", "post_queue_async") and (event_label(c) or "").startswith("player_turn_"):
                kw = {k.arg: src(k.value) for k in c.keywords}
                chk.ob("TRACE-1", "%s carries player=self.player, number=self.player.number" % event_label(c),
                       kw == {"player": "self.player", "number": "self.player.number"}, f.where(c), detail=str(kw), construct=f.ident,
                       text="turn event args " + event_label(c))
    chk.floor("TRACE-1", 30)

    # ------------------------------------------------------------ DOM-13
    f = repo.func(GM, G + "._start_player_turn")
    chk.analysed(f)
    cfg = f.cfg()
    inc = [n for n in cfg.nodes_where(lambda n: n.kind == "stmt" and isinstance(n.ast, ast.AugAssign) and src(n.ast.target) == "self.player.ball")]
    pre = [n for n in cfg.nodes_where(lambda n: n.kind == "stmt") if "player_turn_starting" in n.text(300)]
    post = [n for n in cfg.nodes_where(lambda n: n.kind == "stmt") if "player_turn_started" in n.text(300)]
    ok = len(inc) == 1 and isinstance(inc[0].ast.op, ast.Add) and const_value(inc[0].ast.value) == 1 and bool(pre) and bool(post) and \
        cfg.dominates(pre[0].id, inc[0].id) and cfg.dominates(inc[0].id, post[0].id)
    chk.ob("DOM-13", "the player's ball number grows by one per turn, between player_turn_starting and player_turn_started", ok, f.where(),
           construct=f.ident, text="ball increment position")
    others = [u for u in idx.uses("ball") if u.relpath == GM and isinstance(u.parent, ast.AugAssign) and u.parent.target is u.node and
              (u.recv_text or "").endswith("player")]
    chk.ob("DOM-13", "no other place in the game changes the ball number", len(others) == 1, f.where(), detail=str([u.where() for u in others]),
           construct=GM + "::ball counter", text="ball increments")
    f = repo.func(GM, G + "._award_extra_ball")
    cfg = f.cfg()
    dec = [n for n in cfg.nodes_where(lambda n: n.kind == "stmt" and isinstance(n.ast, ast.AugAssign) and src(n.ast.target) == "self.player.extra_balls")]
    rb = [n for n, c in cfg.calls_named("_run_ball")]
    ok = len(dec) == 1 and isinstance(dec[0].ast.op, ast.Sub) and const_value(dec[0].ast.value) == 1 and bool(rb) and cfg.dominates(dec[0].id, rb[0].id)
    chk.ob("DOM-13", "an extra ball is consumed (−1) before it is played", ok, f.where(), construct=f.ident, text="extra ball accounting")
    c = [c for c in f.calls() if call_attr(c) == "_run_ball"]
    chk.ob("DOM-13", "the extra ball is announced as such", bool(c) and src(kwarg(c[0], "is_extra_ball") or (c[0].args[0] if c[0].args else None)) == "True",
           f.where(), construct=f.ident, text="is_extra_ball flag")
    cfg = run.cfg()
    wl = [x for x in ast.walk(run.node) if isinstance(x, ast.While)]
    eb = [w for w in wl if "extra_balls" in src(w.test)]
    ok = bool(eb) and src(eb[0].test).replace(" ", "").replace("(", "").replace(")", "") == "self.player.extra_ballsandnotself.slam_tilted" and \
        any(call_attr(c) == "_award_extra_ball" for st in eb[0].body for c in ast.walk(st) if isinstance(c, ast.Call))
    chk.ob("DOM-13", "extra balls are played while the player has any (and the machine is not slam tilted)", ok, run.where(), construct=run.ident,
           text="extra ball loop")
    # the rotate-or-end decision is evaluated after the turn has ended (requests during the end events count)
    ept = [n for n, c in cfg.calls_named("_end_player_turn")]
    dec_if = [x for x in ast.walk(run.node) if isinstance(x, ast.If) and any(
        isinstance(y, ast.Assign) and src(y.targets[0]) == "self.ending" and src(y.value) == "True" for y in x.body + x.orelse)]
    if not ept:
        chk.missing("DOM-13", "the game loop ends the player's turn (_end_player_turn)", run)
    if not dec_if:
        chk.missing("DOM-13", "the game loop decides to end the game after the last turn (self.ending = True under a test)", run)
    if not (ept and dec_if):
        ept = ept or [cfg.entry]
    dec_t = [t for t in cfg.nodes if t.kind == "test" and dec_if and t.owner is dec_if[0]]
    ok = bool(dec_t) and all(cfg.dominates(ept[0].id, t.id) for t in dec_t)
    # and it reads live attributes, not values saved before the turn ended
    names = set()
    for t in dec_t:
        for x in ast.walk(t.ast):
            if isinstance(x, ast.Name):
                names.add(x.id)
    stale = []
    for nm in sorted(names):
        for d in cfg.nodes_where(lambda d: d.kind == "stmt" and isinstance(d.ast, ast.Assign) and any(src(tg) == nm for tg in d.ast.targets)):
            if not cfg.dominates(ept[0].id, d.id):
                stale.append(nm)
    chk.ob("DOM-13", "whether the game ends or rotates is decided after the player's turn has ended, on live state", ok and not stale, run.where(),
           detail="decision uses locals computed before the turn ended: %s" % stale if stale else "", construct=run.ident,
           text="stale end-of-turn decision " + ",".join(sorted(set(stale))))
    tests = sorted(src(t.ast) for t in dec_t)
    want_t = sorted(["self.slam_tilted", "self.player.ball >= self.balls_per_game", canon_eq("self.player.number", "self.num_players")])
    ok = tests == want_t or bool(stale)
    chk.ob("DOM-13", "the game ends after the last player's last ball (or a slam tilt), otherwise it rotates", ok, run.where(), detail=str(tests),
           construct=run.ident, text="end decision terms " + ";".join(tests))
    rot = [n for n, c in cfg.calls_named("_rotate_players")]
    endset = [n for n in cfg.nodes_where(lambda n: n.kind == "stmt" and isinstance(n.ast, ast.Assign) and src(n.ast.targets[0]) == "self.ending"
                                         and src(n.ast.value) == "True")]
    ok = bool(rot) and bool(endset) and all(cfg.dominates(ept[0].id, x.id) for x in rot + endset)
    chk.ob("DOM-13", "rotate / end both happen after the turn ended", ok, run.where(), construct=run.ident, text="rotate after turn")
    # polarity: the game is ended on the side where the condition holds, players rotate on the other
    from sa.helpers import feasible_paths
    if dec_t and endset and rot:
        first_t = min(dec_t, key=lambda t: t.id)

        def holds(fx):
            return fx.get("self.slam_tilted") is True or (fx.get("self.player.ball >= self.balls_per_game") is True and
                                                         fx.get(canon_eq("self.player.number", "self.num_players")) is True)
        bad_end = [p_ for p_, fx in feasible_paths(cfg, first_t.id, [endset[0].id]) if not holds(fx)]
        bad_rot = [p_ for p_, fx in feasible_paths(cfg, first_t.id, [rot[0].id]) if holds(fx)]
        chk.ob("DOM-13", "the game ends exactly when the end condition holds and rotates exactly when it does not", not bad_end and not bad_rot,
               run.where(), path=cfg.fmt_path((bad_end or bad_rot)[0], GM) if (bad_end or bad_rot) else None, construct=run.ident,
               text="end/rotate polarity")
    r = repo.func(GM, G + "._rotate_players")
    rc = r.cfg()
    nxt = [n for n in rc.nodes_where(lambda n: n.kind == "stmt" and isinstance(n.ast, ast.Assign) and src(n.ast.targets[0]) == "self.player")]
    ok = len(nxt) == 2
    for n in nxt:
        g = rc.guards_at(n.id)
        v = src(n.ast.value).replace(" ", "")
        if v == "self.player_list[self.player.number]":
            ok = ok and g.get("self.player") is True and g.get("self.player.number < self.num_players") is True
        elif v == "self.player_list[0]":
            pass
        else:
            ok = False
    chk.ob("DOM-13", "players rotate in order: next index = current number, wrapping to the first", ok, r.where(), construct=r.ident,
           text="rotation")
    chk.floor("DOM-13", 6)

    # ------------------------------------------------------------ BOUND-1
    st = [u for u in idx.uses("_balls_in_play") if u.store or (isinstance(u.parent, ast.AugAssign) and u.parent.target is u.node)]
    for u in st:
        chk.ob("BOUND-1", "balls in play is stored only inside the game mode (%s)" % u.scope, u.relpath == GM and u.cls == G, u.where(),
               construct=u.ident, text="_balls_in_play store in " + u.scope)
    setter = repo.func(GM, G + ".balls_in_play")
    chk.analysed(setter)
    cfg = setter.cfg()
    stores = [n for n in cfg.nodes_where(lambda n: n.kind == "stmt" and isinstance(n.ast, ast.Assign) and src(n.ast.targets[0]) == "self._balls_in_play")]
    KN = "self.machine.ball_controller.num_balls_known"
    n_ok = 0
    for n in stores:
        v = src(n.ast.value)
        g = cfg.guards_at(n.id)
        if v == KN:
            ok = g.get("value > " + KN) is True
        elif v == "0":
            ok = g.get("value < 0") is True and g.get("value > " + KN) is False
        elif v == "value":
            ok = g.get("value < 0") is False and g.get("value > " + KN) is False
        else:
            ok = False
        n_ok += ok
        chk.ob("BOUND-1", "store `_balls_in_play = %s` is guarded so the result lies in [0, balls known]" % v, ok, setter.where(n.ast),
               detail="guards %s" % sorted(g.items()), construct=setter.ident, text="bounded store " + v)
    chk.ob("BOUND-1", "the setter clamps to both bounds", len(stores) == 3 and n_ok == 3, setter.where(), construct=setter.ident, text="three stores")
    for f in game.methods.values():
        if f is setter:
            continue
        for x in walk_local(f.node):
            if isinstance(x, ast.Assign) and any(src(t) == "self._balls_in_play" for t in x.targets):
                chk.ob("BOUND-1", "direct store to _balls_in_play in %s is the constant 0" % f.name, src(x.value) == "0", f.where(x),
                       construct=f.ident, text="direct store " + src(x.value))
    trig = [(n, c) for n, c in cfg.calls_named("set") if src(c.func.value) == "self._end_ball_event"]
    ok = len(trig) == 1 and cfg.guards_at(trig[0][0].id).get("prev_balls_in_play") is True and \
        (cfg.guards_at(trig[0][0].id).get("self._balls_in_play") is False or cfg.guards_at(trig[0][0].id).get("not self._balls_in_play") is True)
    chk.ob("BOUND-1", "the ball ends exactly when balls in play goes from positive to zero", ok, setter.where(),
           detail="guards %s" % (sorted(cfg.guards_at(trig[0][0].id).items()) if trig else None), construct=setter.ident, text="end trigger guard")
    prev = [n for n in cfg.nodes_where(lambda n: n.kind == "stmt" and isinstance(n.ast, ast.Assign) and src(n.ast.targets[0]) == "prev_balls_in_play")]
    ok = bool(prev) and src(prev[0].ast.value) == "self._balls_in_play" and all(cfg.dominates(prev[0].id, s_.id) for s_ in stores)
    chk.ob("BOUND-1", "the previous value is read before the store", ok, setter.where(), construct=setter.ident, text="prev read")
    setters = [u for u in idx.uses("_end_ball_event") if isinstance(u.parent, ast.Attribute) and u.parent.attr == "set"]
    scopes = sorted({u.scope for u in setters})
    chk.ob("BOUND-1", "only the balls-in-play setter and end_ball() request a ball end", scopes == [G + ".balls_in_play", G + ".end_ball"],
           setter.where(), detail=str(scopes), construct=GM + "::_end_ball_event", text="end requesters " + ",".join(scopes))
    bd = repo.func(GM, G + ".ball_drained")
    ok = any(isinstance(x, ast.AugAssign) and src(x.target) == "self.balls_in_play" and isinstance(x.op, ast.Sub) and src(x.value) == "balls"
             for x in walk_local(bd.node))
    chk.ob("BOUND-1", "drained balls are subtracted through the clamping setter", ok, bd.where(), construct=bd.ident, text="drain via setter")
    eg = repo.func(GM, G + ".end_game")
    calls = [call_attr(c) for c in eg.calls()]
    sets = {src(x.targets[0]): src(x.value) for x in walk_local(eg.node) if isinstance(x, ast.Assign)}
    chk.ob("BOUND-1", "end_game marks the game ending and ends the current ball", sets.get("self.ending") == "True" and "end_ball" in calls, eg.where(),
           construct=eg.ident, text="end_game")
    chk.floor("BOUND-1", 9)

    # ------------------------------------------------------------ FRESH-1
    rb = repo.func(GM, G + "._run_ball")
    chk.analysed(rb)
    cfg = rb.cfg()
    clr = [n for n, c in cfg.calls_named("clear") if src(c.func.value) == "self._end_ball_event"]
    awaits = [n for n in cfg.nodes_where(lambda n: n.kind == "stmt" and n.has_await())]
    wt = [n for n in awaits if "_end_ball_event.wait()" in n.text(200)]
    if not wt:
        chk.missing("FRESH-1", "_run_ball waits for the end-ball flag", rb)
        wt = awaits[-1:] or [cfg.exit]
    ok = bool(clr) and all(cfg.dominates(clr[0].id, a.id) for a in awaits)
    chk.ob("FRESH-1", "the end-ball flag is cleared before anything is awaited in _run_ball (an end request during ball start is kept)", ok,
           rb.where(), detail="clearing after an await wipes a request that arrived while the ball was starting: the ball never ends",
           construct=rb.ident, text="end flag cleared after an await")
    sb_ = [n for n, c in cfg.calls_named("_start_ball")]
    eb_ = [n for n, c in cfg.calls_named("_end_ball")]
    ok = bool(sb_) and bool(eb_) and cfg.dominates(sb_[0].id, wt[0].id) and cfg.dominates(wt[0].id, eb_[0].id)
    chk.ob("FRESH-1", "a ball is: start, wait for the end flag, end", ok, rb.where(), construct=rb.ident, text="run_ball order")
    c = [c for c in rb.calls() if call_attr(c) == "_start_ball"]
    chk.ob("FRESH-1", "the extra-ball flag is handed to the ball start", bool(c) and [src(a) for a in c[0].args] == ["is_extra_ball"], rb.where(),
           construct=rb.ident, text="flag forwarded")
    # fresh Event per game
    ok = any(isinstance(x, ast.Assign) and src(x.targets[0]) == "self._end_ball_event" and "asyncio.Event(" in src(x.value) for x in walk_local(run.node))
    chk.ob("FRESH-1", "each game gets a fresh end-ball flag", ok, run.where(), construct=run.ident, text="fresh flag per game")
    eb = repo.func(GM, G + "._end_ball")
    ecfg = eb.cfg()
    z = [n for n in ecfg.nodes_where(lambda n: n.kind == "stmt" and isinstance(n.ast, ast.Assign) and src(n.ast.targets[0]) == "self._balls_in_play")]
    fa = [n for n in ecfg.nodes_where(lambda n: n.kind == "stmt" and n.has_await())]
    ok = bool(z) and bool(fa) and all(ecfg.dominates(z[0].id, a.id) for a in fa)
    chk.ob("FRESH-1", "balls in play is zero before the ball-end events are posted", ok, eb.where(), construct=eb.ident, text="zero before end events")
    rm = [n for n, c in ecfg.calls_named("remove_handler") if "ball_drained" in src(c)]
    chk.ob("FRESH-1", "the drain handler of the ball is removed when the ball ends", bool(rm), eb.where(), construct=eb.ident, text="drain handler removed")

    # ------------------------------------------------------------ DOM-14
    f = repo.func(GM, G + ".request_player_add")
    chk.analysed(f)
    cfg = f.cfg()
    pb = [(n, c) for n, c in cfg.calls_named("post_boolean")]
    if not pb:
        chk.missing("DOM-14", "request_player_add asks the other modules through the boolean event player_add_request", f)
    for n, c in pb:
        g = cfg.guards_at(n.id)
        ok = g.get("self.ending") is False and g.get("len(self.player_list) >= self.max_players") is False
        from sa.helpers import feasible_paths
        paths = feasible_paths(cfg, cfg.entry.id, [n.id])
        ok = ok and bool(paths) and all(fx.get("self.player.ball > 1") is False or fx.get("self.player") is False for _p, fx in paths)
        chk.ob("DOM-14", "a player add is asked for only while not ending, below max players and on ball 1", ok, f.where(c),
               detail="guards %s" % sorted(g.items()), construct=f.ident, text="add request guards")
        cb = kwarg(c, "callback")
        chk.ob("DOM-14", "the request is a boolean event whose result decides", event_label(c) == "player_add_request" and cb is not None and
               src(cb) == "self._player_add_request_complete", f.where(c), construct=f.ident, text="add request event")
    g_ = repo.func(GM, G + "._player_add_request_complete")
    chk.analysed(g_)
    cfg = g_.cfg()
    mk = [n for n in cfg.nodes_where(lambda n: n.kind == "stmt" and isinstance(n.ast, ast.Assign) and isinstance(n.ast.value, ast.Call)
                                     and call_attr(n.ast.value) == "Player")]
    ap = [n for n, c in cfg.calls_named("append") if src(c.func.value) == "self.player_list"]
    ok = bool(mk) and bool(ap) and all(cfg.guards_at(n.id).get("ev_result is False") is False for n in mk + ap)
    chk.ob("DOM-14", "a player is created and listed only when the request was not vetoed", ok, g_.where(), construct=g_.ident, text="veto respected")
    mks = [u for u in idx.uses("Player", attrs=False, names=True) if u.call is not None and u.relpath.startswith("mpf/") and "tests" not in u.relpath]
    scopes = sorted({(u.relpath, u.scope) for u in mks})
    chk.ob("DOM-14", "Player objects are created only on the add path", scopes == [(GM, G + "._player_add_request_complete")], g_.where(),
           detail=str(scopes), construct=GM + "::Player()", text="Player creators")
    if mk:
        c = mk[0].ast.value
        ok = len(c.args) == 2 and src(c.args[1]).replace(" ", "") == "len(self.player_list)"
        chk.ob("DOM-14", "the new player's index is the current list length", ok, g_.where(c), construct=g_.ident, text="player index")
    np_ = [x for x in walk_local(g_.node) if isinstance(x, ast.Assign) and src(x.targets[0]) == "self.num_players"]
    ok = bool(np_) and src(np_[0].value).replace(" ", "") == "len(self.player_list)"
    chk.ob("DOM-14", "num_players follows the player list", ok, g_.where(), construct=g_.ident, text="num_players")
    fresh = any(isinstance(x, ast.Assign) and src(x.targets[0]) == "self.player_list" and src(x.value) in ("list()", "[]") for x in walk_local(run.node))
    chk.ob("DOM-14", "a new game starts with an empty player list", fresh, run.where(), construct=run.ident, text="fresh player list")

    # ------------------------------------------------------------ RESET-1
    # the Game mode object is reused for every game: each run must start from a clean slate, before anything is awaited
    rcfg = run.cfg()
    first_await = [n for n in rcfg.nodes_where(lambda n: n.has_await() if n.kind == "stmt" else False)]
    WANT = {"self.player": ("None",), "self.player_list": ("list()", "[]"), "self.ending": ("False",), "self.slam_tilted": ("False",),
            "self.tilted": ("False",), "self.num_players": ("0",), "self._balls_in_play": ("0",),
            "self._end_ball_event": ("asyncio.Event()",), "self._at_least_one_player_event": ("asyncio.Event()",)}
    for attr, vals in WANT.items():
        st = [n for n in rcfg.nodes_where(lambda n: n.kind == "stmt" and isinstance(n.ast, ast.Assign) and
                                          any(src(t) == attr for t in n.ast.targets))]
        good = [n for n in st if src(n.ast.value).replace(" ", "") in vals and
                all(rcfg.dominates(n.id, a.id) for a in first_await[:1])]
        chk.ob("RESET-1", "a new game resets %s before anything is awaited" % attr, bool(good), run.where(),
               detail="the game mode object is reused: stale %s from the previous game would carry over" % attr,
               construct=run.ident, text="reset of " + attr)
    chk.floor("RESET-1", 7)
    # end requests: the configured end_ball / end_game events are wired to the methods that request the end
    spec_game = [k for k in ("end_ball_event", "end_game_event")]
    regs = [c for c in ast.walk(run.node) if isinstance(c, ast.Call) and call_attr(c) == "add_mode_event_handler" and len(c.args) >= 2]
    for key, meth, target in (("end_ball_event", "event_end_ball", "end_ball"), ("end_game_event", "event_end_game", "end_game")):
        hit = [c for c in regs if "['%s']" % key in src(c.args[0]).replace('"', "'")]
        ok = bool(hit) and all(src(c.args[1]) == "self." + meth for c in hit)
        chk.ob("BOUND-1", "the configured %s is wired to %s" % (key, meth), ok, run.where(), construct=run.ident,
               text="%s wiring" % key)
        hcfg = rcfg
        for c in hit:
            n_ = [n for n in rcfg.nodes if n.kind == "stmt" and any(x is c for x in ast.walk(n.ast))]
            g = {k: v for k, v in (rcfg.guards_at(n_[0].id).items() if n_ else [])}
            chk.ob("BOUND-1", "the %s handler is registered unconditionally, before the game starts" % key, not g and bool(n_) and
                   all(rcfg.dominates(n_[0].id, a.id) for a in first_await[:1]), run.where(c), detail="guards %s" % sorted(g.items()),
                   construct=run.ident, text="%s registration guard" % key)
        m_ = repo.func(GM, G + "." + meth)
        chk.analysed(m_)
        ok = any(isinstance(c, ast.Call) and call_attr(c) == target and src(c.func.value) == "self" for c in ast.walk(m_.node))
        chk.ob("BOUND-1", "%s requests the end (%s())" % (meth, target), ok, m_.where(), construct=m_.ident, text=meth + " body")
    eb_m = repo.func(GM, G + ".end_ball")
    chk.analysed(eb_m)
    ok = any(isinstance(c, ast.Call) and call_attr(c) == "set" and src(c.func.value) == "self._end_ball_event" for c in ast.walk(eb_m.node))
    g = eb_m.cfg()
    sets = [n for n, c in g.calls_named("set") if src(c.func.value) == "self._end_ball_event"]
    chk.ob("BOUND-1", "end_ball() sets the end-ball flag on every path", ok and bool(sets) and g.must_pass(g.entry.id, [n.id for n in sets]) is None,
           eb_m.where(), construct=eb_m.ident, text="end_ball sets flag")

    # ------------------------------------------------------------ PAIR-7b: the wait for the first player is always satisfiable
    sg = repo.func(GM, G + "._start_game")
    chk.analysed(sg)
    sc_ = sg.cfg()
    waits = [n for n in sc_.nodes_where(lambda n: n.kind == "stmt" and n.has_await()) if "_at_least_one_player_event.wait()" in n.text(200)]
    if not waits:
        chk.missing("PAIR-7", "the game start waits until a player exists", sg)
    for wn in waits:
        sets = [n.id for n, c in sc_.calls_named("set") if src(c.func.value) == "self._at_least_one_player_event"]
        reqs = [n.id for n, c in sc_.calls_named("request_player_add")]
        w = sc_.path_avoiding(sc_.entry.id, [wn.id], sets + reqs, ignore_exc=True)
        chk.ob("PAIR-7", "before waiting for the first player the flag was set or a player add was requested", w is None, sg.where(wn.ast),
               path=sc_.fmt_path(w, GM) if w else None, detail="otherwise the game never starts", construct=sg.ident,
               text="wait for player without set/request")
        for sid in sets:
            g = sc_.guards_at(sid)
            chk.ob("PAIR-7", "the flag is pre-set only when a player already exists", g.get("self.player_list") is True, sg.where(sc_.nodes[sid].ast),
                   detail="guards %s" % sorted(g.items()), construct=sg.ident, text="pre-set guard")
        for rid in reqs:
            g = sc_.guards_at(rid)
            chk.ob("PAIR-7", "the first player is requested exactly when none exists", g.get("self.player_list") is False,
                   sg.where(sc_.nodes[rid].ast), detail="guards %s" % sorted(g.items()), construct=sg.ident, text="first player request guard")
    pac = repo.func(GM, G + "._player_adding_complete")
    chk.analysed(pac)
    pc = pac.cfg()
    sets = [n.id for n, c in pc.calls_named("set") if src(c.func.value) == "self._at_least_one_player_event"]
    chk.ob("PAIR-7", "a completed player add releases the wait for the first player on every path", bool(sets) and
           pc.must_pass(pc.entry.id, sets) is None, pac.where(), construct=pac.ident, text="player added sets flag")
    firstp = [n for n in pc.nodes_where(lambda n: n.kind == "stmt" and isinstance(n.ast, ast.Assign) and src(n.ast.targets[0]) == "self.player")]
    ok = bool(firstp) and all(src(n.ast.value) == "player" and pc.guards_at(n.id).get("self.player") is False for n in firstp)
    chk.ob("PAIR-7", "the first player added becomes the current player (and only the first)", ok, pac.where(), construct=pac.ident,
           text="first player becomes current")
    # single / multi player ball-start extras
    sb = repo.func(GM, G + "._start_ball")
    bc = sb.cfg()
    for n in bc.nodes_where(lambda n: n.kind == "stmt"):
        for c in n.calls():
            lab = event_label(c) if call_attr(c) in ("post", "post_async", "post_queue_async") else None
            if lab in ("single_player_ball_started", "multi_player_ball_started"):
                g = bc.guards_at(n.id)
                want = lab.startswith("single")
                chk.ob("TRACE-1", "%s is posted exactly in a %s-player game" % (lab, "one" if want else "multi"),
                       g.get("self.num_players == 1") is want or g.get("self.num_players > 1") is (not want), sb.where(c),
                       detail="guards %s" % sorted(g.items()), construct=sb.ident, text=lab + " guard")

    # ------------------------------------------------------------ PAIR-7
    ok = any(isinstance(x, ast.Assign) and src(x.targets[0]) == "self.machine.game" and src(x.value) == "self" for x in walk_local(run.node))
    ms = repo.func(GM, G + ".mode_stop")
    ok2 = any(isinstance(x, ast.Assign) and src(x.targets[0]) == "self.machine.game" and src(x.value) == "None" for x in walk_local(ms.node))
    chk.ob("PAIR-7", "machine.game is set while the game runs and cleared when the game mode stops", ok and ok2, ms.where(), construct=ms.ident,
           text="machine.game pairing")
    cfg = ms.cfg()
    clr = [n for n in cfg.nodes_where(lambda n: n.kind == "stmt" and isinstance(n.ast, ast.Assign) and src(n.ast.targets[0]) == "self.machine.game")]
    w = cfg.must_pass(cfg.entry.id, [n.id for n in clr])
    chk.ob("PAIR-7", "mode_stop clears machine.game on every path", bool(clr) and w is None, ms.where(), construct=ms.ident, text="game cleared")
    am = repo.cls("mpf/core/async_mode.py", "AsyncMode")
    sp_ = am.methods.get("_stopped") or am.methods.get("mode_stop") or list(am.methods.values())[0]
    srcs = " ".join(src(m.node) for m in am.methods.values())
    chk.ob("PAIR-7", "stopping an async mode cancels its running task", ".cancel()" in srcs and "_task" in srcs, am.where(), construct=am.ident,
           text="task cancelled")
    # the game coroutine and the game mode end together: a stopped mode cancels the coroutine (whenever one runs), a finished
    # coroutine stops the mode, the coroutine is started when the mode has started
    from sa.helpers import inloop_guards  # noqa
    from sa.cfg import canon_set, canon_fact
    for nm in ("_stopped", "_stop_mode_on_machine_stop"):
        m_ = am.methods.get(nm)
        chk.need(m_ is not None, "PAIR-7", "AsyncMode.%s exists" % nm, sp_)
        chk.analysed(m_)
        mc = m_.cfg()
        cn = [n for n, c in mc.calls_named("cancel") if src(c.func.value) == "self._task"]
        fg = [n for n in mc.nodes if n.kind == "stmt" and isinstance(n.ast, ast.Assign) and src(n.ast.targets[0]) == "self._task" and src(n.ast.value) == "None"]
        ok = len(cn) == 1 and len(fg) == 1 and set(canon_set(mc.guards_at(cn[0].id))) == {canon_fact("self._task", True)} and mc.dominates(cn[0].id, fg[0].id)
        chk.ob("PAIR-7", "AsyncMode.%s cancels the coroutine whenever one is running, then forgets it" % nm, ok, m_.where(), construct=m_.ident,
               text="%s cancels task" % nm)
    st_ = am.methods.get("_started")
    chk.need(st_ is not None, "PAIR-7", "AsyncMode._started exists", sp_)
    chk.analysed(st_)
    mk = [x for x in walk_local(st_.node) if isinstance(x, ast.Assign) and src(x.targets[0]) == "self._task" and "self._run()" in src(x.value)]
    cb = [c for c in st_.calls() if call_attr(c) == "add_done_callback" and src(c.func.value) == "self._task" and [src(a) for a in c.args] == ["self._mode_ended"]]
    chk.ob("PAIR-7", "a started async mode runs its coroutine as a task whose end is observed", len(mk) == 1 and len(cb) == 1, st_.where(), construct=st_.ident,
           text="task created and observed")
    me_ = am.methods.get("_mode_ended")
    chk.need(me_ is not None, "PAIR-7", "AsyncMode._mode_ended exists", sp_)
    chk.analysed(me_)
    mec = me_.cfg()
    stp = [n for n, c in mec.calls_named("stop") if src(c.func.value) == "self"]
    ok = len(stp) == 1 and mec.must_pass(mec.entry.id, [stp[0].id], ignore_exc=True) is None and any(call_attr(c) == "result" for c in me_.calls())
    chk.ob("PAIR-7", "when the coroutine ends (or fails) the mode is stopped and a failure is raised, not swallowed", ok, me_.where(), construct=me_.ident,
           text="coroutine end stops mode")
    eg_ = repo.func(GM, G + "._end_game")
    last = [n for n in eg_.cfg().nodes_where(lambda n: n.kind == "stmt") if "game_ended" in n.text(200)]
    chk.ob("PAIR-7", "game_ended is the last thing the game run posts", bool(last), eg_.where(), construct=eg_.ident, text="game_ended last")


def _end_requests_unconditional(chk, repo):
    """END-6: a request to end the game or the ball is never swallowed.  Game.end_game marks the game as ending and asks for the ball to
    end on every returning path (the ending flag may be set already while the ball is still running: an earlier request that arrived
    while the next turn was starting, or a pending extra ball, leaves `ending` set and the ball in play - the second request must still
    end it).  Game.end_ball releases the ball-end wait on every returning path."""
    f = repo.func(GM, "Game.end_game")
    chk.analysed(f)
    cfg = f.cfg()
    sets = [n.id for n in cfg.nodes if n.kind == "stmt" and isinstance(n.ast, ast.Assign) and src(n.ast.targets[0]) == "self.ending" and
            src(n.ast.value) == "True"]
    ends = [n.id for n, c in cfg.calls_named("end_ball") if dotted(c.func.value) == "self"]
    chk.need(sets and ends, "END-6", "Game.end_game sets the ending flag and asks for the ball to end", f)
    already = [n.id for n in cfg.nodes if n.kind == "branch" and src(n.ast) == "self.ending" and n.value is True]
    for what, via in (("marks the game as ending", sets + already), ("asks for the ball to end (self.end_ball())", ends)):
        path = cfg.must_pass(cfg.entry.id, via)
        chk.ob("END-6", "every returning path of Game.end_game " + what, path is None, f.where(), construct=f.ident,
               detail="a request that is dropped because the flag is already set leaves the ball in play: no ball_ended, no game_ended",
               text="end_game " + what, path=cfg.fmt_path(path, f) if path else None, nontrivial=True)
    g = repo.func(GM, "Game.end_ball")
    chk.analysed(g)
    gcfg = g.cfg()
    rel = [n.id for n, c in gcfg.calls_named("set") if "_end_ball_event" in src(c.func) or "end_ball" in src(c.func)]
    chk.need(rel, "END-6", "Game.end_ball releases the ball-end wait (<event>.set())", g)
    path = gcfg.must_pass(gcfg.entry.id, rel)
    chk.ob("END-6", "every returning path of Game.end_ball releases the ball-end wait", path is None, g.where(), construct=g.ident,
           text="end_ball releases the wait", path=gcfg.fmt_path(path, g) if path else None, nontrivial=True)


def _per_game_limits(chk, repo):
    """LIMIT-6: how many balls a game has and how many players it takes is decided when the game starts, every time: Game._run evaluates the
    `balls_per_game` and `max_players` templates on every path before the first turn (the Game object is reused from game to game; the
    settings behind the templates may change between two games)."""
    f = repo.func(GM, "Game._run")
    chk.analysed(f)
    cfg = f.cfg()
    for attr, key in (("self.balls_per_game", "balls_per_game"), ("self.max_players", "max_players")):
        st = [n for n in cfg.nodes if n.kind == "stmt" and isinstance(n.ast, ast.Assign) and src(n.ast.targets[0]) == attr and isinstance(n.ast.value, ast.Call) and
              call_attr(n.ast.value) == "evaluate" and ("['%s']" % key) in src(n.ast.value).replace('"', "'")]
        chk.need(st, "LIMIT-6", "Game._run takes %s from the game configuration" % key, f)
        w = cfg.must_pass(cfg.entry.id, [n.id for n in st])
        first_turn = [n.id for n, c in cfg.calls_named("_start_player_turn", "_start_ball", "_run_ball")]
        before = all(cfg.path_avoiding(cfg.entry.id, [t], [n.id for n in st], ignore_exc=True) is None for t in first_turn) if first_turn else True
        chk.ob("LIMIT-6", "every game evaluates %s afresh before its first turn (no carry-over from the previous game)" % key, w is None and before, f.where(st[0].ast),
               detail="guards %s" % sorted(cfg.guards_at(st[0].id).items()), construct=f.ident, text="per-game evaluation of " + key,
               path=cfg.fmt_path(w, f) if w else None, nontrivial=True)


def _drain_chain(chk, repo):
    """DRAIN-6: the route from a ball entering a drain device to the game's ball count: the ball controller listens on the entrance event
    of every device tagged drain or trough (exactly those), relays the *unclaimed* balls as `ball_drain`, and the game subtracts what the
    relay left - whatever it is, only nothing when nothing is left - through the clamping setter and hands the number back."""
    from sa.cfg import canon_set, canon_fact
    from sa.helpers import inloop_guards, positive
    BC = "mpf/core/ball_controller.py"
    f = repo.func(BC, "BallController._initialize")
    chk.analysed(f)
    cfg = f.cfg()
    ah = [(n, c) for n, c in cfg.calls_named("add_handler") if any(src(a) == "self._ball_drained_handler" for a in c.args)]
    lps = [h for h in cfg.nodes if h.kind == "loop"]
    chk.need(len(ah) == 1 and len(lps) == 1, "DRAIN-6", "the ball controller registers its drain handler per device", f)
    n, c = ah[0]
    got = positive(inloop_guards(cfg, n.id, lps[0].id, compound=True))
    want = positive({canon_fact("'drain' in device.tags or 'trough' in device.tags", True)})
    chk.ob("DRAIN-6", "the drain handler listens at exactly the devices tagged drain or trough", got == want and src(lps[0].ast.iter) == "self.machine.ball_devices.values()",
           f.where(c), detail="selected by %s" % sorted(got), construct=f.ident, text="drain handler selection")
    ev = src(c.args[0]).replace('"', "'").replace(" ", "")
    chk.ob("DRAIN-6", "it listens on the device's own ball_enter event", ev in ("'balldevice_'+device.name+'_ball_enter'", "'balldevice_{}_ball_enter'.format(device.name)"),
           f.where(c), detail=ev, construct=f.ident, text="drain handler event")
    h = repo.func(BC, "BallController._ball_drained_handler")
    chk.analysed(h)
    pr = [c for c in h.calls() if call_attr(c) == "post_relay" and c.args and const_value(c.args[0]) == "ball_drain"]
    ok = len(pr) == 1 and kwarg(pr[0], "balls") is not None and src(kwarg(pr[0], "balls")) == "unclaimed_balls" and kwarg(pr[0], "device") is not None and \
        src(kwarg(pr[0], "device")) == "device"
    ok = ok and not [x for x in walk_local(h.node) if isinstance(x, (ast.If, ast.Return)) ]
    chk.ob("DRAIN-6", "every entrance is relayed as ball_drain with the balls nobody claimed (not the new or the total count)", ok, h.where(), construct=h.ident,
           text="ball_drain relay")
    sb = repo.func(GM, G + "._start_ball")
    scfg = sb.cfg()
    reg = [(n, c) for n, c in scfg.calls_named("add_mode_event_handler") if c.args and const_value(c.args[0]) == "ball_drain"]
    bip = [n for n in scfg.nodes if n.kind == "stmt" and isinstance(n.ast, ast.Assign) and src(n.ast.targets[0]) == "self.balls_in_play"]
    ok = len(reg) == 1 and src(reg[0][1].args[1]) == "self.ball_drained" and not scfg.guards_at(reg[0][0].id) and len(bip) == 1 and \
        scfg.must_pass(scfg.entry.id, [reg[0][0].id], ends=[bip[0].id]) is None
    chk.ob("DRAIN-6", "each ball listens for ball_drain before its first ball is counted in play", ok, sb.where(), construct=sb.ident, text="ball_drain listener")
    ok = ok and len(reg[0][1].args) == 2 and not [k for k in reg[0][1].keywords if k.arg == "priority"]
    chk.ob("DRAIN-6", "the game takes what is left of the relay (default priority: after the devices that claim balls)", ok, sb.where(), construct=sb.ident,
           text="ball_drain listener priority")
    bd = repo.func(GM, G + ".ball_drained")
    bcfg = bd.cfg()
    sub = [n for n in bcfg.nodes if n.kind == "stmt" and isinstance(n.ast, ast.AugAssign) and src(n.ast.target) == "self.balls_in_play"]
    ok = len(sub) == 1 and positive(set(canon_set(bcfg.guards_at(sub[0].id)))) == positive({canon_fact("balls", True)})
    chk.ob("DRAIN-6", "whatever the relay left is subtracted (only `nothing left` skips it)", ok, bd.where(), construct=bd.ident, text="drain subtract guard")
    rets = [x for x in walk_local(bd.node) if isinstance(x, ast.Return)]
    ok = len(rets) == 1 and isinstance(rets[0].value, ast.Dict) and [const_value(k) for k in rets[0].value.keys] == ["balls"] and src(rets[0].value.values[0]) == "balls"
    chk.ob("DRAIN-6", "the relay goes on with the same number", ok, bd.where(), construct=bd.ident, text="drain relay result")
    sig = [a.arg for a in bd.node.args.args]
    dflt = [src(d) for d in bd.node.args.defaults]
    chk.ob("DRAIN-6", "ball_drained(balls=0, **kwargs)", sig == ["self", "balls"] and dflt == ["0"] and bd.node.args.kwarg is not None, bd.where(), construct=bd.ident,
           text="drain signature")


def _awaited(fn, call):
    for x in ast.walk(fn):
        if isinstance(x, ast.Await) and x.value is call:
            return True
    return False


def _in_while_test(fn, expr, needle):
    for w in ast.walk(fn):
        if isinstance(w, ast.While) and needle in src(w.test) and any(y is expr for y in ast.walk(w.test)):
            return True
    return False



def _game_end_waits(chk):
    from sa.helpers import stop_loop_selection
    stop_loop_selection(chk, "PAIR-7", "game", "a game mode still stopping when the game mode stops runs outside of a game; the game never finishes ending")


def battery():
    from sa.battery import M
    return [
        M("found flag of the empty-playfield wait set up once", "mpf/core/ball_controller.py", "        while True:\n            found_balls = False\n", "        found_balls = False\n        while True:\n", "DOM-13"),
        M("slam tilt ignored during a tilt", "mpf/modes/tilt/code/tilt.py", "        if not self.machine.game:\n            return\n\n        self.machine.game.slam_tilted = True", "        if not self.machine.game or self.machine.game.tilted:\n            return\n\n        self.machine.game.slam_tilted = True", "DOM-13"),
        M("balls per game read once per machine run", GM, "        self.balls_per_game = self.machine.config['game']['balls_per_game'].evaluate([])", "        if self.balls_per_game is None:\n            self.balls_per_game = self.machine.config['game']['balls_per_game'].evaluate([])", "LIMIT-6"),
        M("second end_game request ignored", GM, "        self.ending = True\n        self.end_ball()\n\n    def _game_ending_completed", "        if self.ending:\n            return\n        self.ending = True\n        self.end_ball()\n\n    def _game_ending_completed", "END-6"),
        M("twin: ending flag set only when clear", GM, "        self.ending = True\n        self.end_ball()\n\n    def _game_ending_completed", "        if not self.ending:\n            self.ending = True\n        self.end_ball()\n\n    def _game_ending_completed", None),
        M("end_ball ignored while ending", GM, "        self._end_ball_event.set()\n\n    async def _end_ball", "        if not self.ending:\n            self._end_ball_event.set()\n\n    async def _end_ball", "END-6"),
        M("ball_ended before ball_ending", GM, "        await self.machine.events.post_queue_async('ball_ending')", "        await self.machine.events.post_async('ball_ended')\n        await self.machine.events.post_queue_async('ball_ending')", "TRACE-1"),
        M("turn end events skipped on game end", GM, "            await self._end_player_turn()\n\n            if self.slam_tilted or", "            if not self.ending:\n                await self._end_player_turn()\n\n            if self.slam_tilted or", "TRACE-1"),
        M("game_starting plain event", GM, "await self.machine.events.post_queue_async('game_starting', game=self)", "await self.machine.events.post_async('game_starting', game=self)", "TRACE-1"),
        M("ball_started carries stale args", GM, "await self.machine.events.post_async('ball_started', **event_args)", "await self.machine.events.post_async('ball_started', player=self.player.number)", "TRACE-1"),
        M("turn event wrong number", GM, "        await self.machine.events.post_async('player_turn_started',\n                                             player=self.player,\n                                             number=self.player.number)", "        await self.machine.events.post_async('player_turn_started',\n                                             player=self.player,\n                                             number=self.player.index)", "TRACE-1"),
        M("ball increment before turn_starting", GM, "        self.player.ball += 1\n", "", "DOM-13", also=[(GM, "        await self.machine.events.post_queue_async('player_turn_starting',", "        self.player.ball += 1\n        await self.machine.events.post_queue_async('player_turn_starting',")]),
        M("extra ball not consumed", GM, "        self.player.extra_balls -= 1\n", "", "DOM-13"),
        M("stale game-over decision", GM, "            await self._end_player_turn()\n\n            if self.slam_tilted or self.player.ball >= self.balls_per_game and self.player.number == self.num_players:\n                self.ending = True", "            last_turn = self.player.ball >= self.balls_per_game and self.player.number == self.num_players\n            game_over = self.slam_tilted or last_turn\n            await self._end_player_turn()\n            if game_over:\n                self.ending = True", "DOM-13"),
        M("game ends one ball early", GM, "self.player.ball >= self.balls_per_game and self.player.number == self.num_players:", "self.player.ball >= self.balls_per_game - 1 and self.player.number == self.num_players:", "DOM-13"),
        M("balls in play not capped", GM, "            self._balls_in_play = self.machine.ball_controller.num_balls_known\n", "            self._balls_in_play = value\n", "BOUND-1"),
        M("negative balls in play", GM, "        elif value < 0:\n            self._balls_in_play = 0\n", "        elif value < -1:\n            self._balls_in_play = 0\n", "BOUND-1"),
        M("ball ends on any zero store", GM, "        if prev_balls_in_play and not self._balls_in_play:", "        if not self._balls_in_play:", "BOUND-1"),
        M("drain bypasses setter", GM, "            self.balls_in_play -= balls", "            self._balls_in_play -= balls", "BOUND-1"),
        M("end flag cleared after ball start", GM, "        self._end_ball_event.clear()\n        await self._start_ball(is_extra_ball)\n        # Wait for end ball event to be set\n        await self._end_ball_event.wait()", "        await self._start_ball(is_extra_ball)\n        # Wait for end ball event to be set\n        self._end_ball_event.clear()\n        await self._end_ball_event.wait()", "FRESH-1"),
        M("player added on later ball", GM, "        if self.player and self.player.ball > 1:  # todo config setting\n            self.debug_log(\"Current ball is after Ball 1. Cannot add player.\")\n            return False\n", "", "DOM-14"),
        M("veto ignored", GM, "        if ev_result is False:\n            self.debug_log(\"Request to add player has been denied.\")\n            return False\n", "", "DOM-14"),
        M("machine.game kept after stop", GM, "        self.machine.game = None", "        pass", "PAIR-7", nth=1),
        M("end decision inverted", GM, "            if self.slam_tilted or self.player.ball >= self.balls_per_game and self.player.number == self.num_players:\n                self.ending = True\n            else:\n                await self._rotate_players()", "            if self.slam_tilted or self.player.ball >= self.balls_per_game and self.player.number == self.num_players:\n                await self._rotate_players()\n            else:\n                self.ending = True", "DOM-13"),
        M("twin: end decision with the branches swapped and the test negated", GM, "            if self.slam_tilted or self.player.ball >= self.balls_per_game and self.player.number == self.num_players:\n                self.ending = True\n            else:\n                await self._rotate_players()", "            if not (self.slam_tilted or self.player.ball >= self.balls_per_game and self.player.number == self.num_players):\n                await self._rotate_players()\n            else:\n                self.ending = True", None),
        M("balls in play carried over to the next game", GM, "        self._balls_in_play = 0\n        self._stopping_modes = []", "        self._stopping_modes = []", "RESET-1"),
        M("ending flag carried over", GM, "        self.ending = False\n        self.num_players = 0", "        self.num_players = 0", "RESET-1"),
        M("tilt flag reset after the game started", GM, "        self.slam_tilted = False\n        self.tilted = False\n", "        self.tilted = False\n", "RESET-1", nth=1, also=[(GM, "        await self._start_game()\n\n        # Game loop", "        await self._start_game()\n        self.slam_tilted = False\n\n        # Game loop")]),
        M("end_ball_event not wired", GM, "        self.add_mode_event_handler(self.machine.config['game']['end_ball_event'], self.event_end_ball)\n", "", "BOUND-1"),
        M("end_game_event wired to end_ball", GM, "self.machine.config['game']['end_game_event'], self.event_end_game)", "self.machine.config['game']['end_game_event'], self.event_end_ball)", "BOUND-1"),
        M("event_end_ball does nothing", GM, "        del kwargs\n        self.end_ball()", "        del kwargs", "BOUND-1"),
        M("pre-existing players: flag cleared instead of set", GM, "        if self.player_list:\n            self._at_least_one_player_event.set()", "        if self.player_list:\n            self._at_least_one_player_event.clear()", "PAIR-7"),
        M("added player does not release the start", GM, "        # At least one player has been added to the current game, set event\n        self._at_least_one_player_event.set()\n", "", "PAIR-7"),
        M("single/multi ball-start events swapped", GM, "        if self.num_players == 1:\n            await self.machine.events.post_async('single_player_ball_started')", "        if self.num_players != 1:\n            await self.machine.events.post_async('single_player_ball_started')", "TRACE-1"),
        M("player add request is a plain event", GM, "self.machine.events.post_boolean('player_add_request',", "self.machine.events.post('player_add_request',", "DOM-14"),
        # twins
        M("twin: end decision via helper locals after turn end", GM, "            await self._end_player_turn()\n\n            if self.slam_tilted or self.player.ball >= self.balls_per_game and self.player.number == self.num_players:", "            await self._end_player_turn()\n\n            if self.slam_tilted or (self.player.ball >= self.balls_per_game and self.player.number == self.num_players):", None),
        M("twin: debug log added", GM, "        self.debug_log(\"Game started\")", "        self.debug_log(\"Game started!\")", None),
        M("game end does not wait for a game mode that is already stopping", GM, "            if mode.is_game_mode and mode.active:\n                self._stopping_modes.append(mode)", "            if mode.is_game_mode and mode.active and not mode.stopping:\n                self._stopping_modes.append(mode)", "PAIR-7"),
        M("stopped game mode leaves its coroutine running", "mpf/core/async_mode.py", "        super()._stopped()\n\n        if self._task:\n            self._task.cancel()\n            self._task = None", "        super()._stopped()", "PAIR-7"),
        M("finished coroutine does not stop the mode", "mpf/core/async_mode.py", "        # stop mode\n        self.stop()", "        # stop mode\n        pass", "PAIR-7"),
        M("coroutine failures swallowed", "mpf/core/async_mode.py", "            future.result()\n        except asyncio.CancelledError:", "            pass\n        except asyncio.CancelledError:", "PAIR-7"),
        M("drain handler only at devices tagged drain", "mpf/core/ball_controller.py", "            if 'drain' in device.tags or 'trough' in device.tags:  # device is used to drain balls from pf", "            if 'drain' in device.tags:  # device is used to drain balls from pf", "DRAIN-6"),
        M("all new balls relayed as drained", "mpf/core/ball_controller.py", "    def _ball_drained_handler(self, new_balls: int, unclaimed_balls: int, device: BallDevice, **kwargs) -> None:\n        del kwargs\n        del new_balls\n        self.machine.events.post_relay('ball_drain',\n                                       device=device,\n                                       balls=unclaimed_balls)", "    def _ball_drained_handler(self, new_balls: int, unclaimed_balls: int, device: BallDevice, **kwargs) -> None:\n        del kwargs\n        del unclaimed_balls\n        self.machine.events.post_relay('ball_drain',\n                                       device=device,\n                                       balls=new_balls)", "DRAIN-6"),
        M("game takes drains before claiming devices", GM, "        self.add_mode_event_handler('ball_drain', self.ball_drained)", "        self.add_mode_event_handler('ball_drain', self.ball_drained, priority=1000)", "DRAIN-6"),
        M("single drains only", GM, "        if balls:\n            self.debug_log(\"Processing %s newly-drained ball(s)\", balls)", "        if balls == 1:\n            self.debug_log(\"Processing %s newly-drained ball(s)\", balls)", "DRAIN-6"),
        M("ball search gives up by stopping the game mode directly", "mpf/core/ball_search.py", "                self.info_log(\"Ending the game\")\n                self.machine.game.end_game()", "                self.info_log(\"Ending the game\")\n                self.machine.game.stop()", "PAIR-7"),
    ]


def thorough(chk):
    from sa.battery import run_battery
    run_battery(chk, battery())
