"""C13 — delays and periodic timers (structural clauses).

UNIT-4  delay durations are milliseconds everywhere; schedule_once gets seconds
PAIR-13 every path that drops a delay record cancels its scheduled call; fire path deletes before calling
FLOW-5  all invocations of a stored delay callback receive the kwargs given to add()
DOM-25  PeriodicTask reschedules on the fixed grid (no clock read), tests cancel before the callback
FLAG-3  Timer device start/stop/pause protocol
DOM-26  Mode.stop clears the mode's delays
"""
import ast

from sa.model import src, short, dotted, call_attr, kwarg, walk_local, AnalysisError, const_value, assigned_targets
from sa.helpers import is_snapshot, base_container
from sa.index import get_index
from sa.units import Units, load_spec, MS, S, ABS

DL = "mpf/core/delays.py"
CK = "mpf/core/clock.py"
TM = "mpf/devices/timer.py"


def check(chk):
    repo = chk.repo
    chk.explanation = ("C13: unit check of every delay.add/reset/add_if_doesnt_exist call in the repository; cancel-on-removal "
                       "pairing in DelayManager; stored-kwargs provenance for run_now; grid rescheduling of PeriodicTask; "
                       "Timer device flag protocol; Mode.stop clears delays. Exact firing instants are not decided.")
    units = Units(repo, load_spec(repo))
    dm = repo.cls(DL, "DelayManager")

    # ------------------------------------------------------------- UNIT-4
    f = repo.func(DL, "DelayManager.add")
    chk.analysed(f)
    so = [c for c in f.calls() if call_attr(c) == "schedule_once"]
    chk.need(so, "PAIR-13", "DelayManager.add schedules the callback (schedule_once)", f)
    for c in so:
        a = c.args[1] if len(c.args) > 1 else kwarg(c, "timeout")
        d = units.dim(a, f, units.env_for(f))
        chk.ob("UNIT-4", "DelayManager.add schedules after ms/1000 seconds", d == S, f.where(c), detail="%s : %s" % (src(a), d),
               construct=f.ident, text="schedule_once timeout " + src(a))
    g = repo.func(CK, "ClockBase.schedule_once")
    cl = [c for c in g.calls() if call_attr(c) in ("call_later", "call_at")]
    ok = bool(cl) and all(call_attr(c) == "call_later" and src(kwarg(c, "delay") or c.args[0]) == "timeout" for c in cl)
    chk.ob("UNIT-4", "schedule_once passes its timeout (seconds) to loop.call_later unchanged", ok, g.where(), construct=g.ident,
           text="call_later(timeout)")
    n_typed = 0
    n_sites = 0
    for fn in repo.all_funcs():
        has = False
        for c in fn.calls():
            if call_attr(c) in ("add", "reset", "add_if_doesnt_exist") and isinstance(c.func, ast.Attribute):
                rv = dotted(c.func.value) or ""
                if rv.endswith("delay") or rv.endswith("_delay"):
                    has = True
        if not has:
            continue
        env = units.env_for(fn)
        for c in fn.calls():
            if call_attr(c) in ("add", "reset", "add_if_doesnt_exist") and isinstance(c.func, ast.Attribute):
                rv = dotted(c.func.value) or ""
                if not (rv.endswith("delay") or rv.endswith("_delay")):
                    continue
                n_sites += 1
                a = kwarg(c, "ms") or (c.args[0] if c.args and not isinstance(c.args[0], ast.Starred) else None)
                if a is None:
                    continue
                d = units.dim(a, fn, env)
                if d in (None, "num"):
                    continue
                n_typed += 1
                chk.ob("UNIT-4", "delay duration is milliseconds in %s" % fn.qualname, d == MS, fn.where(c),
                       detail="ms=%s has dimension %s" % (src(a), d), construct=fn.ident, text="delay ms " + src(a))
    chk.expect(n_sites >= 60 and n_typed >= 35, "C13: delay call sites lost (%d sites, %d typed)" % (n_sites, n_typed))
    chk.extra["delay_call_sites"] = n_sites
    chk.extra["delay_call_sites_with_known_dimension"] = n_typed

    # ------------------------------------------------------------- PAIR-13
    for name in ("add", "remove"):
        f = repo.func(DL, "DelayManager." + name)
        chk.analysed(f)
        cfg = f.cfg()
        pops = [n for n in cfg.nodes_where(lambda n: n.kind == "stmt" and isinstance(n.ast, ast.Assign) and
                                           isinstance(n.ast.value, ast.Call) and call_attr(n.ast.value) == "pop" and
                                           src(n.ast.value.func.value) == "self.delays")]
        dels = [n for n in cfg.nodes_where(lambda n: n.kind == "stmt" and isinstance(n.ast, ast.Delete) and
                                           "self.delays[" in src(n.ast))]
        chk.ob("PAIR-13", "DelayManager.%s takes the old record out of the table" % name, bool(pops) or bool(dels), f.where(),
               construct=f.ident, text="record removed")
        uns = [(n, c) for n, c in cfg.calls_named("unschedule")]
        for p in pops:
            var = src(p.ast.targets[0])
            good = [n.id for n, c in uns if c.args and src(c.args[0]) == "%s[0]" % var]
            w = cfg.must_pass(p.id, good, ignore_exc=True)
            chk.ob("PAIR-13", "DelayManager.%s cancels the scheduled call of the record it removes" % name, w is None and bool(good),
                   f.where(p.ast), path=cfg.fmt_path(w, DL) if w else None,
                   detail="the replaced/removed delay would still fire", construct=f.ident, text="pop without unschedule")
        for d in dels:
            chk.ob("PAIR-13", "DelayManager.%s removes records only together with their handle" % name, False, f.where(d.ast),
                   detail="`del self.delays[...]` loses the handle", construct=f.ident, text="del without unschedule")
    # add: the old record is removed before the new one is stored
    f = repo.func(DL, "DelayManager.add")
    cfg = f.cfg()
    store = [n for n in cfg.nodes_where(lambda n: n.kind == "stmt" and isinstance(n.ast, ast.Assign) and
                                        src(n.ast.targets[0]) == "self.delays[name]")]
    chk.need(store, "PAIR-13", "DelayManager.add files the delay under its name", f)
    pops = [n for n in cfg.nodes_where(lambda n: n.kind == "stmt" and isinstance(n.ast, ast.Assign) and
                                       isinstance(n.ast.value, ast.Call) and call_attr(n.ast.value) == "pop")]
    rm = [n for n, c in cfg.calls_named("remove") if src(c.func.value) == "self"]
    ok = all(any(cfg.dominates(p.id, s_.id) for p in pops + rm) or
             not cfg.path_avoiding(cfg.entry.id, [s_.id], [p.id for p in pops + rm]) for s_ in store)
    chk.ob("PAIR-13", "adding under an existing name first removes (and cancels) the old delay", ok and bool(pops + rm), f.where(),
           construct=f.ident, text="replace removes old")
    # clear
    f = repo.func(DL, "DelayManager.clear")
    chk.analysed(f)
    cfg = f.cfg()
    loops = [h for h in cfg.nodes if h.kind == "loop" and "self.delays" in src(h.ast.iter)]
    chk.ob("PAIR-13", "clear() visits every delay", bool(loops), f.where(), construct=f.ident, text="clear loop")
    for h in loops:
        chk.ob("PAIR-13", "clear() iterates a copy (records are removed in the loop)", is_snapshot(h.ast.iter), f.where(h.ast),
               construct=f.ident, text="clear snapshot")
        body_calls = [call_attr(c) for st in h.ast.body for c in ast.walk(st) if isinstance(c, ast.Call)]
        chk.ob("PAIR-13", "clear() cancels every scheduled call", "unschedule" in body_calls or "remove" in body_calls, f.where(h.ast),
               detail="loop body calls %s" % body_calls, construct=f.ident, text="clear cancels")
    resets = [n for n in cfg.nodes_where(lambda n: n.kind == "stmt" and isinstance(n.ast, ast.Assign) and
                                         src(n.ast.targets[0]) == "self.delays")]
    for r in resets:
        ok = bool(loops) and all(cfg.dominates(h.id, r.id) for h in loops)
        chk.ob("PAIR-13", "the table is emptied only after all scheduled calls are cancelled", ok, f.where(r.ast), construct=f.ident,
               text="reset after cancel")
    # reset(): remove then add
    f = repo.func(DL, "DelayManager.reset")
    chk.analysed(f)
    cfg = f.cfg()
    adds = [n for n, c in cfg.calls_named("add") if src(c.func.value) == "self"]
    rms = [n for n, c in cfg.calls_named("remove") if src(c.func.value) == "self"]
    ok = bool(adds) and bool(rms) and all(not cfg.path_avoiding(a.id, [r.id], []) for a in adds for r in rms)
    chk.ob("PAIR-13", "reset() removes the old delay before adding the new one", ok, f.where(), construct=f.ident, text="reset order")
    w = cfg.must_pass(cfg.entry.id, [a.id for a in adds])
    chk.ob("PAIR-13", "reset() always (re)adds the delay", w is None, f.where(), construct=f.ident, text="reset adds")
    # _process_delay_callback
    f = repo.func(DL, "DelayManager._process_delay_callback")
    chk.analysed(f)
    cfg = f.cfg()
    cbs = [(n, c) for n in cfg.nodes_where(lambda n: n.kind != "branch") for c in n.calls()
           if isinstance(c.func, ast.Name) and c.func.id == "callback"]
    chk.need(cbs, "PAIR-13", "a firing delay calls its callback", f)
    dels = [n for n in cfg.nodes_where(lambda n: n.kind == "stmt" and ((isinstance(n.ast, ast.Delete) and "self.delays[name]" in src(n.ast)) or
                                                                       (isinstance(n.ast, ast.Expr) and "self.delays.pop(name" in src(n.ast))))]
    for n, c in cbs:
        ok = bool(dels) and all(not cfg.path_avoiding(n.id, [d.id], [], ignore_exc=True) for d in dels) and \
            cfg.path_avoiding(cfg.entry.id, [n.id], [d.id for d in dels], ignore_exc=True) is None
        chk.ob("PAIR-13", "a firing delay is removed from the table before its callback runs (the callback may re-add the name)", ok,
               f.where(c), construct=f.ident, text="delete before callback")
        star = [k for k in c.keywords if k.arg is None]
        chk.ob("FLOW-5", "the fired callback receives the stored kwargs", len(star) == 1 and src(star[0].value) == "kwargs" and not c.args,
               f.where(c), construct=f.ident, text="callback(**kwargs)")
    drains = [n for n, c in cfg.calls_named("process_event_queue")]
    ok = bool(drains) and all(cfg.dominates(n.id, d.id) for n, _ in cbs for d in drains)
    chk.ob("PAIR-13", "the event queue is drained after the delay callback", ok, f.where(), construct=f.ident, text="drain after callback")
    # check / add_if_doesnt_exist
    f = repo.func(DL, "DelayManager.check")
    rets = [n for n in walk_local(f.node) if isinstance(n, ast.Return)]
    ok = len(rets) == 1 and src(rets[0].value).replace(" ", "") in ("delayinself.delays", "delayinself.delays.keys()")
    chk.ob("PAIR-13", "check() answers from the live table", ok, f.where(), construct=f.ident, text="check truthful")
    f = repo.func(DL, "DelayManager.add_if_doesnt_exist")
    cfg = f.cfg()
    for n, c in cfg.calls_named("add"):
        g_ = cfg.guards_at(n.id)
        ok = g_.get("self.check(name)") is False or g_.get("name in self.delays") is False or g_.get("name not in self.delays") is True
        chk.ob("PAIR-13", "add_if_doesnt_exist adds only when no such delay exists", ok, f.where(c), construct=f.ident,
               text="add_if_doesnt_exist guard")
    chk.floor("PAIR-13", 10)

    # -------------------------------------------------------------- FLOW-5
    from sa.helpers import delay_add_only_schedules
    delay_add_only_schedules(chk, "FLOW-5")
    f = repo.func(DL, "DelayManager.add")
    cfg = f.cfg()
    for s_ in store:
        v = s_.ast.value
        ok = False
        why = "record is %s" % short(v, 80)
        if isinstance(v, ast.Tuple) and len(v.elts) >= 2:
            e1 = v.elts[1]
            if isinstance(e1, ast.Call) and call_attr(e1) == "partial" and e1.args and src(e1.args[0]) == "callback" and \
                    any(k.arg is None and src(k.value) == "kwargs" for k in e1.keywords):
                ok = True
            elif len(v.elts) >= 3 and src(e1) == "callback" and any(src(e) == "kwargs" for e in v.elts[2:]):
                ok = True       # (handle, callback, kwargs): run_now must then apply them (checked below)
            e0 = v.elts[0]
            sched = [x for x in ast.walk(e0) if isinstance(x, ast.Call) and call_attr(x) == "partial"]
            ok2 = bool(sched) and [src(a) for a in sched[0].args] == ["self._process_delay_callback", "name", "callback"] and \
                any(k.arg is None and src(k.value) == "kwargs" for k in sched[0].keywords)
            chk.ob("FLOW-5", "the scheduled call is bound to (name, callback, **kwargs)", ok2, f.where(s_.ast), construct=f.ident,
                   text="scheduled partial")
        chk.ob("FLOW-5", "the delay record keeps the callback together with its kwargs", ok, f.where(s_.ast), detail=why,
               construct=f.ident, text="record carries kwargs")
    f = repo.func(DL, "DelayManager.run_now")
    chk.analysed(f)
    cfg = f.cfg()
    reads = [n for n in cfg.nodes_where(lambda n: n.kind == "stmt" and isinstance(n.ast, ast.Assign) and
                                        "self.delays[name]" in src(n.ast.value))]
    chk.need(reads, "FLOW-5", "run_now takes the stored record of the delay", f)
    var = src(reads[0].ast.targets[0])
    idxs = src(reads[0].ast.value)
    rm = [n for n, c in cfg.calls_named("remove") if src(c.func.value) == "self"]
    calls = [(n, c) for n in cfg.nodes_where(lambda n: n.kind != "branch") for c in n.calls()
             if isinstance(c.func, ast.Name) and c.func.id == var]
    chk.ob("FLOW-5", "run_now invokes the stored callable", bool(calls), f.where(), construct=f.ident, text="run_now calls")
    # with a 2-tuple record the stored element 1 is the kwargs-bound partial: cb() is right; with a 3-tuple it must pass them
    ok = idxs.endswith("[1]") and all(not c.args and not c.keywords for n, c in calls)
    chk.ob("FLOW-5", "run_now runs the kwargs-bound element of the record", ok, f.where(reads[0].ast), detail="reads %s" % idxs,
           construct=f.ident, text="run_now reads " + idxs)
    ok = bool(rm) and all(cfg.dominates(reads[0].id, r.id) for r in rm) and all(cfg.dominates(r.id, n.id) for r in rm for n, c in calls)
    chk.ob("FLOW-5", "run_now saves the callable, cancels the delay, then runs it", ok, f.where(), construct=f.ident,
           text="run_now order")
    for n, c in calls:
        g_ = cfg.guards_at(n.id)
        chk.ob("FLOW-5", "run_now runs only an existing delay", g_.get("name in self.delays") is True, f.where(c), construct=f.ident,
               text="run_now guard")
    chk.floor("FLOW-5", 5)

    # -------------------------------------------------------------- DOM-25
    pt = repo.cls(CK, "PeriodicTask")
    for m in pt.methods.values():
        chk.analysed(m)
        for c in m.calls():
            if call_attr(c) == "time":
                chk.ob("DOM-25", "PeriodicTask reads the clock only when it is created (%s)" % m.name, m.name == "__init__", m.where(c),
                       detail="re-anchoring on the current time accumulates every late wake-up (drift)", construct=m.ident,
                       text="clock read in " + m.name)
            if call_attr(c) in ("call_later",):
                chk.ob("DOM-25", "PeriodicTask never schedules relative to now", False, m.where(c), construct=m.ident,
                       text="call_later in " + m.name)
    f = pt.methods.get("_schedule")
    g = pt.methods.get("_run")
    chk.require(f is not None and g is not None, "C13: PeriodicTask methods vanished")
    ca = [c for c in f.calls() if call_attr(c) == "call_at"]
    ok = len(ca) == 1 and src(ca[0].args[0]).replace(" ", "") in ("self._last_call+self._interval", "self._interval+self._last_call") \
        and src(ca[0].args[1]) == "self._run"
    chk.ob("DOM-25", "next tick = last scheduled tick + interval (absolute)", ok, f.where(), construct=f.ident, text="call_at grid")
    cfg = f.cfg()
    for n, c in cfg.calls_named("call_at"):
        chk.ob("DOM-25", "a cancelled task is not rescheduled", cfg.guards_at(n.id).get("self._canceled") is False, f.where(c),
               construct=f.ident, text="schedule guard")
    cfg = g.cfg()
    adv = [n for n in cfg.nodes_where(lambda n: n.kind == "stmt" and isinstance(n.ast, (ast.Assign, ast.AugAssign)) and
                                      src(assigned(n.ast)) == "self._last_call")]
    ok = len(adv) == 1 and _is_grid_advance(adv[0].ast)
    chk.ob("DOM-25", "_run advances the grid by exactly one interval", ok, g.where(), detail="; ".join(short(a.ast) for a in adv),
           construct=g.ident, text="grid advance")
    cbs = [(n, c) for n, c in cfg.calls_named("_callback")]
    chk.ob("DOM-25", "_run calls the callback once", len(cbs) == 1, g.where(), construct=g.ident, text="callback once")
    for n, c in cbs:
        chk.ob("DOM-25", "a cancelled task does not call its callback", cfg.guards_at(n.id).get("self._canceled") is False, g.where(c),
               construct=g.ident, text="callback guard")
        ok = bool(adv) and cfg.dominates(adv[0].id, n.id)
        chk.ob("DOM-25", "the grid is advanced before the callback (a slow callback cannot shift it)", ok, g.where(c), construct=g.ident,
               text="advance before callback")
    rs = [n for n, c in cfg.calls_named("_schedule")]
    ok = bool(rs) and all(cfg.dominates(n.id, r.id) for n, _ in cbs for r in rs)
    chk.ob("DOM-25", "_run reschedules after the callback", ok, g.where(), construct=g.ident, text="reschedule")
    init = pt.methods.get("__init__")
    ok = any(call_attr(c) == "_schedule" for c in init.calls())
    chk.ob("DOM-25", "a new PeriodicTask is scheduled at creation", ok, init.where(), construct=init.ident, text="init schedules")
    h = pt.methods.get("cancel")
    ok = any(isinstance(n, ast.Assign) and src(n.targets[0]) == "self._canceled" and src(n.value) == "True" for n in walk_local(h.node))
    chk.ob("DOM-25", "cancel() sets the flag both tests read", ok, h.where(), construct=h.ident, text="cancel flag")
    si = repo.func(CK, "ClockBase.schedule_interval")
    ok = any(call_attr(c) == "PeriodicTask" and [src(a) for a in c.args][:1] == ["timeout"] for c in si.calls())
    chk.ob("DOM-25", "schedule_interval builds a PeriodicTask with the given period", ok, si.where(), construct=si.ident,
           text="schedule_interval")
    chk.floor("DOM-25", 7)

    # -------------------------------------------------------------- FLAG-3
    tm = repo.cls(TM, "Timer")
    f = tm.methods.get("start")
    chk.require(f is not None, "C13: Timer.start vanished")
    chk.analysed(f)
    cfg = f.cfg()
    cr = [(n, c) for n, c in cfg.calls_named("_create_system_timer")]
    chk.ob("FLAG-3", "Timer.start creates the periodic tick", bool(cr), f.where(), construct=f.ident, text="start creates tick")
    for n, c in cr:
        g_ = cfg.guards_at(n.id)
        chk.ob("FLAG-3", "Timer.start does nothing when already running (no second periodic task)", g_.get("self.running") is False,
               f.where(c), construct=f.ident, text="start guard")
        sets = [s_ for s_ in cfg.nodes_where(lambda s_: s_.kind == "stmt" and isinstance(s_.ast, ast.Assign) and
                                             src(s_.ast.targets[0]) == "self.running" and src(s_.ast.value) == "True")]
        chk.ob("FLAG-3", "Timer.start marks the timer running before creating the tick", bool(sets) and all(cfg.dominates(s_.id, n.id) for s_ in sets),
               f.where(c), construct=f.ident, text="running before create")
        rp = [x for x, cc in cfg.calls_named("remove") if "pause" in src(cc)]
        w = cfg.must_pass(n.id, [x.id for x in rp]) if not any(cfg.dominates(x.id, n.id) for x in rp) else None
        chk.ob("FLAG-3", "Timer.start cancels a pending timed pause", bool(rp) and w is None, f.where(c), construct=f.ident,
               text="start removes pause")
    _tick_arithmetic(chk, tm)
    _timed_pause(chk, repo)
    _control_event_kwargs(chk, repo)
    _tick_interval_changes_always_apply(chk, repo)
    _timer_reloaded_from_config(chk, repo)
    # whoever (re)creates the periodic tick leaves it armed: no removal of the system timer after the creation on any path
    for name in ("start", "jump", "set_tick_interval", "change_tick_interval", "restart"):
        f2 = tm.methods.get(name)
        if f2 is None:
            continue
        c2 = f2.cfg()
        for n, c in c2.calls_named("_create_system_timer"):
            chk.analysed(f2)
            after = [x for x, cc in c2.calls_named("_remove_system_timer") if x.id in c2.reachable([n.id], include_start=False)]
            chk.ob("FLAG-3", "Timer.%s leaves the tick it created armed (no removal after the creation)" % name, not after, f2.where(c), construct=f2.ident,
                   text="tick removed after creation in " + name)
    for name in ("stop", "pause"):
        f = tm.methods.get(name)
        chk.require(f is not None, "C13: Timer.%s vanished" % name)
        chk.analysed(f)
        cfg = f.cfg()
        # a path that found the timer not running needs neither (pause()/stop() established both before)
        idle = [b.id for b in cfg.nodes if b.kind == "branch" and src(b.ast) == "self.running" and b.value is False]
        rmt = [n.id for n, c in cfg.calls_named("_remove_system_timer")]
        w = cfg.must_pass(cfg.entry.id, rmt + idle)
        chk.ob("FLAG-3", "Timer.%s removes the periodic tick on every path" % name, bool(rmt) and w is None, f.where(),
               path=cfg.fmt_path(w, TM) if w else None, construct=f.ident, text=name + " removes tick")
        sets = [n.id for n in cfg.nodes_where(lambda n: n.kind == "stmt" and isinstance(n.ast, ast.Assign) and
                                              src(n.ast.targets[0]) == "self.running" and src(n.ast.value) == "False")]
        w = cfg.must_pass(cfg.entry.id, sets + idle)
        chk.ob("FLAG-3", "Timer.%s clears the running flag on every path" % name, bool(sets) and w is None, f.where(), construct=f.ident,
               text=name + " clears running")
    f = tm.methods["stop"]
    cfg = f.cfg()
    rp = [n.id for n, c in cfg.calls_named("remove") if "pause" in src(c) and "delay" in src(c.func)]
    w = cfg.must_pass(cfg.entry.id, rp)
    chk.ob("FLAG-3", "Timer.stop cancels a pending timed pause on every path (a paused timer that is stopped never restarts itself)",
           bool(rp) and w is None, f.where(), path=cfg.fmt_path(w, TM) if w else None, construct=f.ident,
           text="stop removes pause")
    f = tm.methods["pause"]
    cfg = f.cfg()
    ad = [(n, c) for n, c in cfg.calls_named("add", "reset") if "delay" in src(c.func) and "pause" in src(c)]
    alld = [(n, c) for n, c in cfg.calls_named("add", "reset", "add_if_doesnt_exist") if "delay" in src(c.func)]
    for n, c in alld:
        nm = kwarg(c, "name")
        chk.ob("FLAG-3", "the timed-pause delay is filed under the name start()/stop() cancel ('pause')", nm is not None and const_value(nm) == "pause",
               f.where(c), construct=f.ident, text="pause delay name")
    for n, c in ad:
        cb = kwarg(c, "callback")
        ms = kwarg(c, "ms")
        chk.ob("FLAG-3", "a timed pause ends by start()", cb is not None and src(cb) == "self.start", f.where(c), construct=f.ident,
               text="pause callback")
        chk.ob("FLAG-3", "the pause delay is armed only for a positive pause time", any(
            k.replace(" ", "") in ("pause_ms>0",) and v is True for k, v in cfg.guards_at(n.id).items()), f.where(c), construct=f.ident,
            text="pause guard")
    f = tm.methods.get("_create_system_timer")
    cfg = f.cfg()
    sc = [(n, c) for n, c in cfg.calls_named("schedule_interval")]
    rm0 = [n for n, c in cfg.calls_named("_remove_system_timer")]
    ok = bool(sc) and bool(rm0) and all(cfg.dominates(r.id, n.id) for r in rm0 for n, c in sc)
    chk.ob("FLAG-3", "a new periodic tick always replaces (cancels) the previous one", ok, f.where(), construct=f.ident,
           text="create removes first")
    for n, c in sc:
        ok = len(c.args) >= 2 and src(c.args[0]) == "self._timer_tick" and src(c.args[1]) == "self.tick_secs"
        chk.ob("FLAG-3", "the tick runs _timer_tick every tick_secs", ok, f.where(c), construct=f.ident, text="tick period")
    f = tm.methods.get("_remove_system_timer")
    cfg = f.cfg()
    un = [(n, c) for n, c in cfg.calls_named("unschedule", "cancel")]
    clr = [n for n in cfg.nodes_where(lambda n: n.kind == "stmt" and isinstance(n.ast, ast.Assign) and src(n.ast.targets[0]) == "self.timer"
                                      and src(n.ast.value) == "None")]
    chk.ob("FLAG-3", "removing the tick cancels the PeriodicTask and forgets it", bool(un) and bool(clr), f.where(), construct=f.ident,
           text="remove cancels")
    f = tm.methods.get("_timer_tick")
    cfg = f.cfg()
    for n in cfg.nodes_where(lambda n: n.kind == "stmt" and isinstance(n.ast, ast.AugAssign) and src(n.ast.target) == "self.ticks"):
        g_ = cfg.guards_at(n.id)
        ok = g_.get("self.running") is True
        chk.ob("FLAG-3", "a tick counts only while running", ok, f.where(n.ast), construct=f.ident, text="tick guard")
        d = g_.get("self.direction == 'down'")
        good = (d is True and isinstance(n.ast.op, ast.Sub)) or (d is False and isinstance(n.ast.op, ast.Add))
        chk.ob("FLAG-3", "one tick moves the count by exactly one in its direction", good and const_value(n.ast.value) == 1, f.where(n.ast),
               construct=f.ident, text="tick step")
    f = tm.methods.get("_check_for_done")
    cfg = f.cfg()
    for n, c in cfg.calls_named("timer_complete"):
        g_ = cfg.guards_at(n.id)
        up = g_.get("self.direction == 'up'") is True and g_.get("self.ticks >= self.end_value") is True
        down = g_.get("self.direction == 'down'") is True and g_.get("self.ticks <= self.end_value") is True
        chk.ob("FLAG-3", "the timer completes exactly when the count reaches the end value in its direction", up or down, f.where(c),
               detail="guards %s" % sorted(g_.items()), construct=f.ident, text="completion test")
    for name in ("timer_complete", "device_removed_from_mode"):
        f = tm.methods.get(name)
        fcfg = f.cfg()
        sn = [n.id for n, c in fcfg.calls_named("stop") if src(c.func.value) == "self"]
        ok = bool(sn) and fcfg.must_pass(fcfg.entry.id, sn) is None
        chk.ob("FLAG-3", "Timer.%s stops the timer" % name, ok, f.where(), construct=f.ident, text=name + " stops")
    chk.floor("FLAG-3", 14)
    _done_rules(chk, repo, tm)
    _delay_api(chk, repo)

    # -------------------------------------------------------------- DOM-26
    from sa.helpers import mode_stop_clears_delays
    mode_stop_clears_delays(chk, "DOM-26")
    from sa.helpers import mode_delays_own
    mode_delays_own(chk, "DOM-26")


def _done_rules(chk, repo, tm):
    """DONE-1: whoever changes the count checks for completion afterwards; DONE-2: the check reports what it did."""
    # methods that check first thing / on every path
    checking = {"_check_for_done"}
    changed = True
    while changed:
        changed = False
        for name, m in tm.methods.items():
            if name in checking:
                continue
            cfg = m.cfg()
            via = [n.id for n in cfg.nodes if n.kind != "branch" and any(call_attr(c) in checking and isinstance(c.func, ast.Attribute)
                                                                          and src(c.func.value) == "self" for c in n.calls())]
            if via and cfg.must_pass(cfg.entry.id, via) is None:
                checking.add(name)
                changed = True
    EXEMPT = {"__init__": "construction", "_initialize": "initial values", "device_loaded_in_mode": "start value; start() checks before running",
              "ticks": "the property setter itself"}
    k = 0
    for name, m in tm.methods.items():
        if name in EXEMPT:
            continue
        cfg = m.cfg()
        stores = [n for n in cfg.nodes if n.kind == "stmt" and isinstance(n.ast, (ast.Assign, ast.AugAssign)) and
                  any(src(t) == "self.ticks" for t in assigned_targets(n.ast))]
        if not stores:
            continue
        chk.analysed(m)
        via = [n.id for n in cfg.nodes if n.kind != "branch" and any(call_attr(c) in checking and isinstance(c.func, ast.Attribute)
                                                                      and src(c.func.value) == "self" for c in n.calls())]
        for st in stores:
            # a later store on the same path re-opens the obligation, so look from the last store on each path:
            w = cfg.must_pass(st.id, via + [x.id for x in stores if x.id != st.id])
            k += 1
            chk.ob("DONE-1", "Timer.%s checks for completion after changing the count" % name, bool(via) and w is None, m.where(st.ast),
                   path=cfg.fmt_path(w, TM) if w else None,
                   detail="a count that reaches the end value through this method would not complete the timer",
                   construct=m.ident, text="ticks changed without completion check in " + name)
    chk.floor("DONE-1", 4)
    f = tm.methods["_check_for_done"]
    cfg = f.cfg()
    comp = [n.id for n, c in cfg.calls_named("timer_complete")]
    for r in cfg.nodes_where(lambda r: r.kind == "stmt" and isinstance(r.ast, ast.Return)):
        v = const_value(r.ast.value) if r.ast.value is not None else None
        after_complete = any(cfg.dominates(c, r.id) for c in comp)
        chk.ob("DONE-2", "_check_for_done returns True exactly when it completed the timer", (v is True) == after_complete and
               (r.ast.value is not None or not after_complete), f.where(r.ast), detail="returns %s after completion: %s" % (src(r.ast.value) if r.ast.value else None, after_complete),
               construct=f.ident, text="done result " + short(r.ast, 40))
    st = tm.methods["start"]
    scfg = st.cfg()
    run_set = [n for n in scfg.nodes_where(lambda n: n.kind == "stmt" and isinstance(n.ast, ast.Assign) and src(n.ast.targets[0]) == "self.running"
                                           and src(n.ast.value) == "True")]
    for n in run_set:
        g = scfg.guards_at(n.id)
        chk.ob("DONE-2", "a timer that is already at its end value completes instead of starting", g.get("self._check_for_done()") is False,
               st.where(n.ast), detail="guards %s" % sorted(g.items()), construct=st.ident, text="start checks done first")
    chk.floor("DONE-2", 3)
    # count limits
    for name in ("add", "jump"):
        m = tm.methods[name]
        cmps = [x for x in ast.walk(m.node) if isinstance(x, ast.Compare) and "self.max_value" in src(x) and len(x.ops) == 1
                and not isinstance(x.ops[0], (ast.Is, ast.IsNot))]
        ok = bool(cmps) and all((isinstance(x.ops[0], ast.Gt) and src(x.comparators[0]) == "self.max_value") or
                                (isinstance(x.ops[0], ast.Lt) and src(x.left) == "self.max_value") for x in cmps)
        chk.ob("DONE-2", "Timer.%s caps the count at max_value (only above it)" % name, ok, m.where(), construct=m.ident,
               text="max_value cap in " + name)


def _delay_api(chk, repo):
    """FWD-13: reset / add_if_doesnt_exist hand everything to add(); add() keys unnamed delays uniquely and returns the key."""
    from sa.helpers import forwarded
    dm = repo.cls(DL, "DelayManager")
    add = dm.methods["add"]
    for wname in ("reset", "add_if_doesnt_exist"):
        w = dm.methods.get(wname)
        if w is None:
            chk.expect(False, "C13: DelayManager.%s vanished" % wname)
            continue
        chk.analysed(w)
        calls = [c for c in ast.walk(w.node) if isinstance(c, ast.Call) and call_attr(c) == "add" and src(c.func.value) == "self"]
        if not calls:
            chk.missing("FWD-13", "DelayManager.%s (re)creates the delay through add()" % wname, w)
            continue
        for c in calls:
            forwarded(chk, "FWD-13", w, c, add, same=("ms", "callback", "name"), require_all=True)
            ok = any(k.arg is None and src(k.value) == "kwargs" for k in c.keywords)
            chk.ob("FWD-13", "%s passes the callback's kwargs on to add()" % wname, ok, w.where(c), construct=w.ident,
                   text=wname + " drops **kwargs")
        cfg = w.cfg()
        rets = [r for r in cfg.nodes_where(lambda r: r.kind == "stmt" and isinstance(r.ast, ast.Return))]
        ok = bool(rets) and all(r.ast.value is not None and (src(r.ast.value) == "name" or call_attr(r.ast.value) == "add") for r in rets) and \
            cfg.must_pass(cfg.entry.id, [r.id for r in rets]) is None
        chk.ob("FWD-13", "%s returns the delay's name" % wname, ok, w.where(), construct=w.ident, text=wname + " return value")
    cfg = add.cfg()
    rets = [r for r in cfg.nodes_where(lambda r: r.kind == "stmt" and isinstance(r.ast, ast.Return))]
    ok = bool(rets) and all(r.ast.value is not None and src(r.ast.value) == "name" for r in rets) and cfg.must_pass(cfg.entry.id, [r.id for r in rets]) is None
    chk.ob("FWD-13", "add() returns the name the delay is filed under", ok, add.where(), construct=add.ident, text="add return value")
    stores = [n for n in cfg.nodes_where(lambda n: n.kind == "stmt" and isinstance(n.ast, ast.Assign) and src(n.ast.targets[0]) == "self.delays[name]")]
    uniq = [n for n in cfg.nodes_where(lambda n: n.kind == "stmt" and isinstance(n.ast, ast.Assign) and src(n.ast.targets[0]) == "name"
                                       and "uuid" in src(n.ast.value))]
    for st in stores:
        from sa.helpers import feasible_paths
        bad = None
        for path, facts in feasible_paths(cfg, cfg.entry.id, [st.id]):
            named = facts.get("name") is True or facts.get("not name") is False or facts.get("name is None") is False
            if not named and not (set(path) & {u.id for u in uniq}):
                bad = path
                break
        chk.ob("FWD-13", "an unnamed delay is filed under a fresh unique key (unnamed delays never replace each other)", bad is None,
               add.where(st.ast), path=cfg.fmt_path(bad, DL) if bad else None, construct=add.ident, text="unnamed delay key")
    for u in uniq:
        g = cfg.guards_at(u.id)
        chk.ob("FWD-13", "a caller's name is never replaced", g.get("name") is False or g.get("not name") is True or g.get("name is None") is True,
               add.where(u.ast), detail="guards %s" % sorted(g.items()), construct=add.ident, text="name overwritten")
    chk.floor("FWD-13", 10)


def assigned(stmt):
    return stmt.targets[0] if isinstance(stmt, ast.Assign) else stmt.target


def _is_grid_advance(stmt):
    if isinstance(stmt, ast.AugAssign):
        return isinstance(stmt.op, ast.Add) and src(stmt.value) == "self._interval"
    v = stmt.value
    return isinstance(v, ast.BinOp) and isinstance(v.op, ast.Add) and {src(v.left), src(v.right)} == {"self._last_call", "self._interval"}


def _control_event_kwargs(chk, repo):
    """CTRL-13: a control event's handler is registered with that entry's own argument.  `kwargs` is built up in the loop over the
    configured control events; whenever the action selected by a branch names a Timer method that reads an argument (timer_value / change),
    every path from that branch to the registration assigns `kwargs` in the same trip.  A value left over from the previous entry turns
    `pause` without a value (for ever) into a timed pause: the timer resumes by itself and ticks while it should be paused."""
    f = repo.func(TM, "Timer._setup_control_events")
    chk.analysed(f)
    cfg = f.cfg()
    tcls = repo.cls(TM, "Timer")
    heads = [h for h in cfg.nodes if h.kind == "loop"]
    regs = [(n, c) for n, c in cfg.calls_named("add_handler")]
    chk.need(len(heads) == 1 and regs, "CTRL-13", "Timer._setup_control_events registers one handler per configured control event", f)
    head = heads[0]
    kwname = None
    for n, c in regs:
        for k in c.keywords:
            if k.arg is None and isinstance(k.value, ast.Name):
                kwname = k.value.id
    chk.need(kwname is not None, "CTRL-13", "the registration hands the entry's arguments on (**kwargs)", f)
    inside = {id(x) for st in head.ast.body for x in ast.walk(st)}
    assigns = [n.id for n in cfg.nodes if n.kind == "stmt" and isinstance(n.ast, ast.Assign) and id(n.ast) in inside and
               any(isinstance(t, ast.Name) and t.id == kwname for t in n.ast.targets)]
    k = 0
    for b in cfg.nodes:
        if b.kind != "branch" or b.value is not True or id(b.ast) not in inside or not isinstance(b.ast, ast.Compare) or len(b.ast.ops) != 1:
            continue
        if not src(b.ast.left).replace('"', "'") == "entry['action']":
            continue
        if isinstance(b.ast.ops[0], ast.In) and isinstance(b.ast.comparators[0], (ast.Tuple, ast.List, ast.Set)):
            actions = [const_value(e) for e in b.ast.comparators[0].elts]
        elif isinstance(b.ast.ops[0], ast.Eq):
            actions = [const_value(b.ast.comparators[0])]
        else:
            continue
        reading = []
        for a in actions:
            m_ = tcls.methods.get(a)
            if m_ is None:
                continue
            ps = [x.arg for x in m_.node.args.args if x.arg != "self"]
            if ps:
                reading.append("%s(%s)" % (a, ", ".join(ps)))
        if not reading:
            continue
        k += 1
        w = cfg.path_avoiding(b.id, [n.id for n, _ in regs], assigns + [head.id], ignore_exc=True)
        chk.ob("CTRL-13", "control events %s are registered with arguments built from their own entry" % ", ".join(reading), w is None, f.where(b.ast),
               detail="a path reaches add_handler(**%s) without assigning %s in this trip: the previous entry's value is handed on" % (kwname, kwname),
               construct=f.ident, text="control event arguments of " + "/".join(str(a) for a in actions)[:60],
               path=cfg.fmt_path(w, f) if w else None, nontrivial=True)
    chk.ob("CTRL-13", "branches of the control event table examined (%d)" % k, k >= 2, f.where(), nontrivial=False)


def _tick_interval_changes_always_apply(chk, repo):
    """TICK-13: "exactly once per *current* interval": a change of the tick interval takes effect whenever it arrives - also while the timer is
    paused or stopped (it then ticks at the new interval after the resume).  Every returning path of set_tick_interval / change_tick_interval
    stores the new tick_secs."""
    for name in ("set_tick_interval", "change_tick_interval"):
        f = repo.func(TM, "Timer." + name)
        chk.analysed(f)
        cfg = f.cfg()
        st = [n.id for n in cfg.nodes if n.kind == "stmt" and isinstance(n.ast, (ast.Assign, ast.AugAssign)) and
              src(n.ast.targets[0] if isinstance(n.ast, ast.Assign) else n.ast.target) == "self.tick_secs"]
        w = cfg.must_pass(cfg.entry.id, st) if st else [cfg.entry.id]
        chk.ob("TICK-13", "every returning path of Timer.%s stores the new tick interval (running or not)" % name, w is None, f.where(), construct=f.ident,
               text="tick interval change applied in " + name, path=cfg.fmt_path(w, f) if w and len(w) > 1 else None, nontrivial=True)


def _timed_pause(chk, repo):
    """PAUSE-13: a timed pause lasts as long as asked: the pause length goes through _get_timer_value(in_ms=True), which scales to ms
    *inside* its int() (0.5 s is 500 ms, not 0 = for ever), the resume delay is armed for exactly that length and only for a positive one,
    after the timer was marked not running and its system timer removed."""
    f = repo.func(TM, "Timer.pause")
    g = repo.func(TM, "Timer._get_timer_value")
    chk.analysed(f, g)
    cfg = f.cfg()
    st = [n for n in cfg.nodes if n.kind == "stmt" and isinstance(n.ast, ast.Assign) and src(n.ast.targets[0]) == "pause_ms" and isinstance(n.ast.value, ast.Call)]
    ok = len(st) == 1 and call_attr(st[0].ast.value) == "_get_timer_value" and src(st[0].ast.value.args[0]) == "timer_value" and \
        kwarg(st[0].ast.value, "in_ms") is not None and const_value(kwarg(st[0].ast.value, "in_ms")) is True and any(k.arg is None for k in st[0].ast.value.keywords)
    chk.ob("PAUSE-13", "the pause length is the given value in milliseconds (placeholder arguments handed on)", ok, f.where(), construct=f.ident, text="pause_ms source")
    arm = [(n, c) for n, c in cfg.calls_named("add") if src(c.func.value) == "self.delay"]
    ok = len(arm) == 1
    if ok:
        n, c = arm[0]
        kw = {k.arg: src(k.value) for k in c.keywords}
        g_ = cfg.guards_at(n.id)
        ok = kw.get("ms") == "pause_ms" and kw.get("callback") == "self.start" and kw.get("name") == "'pause'" and g_.get("pause_ms > 0") is True
        rm = [x for x, _ in cfg.calls_named("_remove_system_timer")]
        run = [x for x in cfg.nodes if x.kind == "stmt" and isinstance(x.ast, ast.Assign) and src(x.ast.targets[0]) == "self.running" and src(x.ast.value) == "False"]
        ok = ok and bool(rm) and bool(run) and cfg.dominates(rm[0].id, n.id) and cfg.dominates(run[0].id, n.id)
    chk.ob("PAUSE-13", "a positive pause length arms the resume (start) for exactly that long, after the timer stopped ticking", ok, f.where(), construct=f.ident,
           text="pause resume armed")
    rets = [x for x in walk_local(g.node) if isinstance(x, ast.Return) and x.value is not None and any(isinstance(y, ast.Call) and call_attr(y) == "evaluate" for y in ast.walk(x.value))]
    ok = len(rets) == 1 and isinstance(rets[0].value, ast.Call) and isinstance(rets[0].value.func, ast.Name) and rets[0].value.func.id == "int"
    if ok:
        inner = rets[0].value.args[0]
        ok = isinstance(inner, ast.BinOp) and isinstance(inner.op, ast.Mult) and any(
            isinstance(o, ast.IfExp) and src(o.test) == "in_ms" and const_value(o.body) == 1000 and const_value(o.orelse) == 1 for o in (inner.left, inner.right))
    chk.ob("PAUSE-13", "a placeholder value is scaled (x1000 for ms) before it is truncated to an int", ok, g.where(), construct=g.ident, text="timer value scaling")


def _timer_reloaded_from_config(chk, repo):
    """LOAD-13: every run of the mode starts the timer from its configuration: device_loaded_in_mode sets the tick interval, the start value and
    the count unconditionally (a value changed during the previous run - change_tick_interval, jump - never leaks into the next one)."""
    f = repo.func(TM, "Timer.device_loaded_in_mode")
    chk.analysed(f)
    cfg = f.cfg()
    want = {"self.tick_secs": "self.config['tick_interval'].evaluate([])", "self.start_value": "self.config['start_value'].evaluate([])", "self.ticks": "self.start_value",
            "self.player": "player"}
    for attr, val in sorted(want.items()):
        st = [n for n in cfg.nodes if n.kind == "stmt" and isinstance(n.ast, ast.Assign) and src(n.ast.targets[0]) == attr]
        ok = len(st) == 1 and src(st[0].ast.value).replace('"', "'") == val and not cfg.guards_at(st[0].id) and \
            cfg.must_pass(cfg.entry.id, [st[0].id], ends=[cfg.exit.id]) is None
        chk.ob("LOAD-13", "loading the timer sets %s from %s on every path, unconditionally" % (attr, val), ok, f.where(st[0].ast) if st else f.where(),
               detail="guards %s" % sorted(cfg.guards_at(st[0].id).items()) if st else "no store", construct=f.ident, text="timer load " + attr)


def _tick_arithmetic(chk, tm):
    """TICK-1: the count of a timer device moves by exactly one per tick in its direction, by the given amount on add / subtract
    (relative to the current count, never overwritten by the amount), and is set absolutely only by jump / load (clamped to max_value)."""
    allowed = {"None": "initial", "self.start_value": "load", "self.max_value": "clamp", "new_value": "add"}
    n = 0
    for m in tm.methods.values():
        cfg = None
        for x in walk_local(m.node):
            tgt = None
            if isinstance(x, ast.Assign) and any(src(t) == "self.ticks" for t in x.targets):
                tgt = ("=", src(x.value))
            elif isinstance(x, ast.AugAssign) and src(x.target) == "self.ticks":
                tgt = (type(x.op).__name__, src(x.value))
            if tgt is None:
                continue
            n += 1
            op, v = tgt
            cfg = cfg or m.cfg()
            node = [q for q in cfg.nodes if q.kind == "stmt" and q.ast is x]
            g = cfg.guards_at(node[0].id) if node else {}
            if m.name == "_timer_tick":
                down = g.get("self.direction == 'down'")
                ok = v == "1" and ((op == "Sub" and down is True) or (op == "Add" and down is False))
                what = "a tick moves the count by exactly one, down for a down timer and up otherwise"
            elif m.name == "subtract":
                d = [a for a in walk_local(m.node) if isinstance(a, ast.Assign) and src(a.targets[0]) == v]
                ok = op == "Sub" and len(d) == 1 and call_attr(d[0].value) == "_get_timer_value"
                what = "subtract() lowers the count by the evaluated amount"
            elif m.name == "add":
                d = [a for a in walk_local(m.node) if isinstance(a, ast.Assign) and src(a.targets[0]) == "new_value"]
                ok = op == "=" and v == "new_value" and any(src(a.value).replace(" ", "").startswith("self.ticks+") for a in d) and \
                    all(src(a.value).replace(" ", "").startswith("self.ticks+") or src(a.value) == "self.max_value" for a in d)
                what = "add() raises the count by the evaluated amount (clamped to max_value)"
            elif m.name == "jump":
                ok = op == "=" and (call_attr(x.value) == "_get_timer_value" or (v == "self.max_value" and g.get("self.ticks > self.max_value") is True))
                what = "jump() sets the count to the evaluated value (clamped to max_value)"
            else:
                ok = op == "=" and v in ("None", "self.start_value")
                what = "outside tick / add / subtract / jump the count is only initialised or loaded from the start value"
            chk.ob("TICK-1", "%s (Timer.%s)" % (what, m.name), ok, m.where(x), detail="self.ticks %s %s under %s" % (op, v, sorted(k for k, val in g.items() if val is True)[:3]),
                   construct=m.ident, text="ticks store %s %s in %s" % (op, v, m.name))
    chk.ob("TICK-1", "stores to the timer count examined (%d)" % n, n >= 8, tm.methods["_timer_tick"].where(), nontrivial=False)


def battery():
    from sa.battery import M
    return [
        M("interval change dropped while the timer is not running", TM, "        self.tick_secs = abs(self._get_timer_tick_secs(timer_value, **kwargs))", "        if not self.running:\n            return\n        self.tick_secs = abs(self._get_timer_tick_secs(timer_value, **kwargs))", "TICK-13"),
        M("pause without a value inherits the previous entry's value", TM, "            if entry['action'] in ('add', 'subtract', 'jump', 'pause', 'set_tick_interval'):\n                handler = getattr(self, entry['action'])\n                kwargs = {'timer_value': entry['value']}\n", "            if entry['action'] in ('add', 'subtract', 'jump', 'set_tick_interval'):\n                handler = getattr(self, entry['action'])\n                kwargs = {'timer_value': entry['value']}\n\n            elif entry['action'] == 'pause':\n                handler = self.pause\n                if entry['value'] is not None:\n                    kwargs = {'timer_value': entry['value']}\n", "CTRL-13"),
        M("twin: pause gets a branch of its own", TM, "            if entry['action'] in ('add', 'subtract', 'jump', 'pause', 'set_tick_interval'):\n                handler = getattr(self, entry['action'])\n                kwargs = {'timer_value': entry['value']}\n", "            if entry['action'] in ('add', 'subtract', 'jump', 'set_tick_interval'):\n                handler = getattr(self, entry['action'])\n                kwargs = {'timer_value': entry['value']}\n\n            elif entry['action'] == 'pause':\n                handler = self.pause\n                kwargs = {'timer_value': entry['value']}\n", None),
        M("zero-length delay runs at once", DL, "        self.delays[name] = (self.machine.clock.schedule_once(\n            partial(self._process_delay_callback, name, callback, **kwargs),", "        if ms <= 0:\n            self._process_delay_callback(name, callback, **kwargs)\n            return name\n        self.delays[name] = (self.machine.clock.schedule_once(\n            partial(self._process_delay_callback, name, callback, **kwargs),", "FLOW-5"),
        M("delay scheduled in ms as seconds", DL, "            ms / 1000.0), partial(callback, **kwargs))", "            ms), partial(callback, **kwargs))", "UNIT-4"),
        M("caller passes seconds", "mpf/devices/driver.py", "self.delay.add_if_doesnt_exist(self.config['max_hold_duration'] * 1000,", "self.delay.add_if_doesnt_exist(self.config['max_hold_duration'],", "UNIT-4"),
        M("replace without cancel", DL, "        else:\n            self.machine.clock.unschedule(delay[0])\n\n        self.delays[name] = ", "\n        self.delays[name] = ", "PAIR-13"),
        M("remove without cancel", DL, "        else:\n            self.machine.clock.unschedule(delay[0])\n\n    def add_if_doesnt_exist", "\n    def add_if_doesnt_exist", "PAIR-13"),
        M("remove cancels wrong element", DL, "            self.machine.clock.unschedule(delay[0])\n\n    def add_if_doesnt_exist", "            self.machine.clock.unschedule(delay[1])\n\n    def add_if_doesnt_exist", "PAIR-13"),
        M("clear only forgets", DL, "        for name in list(self.delays.keys()):\n            self.machine.clock.unschedule(self.delays[name][0])\n            self.remove(name)\n\n        self.delays = {}", "        self.delays = {}", "PAIR-13"),
        M("callback before delete", DL, "        try:\n            del self.delays[name]\n        except KeyError:\n            pass\n        callback(**kwargs)", "        callback(**kwargs)\n        try:\n            del self.delays[name]\n        except KeyError:\n            pass", "PAIR-13"),
        M("no drain after delay", DL, "        callback(**kwargs)\n        self.machine.events.process_event_queue()", "        callback(**kwargs)", "PAIR-13"),
        M("add_if_doesnt_exist always adds", DL, "        if not self.check(name):\n            return self.add(ms, callback, name, **kwargs)", "        if self.check(name) is not None:\n            return self.add(ms, callback, name, **kwargs)", "PAIR-13"),
        M("run_now drops kwargs", DL, "            ms / 1000.0), partial(callback, **kwargs))", "            ms / 1000.0), callback)", "FLOW-5"),
        M("run_now runs before cancel", DL, "                self.remove(name)\n                cb()", "                cb()\n                self.remove(name)", "FLOW-5"),
        M("fired callback loses kwargs", DL, "        callback(**kwargs)\n        self.machine.events", "        callback()\n        self.machine.events", "FLOW-5"),
        M("periodic task re-anchors on now", CK, "        self._last_call = self._last_call + self._interval", "        self._last_call = self._loop.time()", "DOM-25"),
        M("periodic task uses call_later", CK, "        self._loop.call_at(self._last_call + self._interval, self._run)", "        self._loop.call_later(self._interval, self._run)", "DOM-25"),
        M("cancelled task still calls back", CK, "        if self._canceled:\n            return\n        self._callback()", "        self._callback()", "DOM-25"),
        M("advance after callback", CK, "        self._last_call = self._last_call + self._interval\n        if self._canceled:\n            return\n        self._callback()\n", "        if self._canceled:\n            return\n        self._callback()\n        self._last_call = self._last_call + self._interval\n", "DOM-25"),
        M("timer stop keeps pause", TM, "        self.info_log(\"Stopping Timer\")\n", "        self.info_log(\"Stopping Timer\")\n        if not self.running:\n            return\n", "FLAG-3"),
        M("timer start twice", TM, "        # do not start if timer is already running\n        if self.running:\n            return\n", "", "FLAG-3"),
        M("pause keeps tick", TM, "        self.running = False\n\n        self._remove_system_timer()\n        self.machine.events.post('timer_' + self.name + '_paused',", "        self.running = False\n\n        self.machine.events.post('timer_' + self.name + '_paused',", "FLAG-3"),
        M("create does not replace", TM, "        self._remove_system_timer()\n        self.timer = self.machine.clock.schedule_interval(", "        self.timer = self.machine.clock.schedule_interval(", "FLAG-3"),
        M("tick while paused", TM, "        if not self.running:\n            if self._debug:\n                self.debug_log(\"Timer is not running. Will remove.\")\n\n            self._remove_system_timer()\n            return\n", "", "FLAG-3"),
        M("completion off by one", TM, "                self.ticks >= self.end_value):", "                self.ticks > self.end_value):", "FLAG-3"),
        M("timer unload stops only a running timer", TM, "        \"\"\"Stop this timer and also removes all the control events.\"\"\"\n        self.stop()", "        \"\"\"Stop this timer and also removes all the control events.\"\"\"\n        if self.running:\n            self.stop()", "FLAG-3"),
        M("mode stop keeps delays", "mpf/core/mode.py", "        self.delay.clear()\n\n        self.machine.events.post_queue(event='mode_' + self.name + '_stopping',", "        self.machine.events.post_queue(event='mode_' + self.name + '_stopping',", "DOM-26"),
        # twins
        M("twin: aug-assign grid", CK, "        self._last_call = self._last_call + self._interval", "        self._last_call += self._interval", None),
        M("twin: record as partial via local", DL, "        self.delays[name] = (self.machine.clock.schedule_once(\n            partial(self._process_delay_callback, name, callback, **kwargs),\n            ms / 1000.0), partial(callback, **kwargs))", "        bound = partial(callback, **kwargs)\n        self.delays[name] = (self.machine.clock.schedule_once(\n            partial(self._process_delay_callback, name, callback, **kwargs),\n            ms / 1000.0), partial(callback, **kwargs))", None),
        M("twin: stop reordered", TM, "        self.delay.remove('pause')\n\n        self.running = False\n        self._remove_system_timer()", "        self.running = False\n        self._remove_system_timer()\n        self.delay.remove('pause')\n", None),
        M("add() skips the completion check", TM, "            ticks_added: How many ticks were just added.\n        \'\'\'\n\n        self._check_for_done()", "            ticks_added: How many ticks were just added.\n        \'\'\'\n", "DONE-1"),
        M("jump() skips the completion check", TM, "        self._remove_system_timer()\n        self._create_system_timer()\n\n        self._check_for_done()", "        self._remove_system_timer()\n        self._create_system_timer()", "DONE-1"),
        M("tick without completion check", TM, "            self.ticks += 1\n\n        self._post_tick_events()", "            self.ticks += 1\n", "DONE-1"),
        M("done check reports False after completing", TM, "                self.ticks <= self.end_value):\n            self.timer_complete()\n            return True", "                self.ticks <= self.end_value):\n            self.timer_complete()\n            return False", "DONE-2"),
        M("finished timer can be started", TM, "        if self._check_for_done():\n            return\n\n        self.running = True", "        self._check_for_done()\n\n        self.running = True", "DONE-2"),
        M("add caps at >= max", TM, "if self.max_value and new_value > self.max_value:", "if self.max_value and new_value < self.max_value:", "DONE-2"),
        M("reset drops the callback kwargs", DL, "        return self.add(ms, callback, name, **kwargs)\n\n    def clear", "        return self.add(ms, callback, name)\n\n    def clear", "FWD-13"),
        M("add_if_doesnt_exist swaps ms/callback", DL, "            return self.add(ms, callback, name, **kwargs)\n\n        return name", "            return self.add(callback, ms, name, **kwargs)\n\n        return name", "FWD-13"),
        M("unnamed delays share one key", DL, "        if not name:\n            name = str(uuid.uuid4())\n", "", "FWD-13"),
        M("add returns nothing", DL, "            ms / 1000.0), partial(callback, **kwargs))\n\n        return name", "            ms / 1000.0), partial(callback, **kwargs))\n", "FWD-13"),
        M("pause delay unnamed", TM, "self.delay.add(name='pause', ms=pause_ms,", "self.delay.add(ms=pause_ms,", "FLAG-3"),
        M("jump() removes the tick it has just created", TM, "        self._remove_system_timer()\n        self._create_system_timer()\n\n        self._check_for_done()", "        self._create_system_timer()\n        self._remove_system_timer()\n\n        self._check_for_done()", "FLAG-3"),
        M("a tick sets the count instead of moving it", TM, "            self.ticks -= 1\n        else:\n            self.ticks += 1", "            self.ticks -= 1\n        else:\n            self.ticks = 1", "TICK-1"),
        M("subtract() overwrites the count", TM, "        self.ticks -= ticks_subtracted", "        self.ticks = ticks_subtracted", "TICK-1"),
        M("tick direction inverted", TM, "        if self.direction == 'down':\n            self.ticks -= 1\n        else:\n            self.ticks += 1", "        if self.direction == 'down':\n            self.ticks += 1\n        else:\n            self.ticks -= 1", "TICK-1"),
        M("mode delay armed on the machine-wide manager (survives the mode)", "mpf/core/mode.py", "        self.delay.add(ms=ms_delay, callback=callback, mode=self)", "        self.machine.delay.add(ms=ms_delay, callback=callback, mode=self)", "DOM-26"),
        M("pause length truncated to whole seconds before scaling", TM, "            return int(timer_value.evaluate(kwargs) * (1000 if in_ms else 1))", "            value = int(timer_value.evaluate(kwargs))\n            return value * 1000 if in_ms else value", ["PAUSE-13", "ROUND-0"]),
        M("pause length in seconds handed to the ms delay", TM, "pause_ms = self._get_timer_value(timer_value, in_ms=True, **kwargs)", "pause_ms = self._get_timer_value(timer_value, **kwargs)", "PAUSE-13"),
        M("tick interval initialised lazily at load", TM, "        self.tick_secs = self.config['tick_interval'].evaluate([])\n\n        try:", "        if self.tick_secs is None:\n            self.tick_secs = self.config['tick_interval'].evaluate([])\n\n        try:", "LOAD-13"),
    ]


def thorough(chk):
    from sa.battery import run_battery
    run_battery(chk, battery())
