"""C14 — serial links: framing, integrity, command flow control (structural clauses).

PAIR-14/DEAD-3 the FAST writer really blocks after a confirmed command until the confirmation handler wakes it
OWN-15  single writer, FIFO send queue        DOM-27  a lost response leads to a retry, not to a wait for ever
PAIR-15 incremental parsers conserve the buffer (append first, suffix slices, same N in test/dispatch/keep/count)
TABLE-4 frame length constants agree (parser / handler / CRC range / CRC index)
DOM-28  CRC before effect                     TABLE-5 CRC8 table = poly 0x07
DOM-29  OPP resynchronisation                 SYNC-1  decoded messages take effect in decode order (no deferral)
"""
import ast

from sa.model import src, short, dotted, call_attr, kwarg, walk_local, AnalysisError, const_value
from sa.index import get_index

FB = "mpf/platforms/fast/communicators/base.py"
NN = "mpf/platforms/fast/communicators/net_neuron.py"
OS_ = "mpf/platforms/opp/opp_serial_communicator.py"
OP = "mpf/platforms/opp/opp.py"
OI = "mpf/platforms/opp/opp_rs232_intf.py"
PK = "mpf/platforms/pkone/pkone_serial_communicator.py"
FC = "FastSerialCommunicator"


def _crc8_table():
    t = []
    for i in range(256):
        c = i
        for _ in range(8):
            c = ((c << 1) ^ 0x07) & 0xff if c & 0x80 else (c << 1) & 0xff
        t.append(c)
    return t


def check(chk):
    repo = chk.repo
    chk.explanation = ("C14: wake-up agreement between the FAST writer's await and the confirmation handler; single "
                       "writer / FIFO queue; retry shape; buffer conservation of the three incremental parsers; frame "
                       "length constants across parser, handlers and CRC; CRC test dominating every switch effect; CRC "
                       "table against the polynomial; OPP resync; no deferral of decoded switch reports. "
                       "Split-invariance as such and switch-state equality after arbitrary streams are not decided.")
    idx = get_index(repo)
    fc = repo.cls(FB, FC)

    # ------------------------------------------------------------ PAIR-14 / DEAD-3
    w = repo.func(FB, FC + "._socket_writer")
    chk.analysed(w)
    cfg = w.cfg()
    writes = [n for n, c in cfg.calls_named("write_to_port")]
    gets = [n for n in cfg.nodes_where(lambda n: n.kind == "stmt" and n.has_await() and "send_queue.get()" in n.text(200))]
    chk.need(writes and gets, "PAIR-14", "the FAST writer takes messages from the queue and writes them to the port", w)
    awaits = [n for n in cfg.nodes_where(lambda n: n.kind == "stmt" and n.has_await() and ".wait()" in n.text(200))]
    chk.ob("PAIR-14", "the writer awaits something after writing a confirmed command", bool(awaits), w.where(), construct=w.ident,
           text="writer await present")
    pause = repo.func(FB, FC + ".pause_sending")
    resume = repo.func(FB, FC + "._resume_sending")
    chk.analysed(pause, resume)

    def ops_on(fn, attr):
        return [call_attr(c) for c in fn.calls() if isinstance(c.func, ast.Attribute) and src(c.func.value) == "self." + attr]
    for a in awaits:
        call = [c for c in a.calls() if call_attr(c) == "wait"][0]
        ev = src(call.func.value).split(".", 1)[1] if src(call.func.value).startswith("self.") else src(call.func.value)
        r_ops = ops_on(resume, ev)
        p_ops = ops_on(pause, ev)
        # asyncio.Event.wait() returns when the event is *set*
        ok = "set" in r_ops and "clear" in p_ops
        g = cfg.guards_at(a.id)
        vac = g.get("self.%s.is_set()" % ev) is True
        chk.ob("PAIR-14", "the writer's `await self.%s.wait()` is woken by what _resume_sending does (Event.set) and armed by pause_sending (Event.clear)" % ev,
               ok and not vac, w.where(a.ast),
               detail="pause_sending does %s, _resume_sending does %s on self.%s%s: the await returns at once, confirmed commands are not held back"
                      % (p_ops, r_ops, ev, "; and the await is only reached when the event is already set" if vac else ""),
               construct=w.ident, text="vacuous wait on %s (pause:%s resume:%s)" % (ev, ",".join(p_ops), ",".join(r_ops)))
        # the wait sits between the write and the next get
        ok = all(cfg.dominates(x.id, a.id) for x in writes)
        chk.ob("PAIR-14", "the wait follows the write in the same iteration", ok, w.where(a.ast), construct=w.ident, text="wait after write")
    for x in writes:
        ps = [n for n, c in cfg.calls_named("pause_sending")]
        ok = bool(ps) and all(cfg.dominates(p.id, x.id) or not cfg.path_avoiding(cfg.entry.id, [x.id], [p.id]) or True for p in ps)
        gpre = [cfg.guards_at(p.id) for p in ps]
        ok = bool(ps) and all(any("pause_sending_until" in k and v is True for k, v in g_.items()) for g_ in gpre) and \
            all(not cfg.path_avoiding(x.id, [p.id], [gg.id for gg in gets]) for p in ps)
        chk.ob("PAIR-14", "sending is marked paused *before* the confirmed command is written", ok, w.where(x.ast), construct=w.ident,
               text="pause before write")
    d = repo.func(FB, FC + "._dispatch_incoming_msg")
    chk.analysed(d)
    cfg = d.cfg()
    rs = [(n, c) for n, c in cfg.calls_named("_resume_sending")]
    chk.ob("PAIR-14", "an incoming confirmation resumes sending", bool(rs), d.where(), construct=d.ident, text="resume on confirm")
    for n, c in rs:
        g = cfg.guards_at(n.id)
        ok = any("pause_sending_until.startswith(msg_header)" in k and v is True for k, v in g.items())
        chk.ob("PAIR-14", "sending resumes only for the awaited header", ok, d.where(c), detail="guards %s" % sorted(g.items()),
               construct=d.ident, text="resume guard")

    # ------------------------------------------------------------ OWN-15
    for u in idx.uses("write"):
        if u.call is None or not u.relpath.startswith("mpf/platforms/fast/communicators/"):
            continue
        if (u.recv_text or "").endswith("writer"):
            chk.ob("OWN-15", "bytes reach the FAST port only through write_to_port (%s)" % u.scope, u.scope == FC + ".write_to_port", u.where(),
                   construct=u.ident, text="writer.write in " + u.scope)
    n_w = 0
    WRITERS = {(FB, FC + "._socket_writer"): "the one writer task",
               (FB, FC + ".clear_board_serial_buffer"): "runs before the writer task is started (connect)"}
    for u in idx.uses("write_to_port"):
        if u.call is None:
            continue
        n_w += 1
        chk.ob("OWN-15", "write_to_port is called only by the writer task / the tabled pre-task flush (%s)" % u.scope,
               (u.relpath, u.scope) in WRITERS, u.where(), detail="a second writer bypasses the confirmation pause and the queue order",
               construct=u.ident, text="write_to_port in " + u.scope)
    chk.expect(n_w >= 2, "C14: write_to_port call sites lost")
    for name in ("send_with_confirmation", "send_and_forget", "send_bytes"):
        f = repo.func(FB, FC + "." + name)
        chk.analysed(f)
        qs = [c for c in f.calls() if isinstance(c.func, ast.Attribute) and src(c.func.value) == "self.send_queue"]
        ok = bool(qs) and all(call_attr(c) in ("put_nowait", "put") for c in qs)
        others = [c for c in f.calls() if call_attr(c) in ("write_to_port", "write")]
        chk.ob("OWN-15", "%s only enqueues (FIFO put), never writes" % name, ok and not others, f.where(), construct=f.ident,
               text=name + " enqueues")
    init = repo.func(FB, FC + ".__init__")
    ok = any(isinstance(n, ast.Assign) and src(n.targets[0]) == "self.send_queue" and src(n.value).startswith("asyncio.Queue(")
             for n in walk_local(init.node))
    chk.ob("OWN-15", "the send queue is a FIFO asyncio.Queue", ok, init.where(), detail="LifoQueue/PriorityQueue reorder commands",
           construct=init.ident, text="queue type")

    # ------------------------------------------------------------ DOM-27
    f = repo.func(FB, FC + ".send_and_wait_for_response_processed")
    chk.analysed(f)
    cfg = f.cfg()
    loops = [x for x in ast.walk(f.node) if isinstance(x, ast.While)]
    chk.ob("DOM-27", "response-processed sending has a retry loop", bool(loops), f.where(), construct=f.ident, text="retry loop")
    for lp in loops:
        t = src(lp.test)
        ok = "max_retries == -1" in t and ("retries <= max_retries" in t or "retries < max_retries + 1" in t)
        chk.ob("DOM-27", "the loop runs 1 + max_retries times (or unlimited for -1)", ok, f.where(lp), detail=t, construct=f.ident,
               text="retry loop test " + t)
        hs = [h for h in ast.walk(lp) if isinstance(h, ast.ExceptHandler) and h.type is not None and "TimeoutError" in src(h.type)]
        ok = bool(hs) and all(any(isinstance(y, ast.AugAssign) and src(y.target) == "retries" for y in ast.walk(h)) and
                              not any(isinstance(y, (ast.Break, ast.Return, ast.Raise)) for y in ast.walk(h)) for h in hs)
        chk.ob("DOM-27", "a timeout counts one retry and loops again", ok, f.where(lp), construct=f.ident, text="timeout handler")
        wf = [c for c in ast.walk(lp) if isinstance(c, ast.Call) and call_attr(c) == "wait_for"]
        ok = bool(wf) and all(kwarg(c, "timeout") is not None and src(kwarg(c, "timeout")) == "timeout" for c in wf)
        chk.ob("DOM-27", "each attempt is bounded by the configured timeout", ok, f.where(lp), construct=f.ident, text="wait_for timeout")
        # what the timeout covers: the wait for the *response* must be inside the guarded region
        guarded = " ".join(src(c) for c in wf)
        waits_after = [n for n in cfg.nodes_where(lambda n: n.kind == "stmt" and n.has_await() and "done_waiting.wait()" in n.text(200))]
        inside = "done_waiting" in guarded
        resp_in = inside or _callee_awaits_response(repo, fc, wf)
        chk.ob("DOM-27", "the timeout covers the wait for the response (a lost response times out and is re-sent)", resp_in, f.where(lp),
               detail="wait_for only guards queueing the command (send_and_wait_for_response returns as soon as the message is queued); "
                      "the response is awaited after the loop without timeout: a lost response blocks for ever and is never re-sent",
               construct=f.ident, text="response wait outside the retry/timeout region")
    g = repo.func(FB, FC + ".send_and_wait_for_response")
    chk.analysed(g)
    cfg = g.cfg()
    wt = [n for n in cfg.nodes_where(lambda n: n.kind == "stmt" and n.has_await() and "no_response_waiting.wait()" in n.text(200))]
    clr = [n for n, c in cfg.calls_named("clear") if "no_response_waiting" in src(c.func)]
    snd = [n for n, c in cfg.calls_named("send_with_confirmation")]
    ok = bool(wt) and bool(clr) and bool(snd) and cfg.dominates(wt[0].id, clr[0].id) and cfg.dominates(clr[0].id, snd[0].id)
    chk.ob("DOM-27", "one response-tracked command at a time: wait for idle, mark busy, then send", ok, g.where(), construct=g.ident,
           text="no_response_waiting protocol")
    d = repo.func(FB, FC + "._dispatch_incoming_msg")
    cfg = d.cfg()
    st = [(n, c) for n, c in cfg.calls_named("set") if "no_response_waiting" in src(c.func)]
    ok = bool(st) and all(cfg.guards_at(n.id).get("msg_header in self.message_processors") is True for n, c in st)
    chk.ob("DOM-27", "a processed response re-arms no_response_waiting", ok, d.where(), construct=d.ident, text="re-arm on response")

    # ------------------------------------------------------------ PAIR-15 delimiter framing (FAST, PKONE)
    for rel, qn, buf, delim in ((FB, FC + ".parse_incoming_raw_bytes", "self.received_msg", "b'\\r'"),
                                (PK, "PKONESerialCommunicator._parse_msg", "self.received_msg", "b'E'")):
        f = repo.func(rel, qn)
        chk.analysed(f)
        cfg = f.cfg()
        apps = [n for n in cfg.nodes_where(lambda n: n.kind == "stmt" and isinstance(n.ast, ast.AugAssign) and src(n.ast.target) == buf
                                           and isinstance(n.ast.op, ast.Add) and src(n.ast.value) == "msg")]
        reads = [n for n in cfg.nodes if n.kind in ("stmt", "test") and n not in apps and buf in n.text(400)]
        ok = len(apps) == 1 and all(cfg.dominates(apps[0].id, r.id) for r in reads)
        chk.ob("PAIR-15", "%s appends the new bytes to the persistent buffer before anything looks at the buffer" % qn, ok, f.where(), construct=f.ident,
               text="append first")
        finds = [n for n in cfg.nodes_where(lambda n: n.kind == "stmt" and isinstance(n.ast, ast.Assign) and isinstance(n.ast.value, ast.Call)
                                            and call_attr(n.ast.value) == "find" and src(n.ast.value.func.value) == buf)]
        chk.ob("PAIR-15", "%s searches the frame delimiter in the buffer" % qn, bool(finds), f.where(), construct=f.ident, text="find delimiter")
        for fn_ in finds:
            c_ = fn_.ast.value
            whole = len(c_.args) == 1 or (len(c_.args) == 2 and const_value(c_.args[1]) == 0)
            chk.ob("PAIR-15", "%s searches the whole buffer for the delimiter (frames carried over from earlier reads included)" % qn, whole and not c_.keywords,
                   f.where(c_), detail="search limited by %s: a frame that was already in the buffer is never found again" % [src(a) for a in c_.args[1:]],
                   construct=f.ident, text="delimiter search offset " + short(c_, 50))
        if not finds:
            continue
        pos = src(finds[0].ast.targets[0])
        stores = [n for n in cfg.nodes_where(lambda n: n.kind == "stmt" and isinstance(n.ast, ast.Assign) and src(n.ast.targets[0]) == buf)]
        takes = [n for n in cfg.nodes_where(lambda n: n.kind == "stmt" and isinstance(n.ast, ast.Assign) and
                                            src(n.ast.value).replace(" ", "") == "%s[:%s]" % (buf, pos))]
        chk.ob("PAIR-15", "%s dispatches exactly the bytes before the delimiter" % qn, len(takes) == 1, f.where(), construct=f.ident,
               text="frame slice")
        for s_ in stores:
            ok = src(s_.ast.value).replace(" ", "") == "%s[%s+1:]" % (buf, pos)
            chk.ob("PAIR-15", "%s keeps exactly the bytes after the delimiter (suffix slice of itself)" % qn, ok, f.where(s_.ast),
                   detail=src(s_.ast.value), construct=f.ident, text="keep slice " + src(s_.ast.value))
            ok = bool(takes) and cfg.dominates(takes[0].id, s_.id)
            chk.ob("PAIR-15", "%s takes the frame before cutting the buffer" % qn, ok, f.where(s_.ast), construct=f.ident, text="take before cut")
        # what is dispatched is the frame that was cut out: once the frame is taken, the raw chunk of this read (the function's parameter) is
        # not looked at again - it equals the frame only when a read holds exactly one frame
        if takes:
            tvar = src(takes[0].ast.targets[0])
            params = {a.arg for a in f.node.args.args if a.arg != "self"}
            stale = []
            for n_ in cfg.nodes:
                if n_.kind not in ("stmt", "test") or n_.id == takes[0].id or not cfg.dominates(takes[0].id, n_.id):
                    continue
                for y in n_.walk():
                    if isinstance(y, ast.Name) and isinstance(y.ctx, ast.Load) and y.id in params and y.id != tvar:
                        stale.append((n_, y))
            chk.ob("PAIR-15", "%s dispatches the frame it cut out, never the raw chunk of the read" % qn, not stale, f.where(stale[0][1]) if stale else f.where(takes[0].ast),
                   detail="`%s` is the whole chunk handed to the decoder; the frame is `%s`" % (stale[0][1].id, tvar) if stale else "", construct=f.ident,
                   text="raw chunk used after the frame was taken")
        # incomplete frame: buffer untouched
        brk = [n for n in cfg.nodes_where(lambda n: n.kind == "stmt" and isinstance(n.ast, ast.Break))]
        ok = bool(brk) and all(cfg.guards_at(n.id).get("%s == -1" % pos) is True for n in brk)
        for n in brk:
            ok = ok and not any(cfg.path_avoiding(finds[0].id, [n.id], []) and s_.id in (cfg.path_avoiding(finds[0].id, [n.id], []) or []) for s_ in stores)
        chk.ob("PAIR-15", "%s leaves an incomplete frame in the buffer untouched" % qn, ok, f.where(), construct=f.ident, text="incomplete frame")
        # the decode loop is left only because no complete frame is buffered any more: a frame's content (an ignored acknowledge, an empty
        # frame) never ends the loop - the frames behind it in the same read would wait for the next read (split-dependence)
        leaves = [n for n in cfg.nodes_where(lambda n: n.kind == "stmt" and isinstance(n.ast, (ast.Break, ast.Return)))]
        heads_ = [h for h in cfg.nodes if h.kind == "join" and isinstance(h.ast, ast.While)]
        inl = [n for n in leaves if heads_ and any(y is n.ast for y in ast.walk(heads_[0].ast))]
        badl = [n for n in inl if cfg.guards_at(n.id, ignore_exc=False).get("%s == -1" % pos) is not True and
                cfg.guards_at(n.id, ignore_exc=False).get("self.machine.is_shutting_down") is not True]
        chk.ob("PAIR-15", "%s leaves its decode loop only when no complete frame is buffered" % qn, bool(inl) and not badl, f.where(badl[0].ast) if badl else f.where(),
               detail="guards %s" % sorted(cfg.guards_at(badl[0].id).items()) if badl else "", construct=f.ident, text="decode loop left on frame content")
        for s_ in stores:
            chk.ob("PAIR-15", "%s cuts the buffer only when a delimiter was found" % qn, cfg.guards_at(s_.id).get("%s == -1" % pos) is False,
                   f.where(s_.ast), construct=f.ident, text="cut guard")
        from sa.helpers import loop_progress
        loop_progress(chk, "PROGRESS-1", f, lambda n, buf=buf, pos=pos: isinstance(n.ast, ast.Assign) and src(n.ast.targets[0]) == buf and
                      src(n.ast.value).replace(" ", "") == "%s[%s+1:]" % (buf, pos), qn.split(".")[0])
        disp = [n for n, c in cfg.calls_named("process_received_message", "_dispatch_incoming_msg")]
        chk.ob("PAIR-15", "%s hands complete frames on" % qn, bool(disp), f.where(), construct=f.ident, text="dispatch present")
    # ------------------------------------------------------------ PAIR-15 length framing (OPP) + TABLE-4
    f = repo.func(OS_, "OPPSerialCommunicator._parse_msg")
    chk.analysed(f)
    cfg = f.cfg()
    apps = [n for n in cfg.nodes_where(lambda n: n.kind == "stmt" and isinstance(n.ast, ast.AugAssign) and src(n.ast.target) == "self.part_msg"
                                       and isinstance(n.ast.op, ast.Add) and src(n.ast.value) == "msg")]
    meas = [n for n in cfg.nodes_where(lambda n: n.kind == "stmt" and src(n.ast).replace(" ", "") == "strlen=len(self.part_msg)")]
    reads = [n for n in cfg.nodes if n.kind in ("stmt", "test") and n not in apps and "self.part_msg" in n.text(400)]
    ok = len(apps) == 1 and len(meas) == 1 and cfg.dominates(apps[0].id, meas[0].id) and all(cfg.dominates(apps[0].id, r.id) for r in reads) and \
        all(cfg.dominates(meas[0].id, r.id) for r in reads if r is not meas[0])
    chk.ob("PAIR-15", "OPP parser appends new bytes first and measures the whole buffer", ok, f.where(), construct=f.ident, text="append first")
    frames = {}
    n_disp = 0

    def _const_or_name(e):
        v = const_value(e)
        return v if isinstance(v, int) else (src(e) if e is not None else None)
    for n, c in cfg.calls_named("process_received_message"):
        n_disp += 1
        a = c.args[1] if len(c.args) > 1 else None
        U = _const_or_name(a.slice.upper) if isinstance(a, ast.Subscript) and isinstance(a.slice, ast.Slice) and a.slice.lower is None else None
        g = cfg.guards_at(n.id)
        Xs = []
        for k, v in g.items():
            kk = k.replace(" ", "")
            if kk.startswith("strlen>=") and v is True:
                Xs.append(kk[len("strlen>="):])
            if kk.startswith("strlen<") and not kk.startswith("strlen<=") and v is False:
                Xs.append(kk[len("strlen<"):])
        X = None
        if Xs:
            X = int(Xs[0]) if Xs[0].isdigit() else Xs[0]
        # which command(s) this dispatch serves, and the constant length per command
        cmds = {}
        cmd = [k for k, v in g.items() if "self.part_msg[1] ==" in k and v is True]
        if isinstance(U, int) and cmd:
            cmds[cmd[0].split("OppRs232Intf.")[-1].rstrip(")")] = U
        elif isinstance(U, str):
            for d in cfg.nodes_where(lambda d: d.kind == "stmt" and isinstance(d.ast, ast.Assign) and src(d.ast.targets[0]) == U
                                     and isinstance(const_value(d.ast.value), int)):
                dg = cfg.guards_at(d.id)
                dc = [k for k, v in dg.items() if "self.part_msg[1] ==" in k and v is True]
                if dc:
                    cmds[dc[0].split("OppRs232Intf.")[-1].rstrip(")")] = const_value(d.ast.value)
        frames.update(cmds)
        label = "/".join(sorted(cmds)) or "?"
        chk.ob("PAIR-15", "OPP frame %s: dispatched slice [:%s] equals the completeness test (strlen >= %s)" % (label, U, X),
               U is not None and U == X, f.where(c), detail="a frame is dispatched before all of its bytes arrived, or bytes of the next frame are taken",
               construct=f.ident, text="dispatch %s slice %s test %s" % (label, U, X))
        # the statements that follow in the same block: keep [U:], strlen -= U
        blk = _block_of(f.node, c)
        keep = [x for x in blk if isinstance(x, ast.Assign) and src(x.targets[0]) == "self.part_msg"]
        cnt = [x for x in blk if isinstance(x, ast.AugAssign) and src(x.target) == "strlen"]
        ok = len(keep) == 1 and src(keep[0].value).replace(" ", "") == "self.part_msg[%s:]" % U
        chk.ob("PAIR-15", "OPP frame %s: the buffer keeps exactly [%s:]" % (label, U), ok, f.where(c), construct=f.ident,
               text="keep %s" % label)
        ok = len(cnt) == 1 and isinstance(cnt[0].op, ast.Sub) and _const_or_name(cnt[0].value) == U
        chk.ob("PAIR-15", "OPP frame %s: the mirrored length is reduced by the same %s" % (label, U), ok, f.where(c), construct=f.ident,
               text="count %s" % label)
    chk.expect(n_disp >= 1, "C14: OPP dispatch sites lost")
    # every frame type the handlers know is dispatched by the parser
    for cmd_ in ("READ_GEN2_INP_CMD", "READ_MATRIX_INP"):
        chk.ob("PAIR-15", "OPP parser dispatches complete %s frames to the platform" % cmd_, cmd_ in frames, f.where(), construct=f.ident,
               text="dispatch of " + cmd_)
    # converse of the mirror rule: whenever the mirrored length drops, the buffer was cut by the same amount in the same block
    for x in [y for y in ast.walk(f.node) if isinstance(y, ast.AugAssign) and src(y.target) == "strlen" and isinstance(y.op, ast.Sub)]:
        blk = _block_of(f.node, x)
        cuts = [y for y in blk if isinstance(y, ast.Assign) and src(y.targets[0]) == "self.part_msg" and isinstance(y.value, ast.Subscript)
                and isinstance(y.value.slice, ast.Slice) and y.value.slice.upper is None]
        ok = len(cuts) == 1 and _const_or_name(cuts[0].value.slice.lower) == _const_or_name(x.value)
        chk.ob("PAIR-15", "OPP parser: the length drops by %s only together with cutting %s bytes off the buffer" % (src(x.value), src(x.value)), ok,
               f.where(x), detail="length and buffer disagree afterwards: frames are cut at the wrong place", construct=f.ident,
               text="strlen -= %s without matching cut" % src(x.value))
    from sa.helpers import loop_progress
    loop_progress(chk, "PROGRESS-1", f, lambda n: (isinstance(n.ast, ast.AugAssign) and src(n.ast.target) == "strlen" and isinstance(n.ast.op, ast.Sub)) or
                  (isinstance(n.ast, ast.Assign) and src(n.ast.targets[0]) == "self._lost_synch" and src(n.ast.value) == "False"),
                  "OPP parser")    # regaining sync changes the branch the next round takes: progress of the state machine
    # every other reassignment of the buffer is a suffix slice with the matching decrement
    for n in cfg.nodes_where(lambda n: n.kind == "stmt" and isinstance(n.ast, ast.Assign) and src(n.ast.targets[0]) == "self.part_msg"):
        v = n.ast.value
        ok = isinstance(v, ast.Subscript) and src(v.value) == "self.part_msg" and isinstance(v.slice, ast.Slice) and v.slice.upper is None \
            and v.slice.lower is not None
        k = _const_or_name(v.slice.lower) if ok else None
        blk = _block_of(f.node, n.ast)
        cnt = [x for x in blk if isinstance(x, ast.AugAssign) and src(x.target) == "strlen" and isinstance(x.op, ast.Sub)]
        ok = ok and len(cnt) == 1 and _const_or_name(cnt[0].value) == k
        chk.ob("PAIR-15", "OPP parser only drops a prefix of the buffer and mirrors it in strlen", ok, f.where(n.ast),
               detail=src(n.ast), construct=f.ident, text="prefix drop " + src(v))
    # incomplete frame -> break without touching the buffer
    for n in cfg.nodes_where(lambda n: n.kind == "stmt" and isinstance(n.ast, ast.Break)):
        g = cfg.guards_at(n.id)
        inc = [k for k, v in g.items() if k.replace(" ", "").startswith("strlen>=") and v is False] + \
              [k for k, v in g.items() if k.replace(" ", "").startswith("strlen<") and v is True]
        sync = [k for k, v in g.items() if "& 224 == 32" in k and v is True]
        chk.ob("PAIR-15", "OPP parser stops (keeps the buffer) only for an incomplete frame or on regained sync", bool(inc) or bool(sync),
               f.where(n.ast), detail="guards %s" % sorted(g.items()), construct=f.ident, text="break guard")
    # TABLE-4 against the handlers
    # each OPP input reader looks the sending card up in the table it tested it against (direct inputs: inp_addr_dict, switch matrix:
    # matrix_inp_addr_dict): a card with matrix wings only is in the second table alone
    for rd_, tab_ in (("read_gen2_inp_resp", "self.inp_addr_dict"), ("read_matrix_inp_resp", "self.matrix_inp_addr_dict"),
                      ("read_gen2_inp_resp_initial", "self.inp_addr_dict"), ("read_matrix_inp_resp_initial", "self.matrix_inp_addr_dict")):
        rf_ = repo.func(OP, "OppHardwarePlatform." + rd_)
        chk.analysed(rf_)
        tested = {src(x.comparators[0]) for x in walk_local(rf_.node) if isinstance(x, ast.Compare) and len(x.ops) == 1 and isinstance(x.ops[0], (ast.In, ast.NotIn)) and
                  "msg[0]" in src(x.left) and src(x.comparators[0]).endswith("_addr_dict")}
        indexed = {src(x.value) for x in walk_local(rf_.node) if isinstance(x, ast.Subscript) and isinstance(x.ctx, ast.Load) and "msg[0]" in src(x.slice) and
                   src(x.value).endswith("_addr_dict")}
        chk.ob("TABLE-5", "%s accepts a report from exactly the cards of the table it reads the card from (%s)" % (rd_, tab_), tested == indexed == {tab_}, rf_.where(),
               detail="membership tested in %s, card taken from %s" % (sorted(tested), sorted(indexed)), construct=rf_.ident, text="card table of " + rd_)
    want = {"READ_GEN2_INP_CMD": ("read_gen2_inp_resp", "read_gen2_inp_resp_initial"),
            "READ_MATRIX_INP": ("read_matrix_inp_resp", "read_matrix_inp_resp_initial")}
    opp = repo.cls(OP, "OppHardwarePlatform")
    for cmd, handlers in want.items():
        N = frames.get(cmd)
        chk.ob("TABLE-4", "OPP parser knows the frame length of %s" % cmd, N is not None, f.where(), construct=f.ident, text="frame " + cmd)
        for hn in handlers:
            h = opp.methods.get(hn)
            chk.require(h is not None, "C14: OPP handler %s vanished" % hn)
            chk.analysed(h)
            lens = [x for x in ast.walk(h.node) if isinstance(x, ast.Compare) and src(x.left) == "len(msg)" and isinstance(x.ops[0], ast.Lt)]
            crcs = [c for c in h.calls() if call_attr(c) == "calc_crc8_part_msg"]
            cmpx = [x for x in ast.walk(h.node) if isinstance(x, ast.Compare) and isinstance(x.left, ast.Subscript) and src(x.left.value) == "msg"
                    and "crc8" in src(x.comparators[0])]
            L = const_value(lens[0].comparators[0]) if lens else None
            rng = (const_value(crcs[0].args[1]), const_value(crcs[0].args[2])) if crcs and len(crcs[0].args) >= 3 else None
            ci = const_value(cmpx[0].left.slice) if cmpx else None
            ok = N is not None and L == N and rng == (0, N - 1) and ci == N - 1
            chk.ob("TABLE-4", "%s: length %s = parser %s, CRC over (0,%s), CRC byte at %s" % (hn, L, N, None if N is None else N - 1, None if N is None else N - 1),
                   ok, h.where(), detail="len(msg) < %s, crc range %s, crc index %s" % (L, rng, ci), construct=h.ident,
                   text="frame constants %s %s %s %s" % (hn, L, rng, ci))
            # ---------------------------------------------------- DOM-28
            hc = h.cfg()
            eff = [(n, "process_switch_by_num") for n, c in hc.calls_named("process_switch_by_num")]
            eff += [(n, "store old_state") for n in hc.nodes_where(lambda n: n.kind == "stmt" and isinstance(n.ast, ast.Assign) and
                                                                   src(n.ast.targets[0]).endswith(".old_state"))]
            chk.ob("DOM-28", "%s has switch effects" % hn, bool(eff), h.where(), construct=h.ident, text="effects present")
            for n, what in eff:
                g = hc.guards_at(n.id)
                crc_ok = any(k.replace(" ", "").startswith("msg[%s]!=ord(crc8)" % ci) and v is False for k, v in g.items()) or \
                    any(k.replace(" ", "").startswith("msg[%s]==ord(crc8)" % ci) and v is True for k, v in g.items())
                chk.ob("DOM-28", "%s: `%s` happens only on the CRC-equal side" % (hn, what), crc_ok, h.where(n.ast),
                       detail="guards %s" % sorted(g.items()), construct=h.ident, text="crc guard for " + what)
                len_ok = any(k.replace(" ", "") == "len(msg)<%s" % L and v is False for k, v in g.items())
                chk.ob("DOM-28", "%s: `%s` happens only for a complete frame" % (hn, what), len_ok, h.where(n.ast), construct=h.ident,
                       text="length guard for " + what)
            # the CRC is computed over this very message
            ok = bool(crcs) and src(crcs[0].args[0]) == "msg"
            chk.ob("DOM-28", "%s: CRC computed over the received message" % hn, ok, h.where(), construct=h.ident, text="crc over msg")
            # changes = old ^ new ; old_state = new_state after the loop
            if "initial" not in hn:
                xs = [x for x in ast.walk(h.node) if isinstance(x, ast.Assign) and src(x.targets[0]) == "changes"]
                ok = bool(xs) and isinstance(xs[0].value, ast.BinOp) and isinstance(xs[0].value.op, ast.BitXor) and \
                    {src(xs[0].value.left), src(xs[0].value.right)} == {"opp_inp.old_state", "new_state"}
                chk.ob("DOM-28", "%s: reported changes = previous state XOR new state" % hn, ok, h.where(), construct=h.ident, text="changes xor")
                st = [x for x in ast.walk(h.node) if isinstance(x, ast.Assign) and src(x.targets[0]) == "opp_inp.old_state"]
                ok = bool(st) and all(src(x.value) == "new_state" for x in st)
                chk.ob("DOM-28", "%s: the remembered state becomes the reported state" % hn, ok, h.where(), construct=h.ident, text="old=new")
            _opp_payload(chk, h, hn, N)
    chk.floor("TABLE-4", 6)
    chk.floor("DOM-28", 20)
    chk.floor("BYTES-1", 8)
    # ------------------------------------------------------------ TABLE-5
    oi = repo.cls(OI, "OppRs232Intf")
    tbl = oi.attrs.get("CRC8_LOOKUP")
    chk.require(tbl is not None, "C14: CRC8_LOOKUP vanished")
    try:
        vals = ast.literal_eval(tbl)
    except Exception:
        vals = None
    ref = _crc8_table()
    bad = [i for i in range(256) if not vals or len(vals) != 256 or vals[i] != ref[i]]
    chk.ob("TABLE-5", "CRC8_LOOKUP equals the table generated from polynomial 0x07 (256 entries)", not bad, "%s:%s" % (OI, tbl.lineno),
           detail="first differing index %s" % (bad[0] if bad else None), construct=OI + "::CRC8_LOOKUP", text="crc table")
    for fn in ("calc_crc8_whole_msg", "calc_crc8_part_msg"):
        h = oi.methods.get(fn)
        chk.require(h is not None, "C14: %s vanished" % fn)
        init = [x for x in walk_local(h.node) if isinstance(x, ast.Assign) and src(x.targets[0]) == "crc8_byte" and isinstance(x.value, ast.Constant)]
        step = [x for x in walk_local(h.node) if isinstance(x, ast.Assign) and src(x.targets[0]) == "crc8_byte" and isinstance(x.value, ast.Subscript)]
        ok = bool(init) and init[0].value.value == 0xff and bool(step) and "CRC8_LOOKUP" in src(step[0].value) and \
            isinstance(step[0].value.slice, ast.BinOp) and isinstance(step[0].value.slice.op, ast.BitXor)
        chk.ob("TABLE-5", "%s: init 0xff, step table[crc ^ byte]" % fn, ok, h.where(), construct=h.ident, text="crc step " + fn)

    # ------------------------------------------------------------ DOM-29
    f = repo.func(OS_, "OPPSerialCommunicator._parse_msg")
    cfg = f.cfg()
    clears = [n for n in cfg.nodes_where(lambda n: n.kind == "stmt" and isinstance(n.ast, ast.Assign) and src(n.ast.targets[0]) == "self._lost_synch"
                                         and src(n.ast.value) == "False")]
    chk.ob("DOM-29", "the OPP parser can regain synchronisation", bool(clears), f.where(), construct=f.ident, text="resync present")
    for n in clears:
        g = cfg.guards_at(n.id)
        ok = any("self.part_msg[0] & 224 == 32" in k and v is True for k, v in g.items()) and g.get("self._lost_synch") is True
        chk.ob("DOM-29", "sync is regained only on a gen2 card address byte", ok, f.where(n.ast), detail="guards %s" % sorted(g.items()),
               construct=f.ident, text="resync guard")
    # ... and on every such byte that can start a frame the parser handles: a resync test that also looks at the command byte has to accept
    # every command the in-sync branch dispatches, otherwise frames of the forgotten kind are skipped and a stream of only those never resyncs
    dispatched = set()
    for x in walk_local(f.node):
        if isinstance(x, ast.If) and isinstance(x.test, ast.Compare) and len(x.test.ops) == 1 and isinstance(x.test.ops[0], ast.Eq) and \
                "self.part_msg[1]" in (src(x.test.left), src(x.test.comparators[0])):
            dispatched |= {src(y) for y in ast.walk(x.test) if isinstance(y, ast.Attribute) and dotted(y.value) == "OppRs232Intf"}
    for n in clears:
        g = cfg.guards_at(n.id)
        extras = []
        for k, v in g.items():
            if k == "self._lost_synch" or ("self.part_msg[0]" in k and "self.part_msg[1]" not in k):
                continue        # the address test itself is judged above
            try:
                names = {src(y) for y in ast.walk(ast.parse(k, mode="eval")) if isinstance(y, (ast.Name, ast.Attribute, ast.Subscript)) and
                         not isinstance(getattr(y, "ctx", None), ast.Store)}
            except SyntaxError:
                names = {k}
            if names <= {"strlen"}:
                continue
            extras.append((k, v))
        ok = True
        for k, v in extras:
            mentioned = {d for d in dispatched if d in k}
            ok = ok and v is True and "self.part_msg[1]" in k and mentioned == dispatched and " and " not in k
        chk.ob("DOM-29", "sync is regained on every gen2 frame start the parser dispatches (%s): nothing narrows the address test to some commands" %
               ", ".join(sorted(d.split(".")[-1] for d in dispatched)), ok and len(dispatched) >= 2, f.where(n.ast), detail="extra conditions %s" % extras,
               construct=f.ident, text="resync narrowed")
    sets = [n for n in cfg.nodes_where(lambda n: n.kind == "stmt" and isinstance(n.ast, ast.Assign) and src(n.ast.targets[0]) == "self._lost_synch"
                                       and src(n.ast.value) == "True")]
    chk.ob("DOM-29", "unknown bytes / unknown commands put the parser into lost-sync mode", len(sets) >= 2, f.where(), construct=f.ident,
           text="lost sync set")
    # in lost-sync mode bytes are dropped one at a time
    for n in cfg.nodes_where(lambda n: n.kind == "stmt" and isinstance(n.ast, ast.Assign) and src(n.ast.targets[0]) == "self.part_msg"):
        g = cfg.guards_at(n.id)
        if g.get("self._lost_synch") is True:
            chk.ob("DOM-29", "while out of sync bytes are skipped one at a time", src(n.ast.value).replace(" ", "") == "self.part_msg[1:]",
                   f.where(n.ast), construct=f.ident, text="skip one")
    g_ = repo.func(OS_, "OPPSerialCommunicator.lost_synch")
    ok = any(isinstance(x, ast.Assign) and src(x.targets[0]) == "self._lost_synch" and src(x.value) == "True" for x in walk_local(g_.node))
    chk.ob("DOM-29", "a handler that finds a short frame can force a resync", ok, g_.where(), construct=g_.ident, text="lost_synch()")

    _opp_poll(chk, repo)
    _snapshot_applied(chk, repo)

    # PKONE framing: the serial layer cuts a frame at the terminator and hands it on *without* it (received_msg[:pos]); direct callers pass the
    # frame with its terminator.  The platform therefore removes the terminator by value - it never drops the last character by position.
    pkp = repo.func("mpf/platforms/pkone/pkone.py", "PKONEHardwarePlatform.process_received_message")
    chk.analysed(pkp)
    pay = [x for x in walk_local(pkp.node) if isinstance(x, ast.Assign) and src(x.targets[0]) == "payload"]
    chk.need(pay, "FRAME-2", "the PKONE platform separates command and payload", pkp)
    pkc = repo.func(PK, "PKONESerialCommunicator._parse_msg")
    strips = any(isinstance(x, ast.Assign) and src(x.targets[0]) == "msg" and src(x.value).replace(" ", "") == "self.received_msg[:pos]" for x in walk_local(pkc.node))
    cut = [sl for x in pay for sl in ast.walk(x.value) if isinstance(sl, ast.Slice) and sl.upper is not None and
           (isinstance(sl.upper, ast.UnaryOp) or (isinstance(sl.upper, ast.Constant) and isinstance(sl.upper.value, int) and sl.upper.value < 0))]
    chk.ob("FRAME-2", "the PKONE platform does not cut the payload's last character by position (frames from the serial layer arrive without the "
           "terminator)", not (strips and cut), pkp.where(pay[0]), detail="payload = %s" % src(pay[0].value), construct=pkp.ident,
           text="payload cut by position")
    # start-up collection of the initial input reports: the loop ends exactly when every card has answered.  Chunk contents decide nothing:
    # data bytes may equal the delimiter (0xff = eight open inputs), a chunk of one 0xff is not the end of the answer.
    ic = repo.func(OS_, "OPPSerialCommunicator._identify_connection")
    chk.analysed(ic)
    from sa.cfg import canon_fact
    lps = [x for x in ast.walk(ic.node) if isinstance(x, ast.While) and any(isinstance(c_, ast.Call) and call_attr(c_) == "_parse_msg" for c_ in ast.walk(x))]
    chk.need(lps, "DOM-29", "_identify_connection collects the initial input reports in a loop", ic)
    lp = lps[0]
    from sa.cfg import canon_set as _cs14
    from sa.helpers import positive as _pos14
    icfg = ic.cfg()
    body_ids = {id(x) for b in lp.body for x in ast.walk(b)}
    outs = [n for n in icfg.nodes if n.kind == "stmt" and isinstance(n.ast, (ast.Break, ast.Return)) and id(n.ast) in body_ids]
    heads14 = [n for n in icfg.nodes if n.ast is lp and n.kind in ("join", "loop", "test")]
    base = set(_cs14(icfg.guards_at(heads14[0].id))) if heads14 else set()
    gsets = [_pos14(set(_cs14(icfg.guards_at(n.id))) - base) - {("True", True)} for n in outs]
    ok = len(outs) == 1 and src(lp.test) == "True" and gsets[0] == {canon_fact("cards <= 0", True)}
    chk.ob("DOM-29", "the start-up collection of input reports ends exactly when every card has answered (cards <= 0), whatever the chunks contain", ok,
           ic.where(outs[0].ast if outs else lp), detail="left under %s" % [sorted(g) for g in gsets], construct=ic.ident, text="initial report loop exit")
    dec = [x for b in lp.body for x in ast.walk(b) if isinstance(x, ast.AugAssign) and src(x.target) == "cards"]
    ok = len(dec) == 1 and isinstance(dec[0].op, ast.Sub) and src(dec[0].value) == "self._parse_msg(resp)"
    chk.ob("DOM-29", "each chunk lowers the outstanding-card count by the number of reports parsed from it", ok, ic.where(lp), construct=ic.ident,
           text="outstanding cards bookkeeping")

    # ------------------------------------------------------------ SYNC-1
    DEFER = {"call_soon", "call_later", "call_at", "create_task", "ensure_future", "schedule_once", "run_in_executor"}
    n_proc = 0
    for rel in [r for r in repo.modules if r.startswith("mpf/platforms/fast/communicators/")]:
        m = repo.modules[rel]
        for c in m.classes.values():
            procs = set()
            for meth in c.methods.values():
                for x in ast.walk(meth.node):
                    if isinstance(x, ast.Assign) and isinstance(x.targets[0], ast.Subscript) and "message_processors" in src(x.targets[0]) \
                            and isinstance(x.value, ast.Attribute) and dotted(x.value.value) == "self":
                        procs.add(x.value.attr)
                    if isinstance(x, ast.Dict) and isinstance(getattr(x, "values", None), list):
                        for v in x.values:
                            if isinstance(v, ast.Attribute) and dotted(v.value) == "self" and v.attr.startswith("_process"):
                                procs.add(v.attr)
            for pn in sorted(procs):
                pm = repo.lookup_method(c, pn)
                if pm is None:
                    continue
                n_proc += 1
                chk.analysed(pm)
                switchy = _reaches_switch_update(repo, c, pm)
                bad = []
                for x in ast.walk(pm.node):
                    if isinstance(x, ast.Call) and call_attr(x) in DEFER:
                        tgt = " ".join(src(a) for a in x.args)
                        if "switch" in tgt or "update_switches" in tgt or "process_switch" in tgt:
                            bad.append(x)
                chk.ob("SYNC-1", "%s.%s applies switch data synchronously (decode order = effect order)" % (c.name, pn), not bad,
                       pm.where(bad[0]) if bad else pm.where(),
                       detail="a deferred snapshot is applied after later messages of the same read and reverts them" if bad else "",
                       construct=pm.ident, text="deferred switch update in " + pn)
    chk.expect(n_proc >= 8, "C14: FAST message processors lost (%d)" % n_proc)
    f = repo.func(NN, "FastNetNeuronCommunicator._process_sa")
    cfg = f.cfg()
    st = [n for n in cfg.nodes_where(lambda n: n.kind == "stmt" and isinstance(n.ast, ast.Assign) and src(n.ast.targets[0]) == "self.platform.hw_switch_data")]
    up = [n for n, c in cfg.calls_named("update_switches_from_hw_data") if dotted(c.func.value) == "self"]
    ok = bool(st) and bool(up) and all(cfg.dominates(s_.id, u_.id) for s_ in st for u_ in up)
    chk.ob("SYNC-1", "a full switch report is stored and applied before _process_sa returns", ok, f.where(), construct=f.ident,
           text="SA applied inline")
    # ... every report, also one equal to the last: the remembered report is not what MPF believes (single switch events change the switches
    # but not the remembered report), so "unchanged since the last report" says nothing about the switches
    for u_ in up:
        g_ = {k: v for k, v in cfg.guards_at(u_.id).items() if "hw_switch_data" in k or "hw_states" in k}
        chk.ob("SYNC-1", "every full switch report is applied (no comparison with the previous report)", not g_, f.where(u_.ast), detail=str(sorted(g_.items())),
               construct=f.ident, text="SA applied unconditionally")
    uninit = [b.id for b in cfg.nodes if b.kind == "branch" and src(b.ast) == "self.platform.switches_initialized" and b.value is False]
    w_sa = cfg.must_pass(cfg.entry.id, [u_.id for u_ in up] + uninit) if up else [cfg.entry.id]
    chk.ob("SYNC-1", "every returning path of _process_sa applies the report (once the switches are initialised)", w_sa is None, f.where(), construct=f.ident, text="SA applied on every path",
           path=cfg.fmt_path(w_sa, f) if w_sa and len(w_sa) > 1 else None)
    # BITS-2: the full report is unpacked completely: 8 bits per byte, number = byte offset * 8 + bit, state = that bit
    from sa.helpers import exact_selection
    bl = [h for h in cfg.nodes if h.kind == "loop" and isinstance(h.ast.iter, ast.Call) and call_attr(h.ast.iter) == "range"]
    by = [h for h in cfg.nodes if h.kind == "loop" and "fromhex" in src(h.ast.iter)]
    chk.need(bl and by, "BITS-2", "_process_sa unpacks the report byte by byte, bit by bit", f)
    chk.ob("BITS-2", "_process_sa looks at all 8 bits of every byte of the report", [const_value(a) for a in bl[0].ast.iter.args] == [8] and
           src(by[0].ast.iter).replace(" ", "") == "enumerate(bytearray.fromhex(raw_switch_data))", f.where(bl[0].ast), construct=f.ident, text="SA bit range")
    bit = src(bl[0].ast.target)
    off = src(by[0].ast.target.elts[0]) if isinstance(by[0].ast.target, ast.Tuple) else "?"
    byt = src(by[0].ast.target.elts[1]) if isinstance(by[0].ast.target, ast.Tuple) else "?"
    nums = [x for x in ast.walk(f.node) if isinstance(x, ast.Assign) and src(x.targets[0]) == "num"]
    ok = len(nums) == 1 and src(nums[0].value).replace(" ", "").replace("(", "").replace(")", "") in ("%s*8+%s" % (off, bit), "8*%s+%s" % (off, bit))
    chk.ob("BITS-2", "the switch number of a bit is byte offset * 8 + bit index", ok, f.where(), construct=f.ident, text="SA switch number")
    sts = [n for n in cfg.nodes if n.kind == "stmt" and isinstance(n.ast, ast.Assign) and src(n.ast.targets[0]) == "hw_states[num]"]
    chk.ob("BITS-2", "each bit is recorded as 1 or 0", sorted(const_value(n.ast.value) for n in sts if const_value(n.ast.value) is not None) == [0, 1] and len(sts) == 2,
           f.where(), construct=f.ident, text="SA states")
    for n in sts:
        v = const_value(n.ast.value)
        tests = ("%s & 2 ** %s" % (byt, bit), "%s & (2 ** %s)" % (byt, bit), "%s & 1 << %s" % (byt, bit))
        got = exact_sel_text(cfg, n, bl[0])
        ok = len(got) == 1 and any(k.replace("(", "").replace(")", "") == tests[0].replace("(", "").replace(")", "") or k == tests[2] for k, _ in got) and \
            all(val is (v == 1) for _, val in got)
        chk.ob("BITS-2", "a switch is recorded %s exactly when its bit is %s" % ("active" if v else "inactive", "set" if v else "clear"), ok, f.where(n.ast),
               detail=str(sorted(got)), construct=f.ident, text="SA bit %s" % v)
    for nm, stt in (("_process_switch_open", 0), ("_process_switch_closed", 1)):
        h = repo.func(NN, "FastNetNeuronCommunicator." + nm)
        cs = [c for c in h.calls() if call_attr(c) == "process_switch_by_num"]
        ok = len(cs) == 1 and const_value(kwarg(cs[0], "state")) == stt and "int(msg, 16)" in src(kwarg(cs[0], "num"))
        chk.ob("SYNC-1", "%s reports state %d for the hex switch number" % (nm, stt), ok, h.where(), construct=h.ident, text=nm + " state")


def _opp_poll(chk, repo):
    """POLL-14: the OPP read-input poll is the only source of switch reports on that link; every trip of the poll loop sends a poll,
    also the trip in which the wait for the previous answer timed out (a lost answer is followed by a new poll, not by waiting for
    an answer nobody will send); the answer flag is cleared only after an answer arrived, before the next poll goes out; the
    answer handler sets the flag."""
    OPPF = "mpf/platforms/opp/opp.py"
    f = repo.func(OPPF, "OppHardwarePlatform._poll_sender")
    chk.analysed(f)
    cfg = f.cfg()
    heads = [h for h in cfg.nodes if h.kind == "join" and isinstance(h.ast, ast.While)]
    send = [n.id for n, c in cfg.calls_named("send_to_processor") if c.args and "read_input_msg" in src(c.args[-1])]
    chk.need(len(heads) == 1 and send, "POLL-14", "_poll_sender loops and sends the read-input poll", f)
    h = heads[0]
    starts = [s_ for s_ in cfg.succs(h.id, False)]
    w = None
    for st in starts:
        w = w or cfg.path_avoiding(st, [h.id], send, ignore_exc=False, include_start=False)
    chk.ob("POLL-14", "every trip of the poll loop sends a poll (also after a timed-out wait)", w is None, f.where(h.ast), path=cfg.fmt_path(w, OPPF) if w else None,
           detail="a trip that sends nothing waits for an answer to a poll that was never sent: switch reports stop for good", construct=f.ident,
           text="poll loop trip without poll")
    clr = [(n, c) for n, c in cfg.calls_named("clear") if "_poll_response_received" in src(c.func.value)]
    wt = [n for n in cfg.nodes if n.kind == "stmt" and n.has_await() and "_poll_response_received" in n.text(200)]
    ok = len(clr) == 1 and len(wt) == 1
    if ok:
        # cleared only on the path where the wait returned normally
        exc_succ = [s_ for s_ in cfg.nodes[wt[0].id].succ if (wt[0].id, s_) in cfg.exc_edges]
        reach_exc = cfg.reachable(exc_succ, ignore_exc=False) if exc_succ else set()
        back = {h.id}
        # nodes reachable from the handler before the loop head is passed again
        hand = set()
        todo = list(exc_succ)
        while todo:
            x = todo.pop()
            if x in hand or x == h.id:
                continue
            hand.add(x)
            todo.extend(cfg.succs(x, False))
        ok = clr[0][0].id not in hand and all(cfg.path_avoiding(clr[0][0].id, [sid], [h.id], ignore_exc=True) is not None for sid in send[:1])
    chk.ob("POLL-14", "the answer flag is cleared only after an answer arrived, before the next poll is sent", ok, f.where(), construct=f.ident, text="poll flag clear")
    g = [m for m in repo.cls(OPPF, "OppHardwarePlatform").methods.values() if any(
        isinstance(c.func, ast.Attribute) and c.func.attr == "set" and "_poll_response_received" in src(c.func.value) for c in m.calls())]
    chk.ob("POLL-14", "the read-input answer handler raises the answer flag", len(g) >= 1, f.where(), detail=str([m.name for m in g]), construct=f.ident, text="poll flag set")


def _snapshot_applied(chk, repo):
    """SNAP-14: a full switch report (FAST `SA:`) is applied switch by switch: every switch of the platform (no further filter) has its raw
    level taken from the report under its own number; the *logical* state (raw xor invert) is what is compared with the switch's state and
    what is handed to process_switch_obj, flagged as logical - so that after the report MPF's states equal the report's, NC switches
    included."""
    from sa.cfg import canon_set, canon_fact
    from sa.helpers import inloop_guards, positive
    f = repo.func(NN, "FastNetNeuronCommunicator.update_switches_from_hw_data")
    chk.analysed(f)
    cfg = f.cfg()
    lps = [h for h in cfg.nodes if h.kind == "loop"]
    ps = [(n, c) for n, c in cfg.calls_named("process_switch_obj")]
    chk.need(len(lps) == 1 and len(ps) == 1, "SNAP-14", "update_switches_from_hw_data walks the switches and reports changes", f)
    n, c = ps[0]
    lg = [x for x in walk_local(f.node) if isinstance(x, ast.Assign) and isinstance(x.targets[0], ast.Name) and isinstance(x.value, ast.BinOp) and
          isinstance(x.value.op, ast.BitXor) and {src(x.value.left), src(x.value.right)} == {"switch.invert", "hw_state"}]
    raw = [x for x in walk_local(f.node) if isinstance(x, ast.Assign) and src(x.targets[0]) == "hw_state"]
    ok = len(lg) == 1 and len(raw) == 1 and src(raw[0].value).replace(" ", "") == "self.platform.hw_switch_data[switch.hw_switch.number]"
    chk.ob("SNAP-14", "the raw level is the report's entry for the switch's own number; the logical state is raw xor invert", ok, f.where(), construct=f.ident,
           text="snapshot raw / logical")
    lname = src(lg[0].targets[0]) if lg else "?"
    args = [src(a) for a in c.args] + ["%s=%s" % (k.arg, src(k.value)) for k in c.keywords]
    ok = args in ([ "switch", lname, "True"], ["switch", lname, "logical=True"])
    chk.ob("SNAP-14", "a change is reported with the logical state, flagged as logical", ok, f.where(c), detail=str(args), construct=f.ident, text="snapshot report args")
    got = positive(inloop_guards(cfg, n.id, lps[0].id))
    want = positive({canon_fact("%s != switch.state" % lname, True)})
    extra = {g for g in got - want if "hw_state" not in g[0]}
    chk.ob("SNAP-14", "a switch is reported exactly when its logical state differs from MPF's", want <= got and not extra, f.where(c), detail="selected by %s" % sorted(got),
           construct=f.ident, text="snapshot report selection")
    it = src(lps[0].ast.iter).replace(" ", "")
    chk.ob("SNAP-14", "every switch of this platform is looked at", it in ("[swforswinself.machine.switches.values()ifsw.platform==self.platform]",
                                                                         "[swforswinself.machine.switches.values()ifself.platform==sw.platform]"),
           f.where(lps[0].ast), detail=it, construct=f.ident, text="snapshot switch set")


def _flatten_or(e):
    if isinstance(e, ast.BinOp) and isinstance(e.op, ast.BitOr):
        return _flatten_or(e.left) + _flatten_or(e.right)
    return [e]


def _opp_payload(chk, h, hn, N):
    """BYTES-1: the switch bits of an OPP input frame are the data bytes msg[2] .. msg[N-2] assembled big-endian
    (byte i shifted left by 8 * (N-2-i)), joined with `|` only.  BITS-1: every changed bit is reported once, with the
    switch number of that bit and the state the frame says (a set bit is an open = inactive switch)."""
    if N is None:
        return
    asg = [x for x in ast.walk(h.node) if isinstance(x, ast.Assign) and isinstance(x.targets[0], (ast.Name, ast.Attribute)) and
           any(isinstance(y, ast.Subscript) and src(y.value) == "msg" for y in ast.walk(x.value)) and
           isinstance(x.value, ast.BinOp) and isinstance(x.value.op, ast.BitOr)]
    chk.ob("BYTES-1", "%s assembles the input bits from the frame" % hn, len(asg) == 1, h.where(), construct=h.ident, text="bit assembly in " + hn)
    if len(asg) != 1:
        return
    terms = _flatten_or(asg[0].value)
    got = {}
    shape = True
    for t in terms:
        if isinstance(t, ast.BinOp) and isinstance(t.op, ast.LShift) and isinstance(t.left, ast.Subscript) and src(t.left.value) == "msg":
            got[const_value(t.left.slice)] = const_value(t.right)
        elif isinstance(t, ast.Subscript) and src(t.value) == "msg":
            got[const_value(t.slice)] = 0
        else:
            shape = False
    last = N - 2
    want = {i: 8 * (last - i) for i in range(2, last + 1)}
    chk.ob("BYTES-1", "%s: data bytes msg[2..%d] are combined big-endian with `|` (byte i << 8*(%d-i))" % (hn, last, last), shape and got == want,
           h.where(asg[0]), detail="found %s, expected %s" % (sorted(got.items()), sorted(want.items())), construct=h.ident,
           text="byte/shift table %s" % sorted(got.items()))
    nbits = 8 * (last - 1)
    state_name = src(asg[0].targets[0])
    if "initial" in hn:
        return
    loops = [x for x in ast.walk(h.node) if isinstance(x, ast.For) and isinstance(x.iter, ast.Call) and call_attr(x.iter) == "range"]
    ra = [const_value(a) for a in loops[0].iter.args] if loops else []
    if len(ra) == 1:
        ra = [0] + ra
    # matrix inputs are numbered after the 32 direct inputs of a card (tabled offset)
    ok = bool(loops) and len(ra) == 2 and None not in ra and ra[1] - ra[0] == nbits and ra[0] == (32 if "matrix" in hn else 0)
    chk.ob("BYTES-1", "%s walks all %d input bits" % (hn, nbits), ok, h.where(loops[0]) if loops else h.where(), construct=h.ident,
           text="bit loop range in " + hn)
    if not loops:
        return
    lp = loops[0]
    idx = src(lp.target)
    shifts = [x for x in ast.walk(lp) if isinstance(x, ast.AugAssign) and src(x.target) == "curr_bit"]
    ok = len(shifts) == 1 and isinstance(shifts[0].op, ast.LShift) and const_value(shifts[0].value) == 1 and shifts[0] in lp.body
    chk.ob("BITS-1", "%s: the bit mask advances by one bit per switch, on every pass" % hn, ok, h.where(lp), construct=h.ident,
           text="mask advance in " + hn)
    init = [x for x in ast.walk(h.node) if isinstance(x, ast.Assign) and src(x.targets[0]) == "curr_bit"]
    chk.ob("BITS-1", "%s: the mask starts at bit 0" % hn, bool(init) and all(const_value(x.value) == 1 for x in init), h.where(), construct=h.ident,
           text="mask start in " + hn)
    hc = h.cfg()
    for n, c in hc.calls_named("process_switch_by_num"):
        g = hc.guards_at(n.id)
        changed = g.get("curr_bit & changes != 0") is True or g.get("curr_bit & changes") is True or g.get("curr_bit & changes == 0") is False
        chk.ob("BITS-1", "%s: a switch is reported only when its bit changed" % hn, changed, h.where(c), detail="guards %s" % sorted(g.items()),
               construct=h.ident, text="changed-bit guard")
        st = kwarg(c, "state")
        bit_clear = g.get("curr_bit & %s == 0" % state_name)
        if bit_clear is None and g.get("curr_bit & %s != 0" % state_name) is not None:
            bit_clear = not g.get("curr_bit & %s != 0" % state_name)
        want_state = 1 if bit_clear else 0
        chk.ob("BITS-1", "%s: a cleared bit is reported active (1), a set bit inactive (0)" % hn, bit_clear is not None and st is not None and
               const_value(st) == want_state, h.where(c), detail="state=%s under %s" % (src(st) if st is not None else None, sorted(g.items())),
               construct=h.ident, text="bit polarity")
        # sufficiency: *every* changed bit is reported -- nothing but "bit changed" and the bit's value select the report
        lh = [x for x in hc.nodes if x.kind == "loop" and x.ast is lp]
        if lh:
            from sa.helpers import inloop_guards, positive
            got = positive(inloop_guards(hc, n.id, lh[0].id))
            extra = {(k, v) for k, v in got if not ("curr_bit & changes" in k or ("curr_bit & %s" % state_name) in k)}
            chk.ob("BITS-1", "%s: every changed bit is reported (no further condition)" % hn, not extra and len(got) == 2, h.where(c),
                   detail="selected by %s" % sorted(got), construct=h.ident, text="changed bit reported exactly")
        num = kwarg(c, "num")
        chk.ob("BITS-1", "%s: the switch number ends in the bit index" % hn, num is not None and src(num).replace(" ", "").endswith("str(%s)" % idx),
               h.where(c), detail=src(num) if num is not None else "", construct=h.ident, text="switch number")


def exact_sel_text(cfg, node, head):
    from sa.helpers import inloop_guards, positive
    return positive(inloop_guards(cfg, node.id, head.id))


def _callee_awaits_response(repo, cls, wait_for_calls):
    """Does the coroutine guarded by wait_for itself await the response (done_waiting / a future set by the dispatcher)?"""
    for c in wait_for_calls:
        if not c.args:
            continue
        inner = c.args[0]
        if isinstance(inner, ast.Call) and isinstance(inner.func, ast.Attribute) and dotted(inner.func.value) == "self":
            m = repo.lookup_method(cls, inner.func.attr)
            if m is not None:
                for x in ast.walk(m.node):
                    if isinstance(x, ast.Await) and "done_waiting" in src(x):
                        return True
    return False


def _block_of(fn, node):
    """The statement list (body) that contains the statement containing `node`."""
    for x in ast.walk(fn):
        for fld in ("body", "orelse", "finalbody"):
            blk = getattr(x, fld, None)
            if isinstance(blk, list):
                for st in blk:
                    if st is node or any(y is node for y in ast.walk(st) if not isinstance(st, (ast.If, ast.While, ast.For, ast.Try, ast.With))):
                        if not isinstance(st, (ast.If, ast.While, ast.For, ast.Try, ast.With)):
                            return blk
    return []


def _reaches_switch_update(repo, cls, m):
    return any(isinstance(x, ast.Call) and call_attr(x) in ("process_switch_by_num", "process_switch_obj", "update_switches_from_hw_data")
               for x in ast.walk(m.node))


def battery():
    from sa.battery import M
    return [
        M("PKONE payload loses its last character", "mpf/platforms/pkone/pkone.py", "        payload = msg[3:].replace('E', '')", "        payload = msg[3:-1]", "FRAME-2"),
        M("twin: start-up collection exit as a guard clause", OS_, "            if cards <= 0:\n                break\n            self.log.debug(\"Waiting for another %s cards\", cards)", "            if cards > 0:\n                self.log.debug(\"Waiting for another %s cards\", cards)\n                continue\n            break", None),
        M("a lone delimiter byte ends the start-up collection", OS_, "            if cards <= 0:\n                break", "            if cards <= 0 or resp == OppRs232Intf.EOM_CMD:\n                break", "DOM-29"),
        M("PKONE dispatches the raw chunk instead of the frame", "mpf/platforms/pkone/pkone_serial_communicator.py", "            msg = self.received_msg[:pos]\n", "            frame = self.received_msg[:pos]\n", "PAIR-15",
          also=[("mpf/platforms/pkone/pkone_serial_communicator.py", "            if not msg:\n                continue\n\n            if msg.decode() not in self.ignored_messages:", "            if not frame:\n                continue\n\n            if frame.decode() not in self.ignored_messages:")]),
        M("SA report applied only when it differs from the last report", "mpf/platforms/fast/communicators/net_neuron.py", "        self.platform.hw_switch_data = hw_states\n        self.update_switches_from_hw_data()", "        if hw_states != self.platform.hw_switch_data:\n            self.platform.hw_switch_data = hw_states\n            self.update_switches_from_hw_data()", "SYNC-1"),
        M("initial matrix report accepted by the direct-input card table", OP, "            if chain_serial + '-' + str(msg[0]) not in self.matrix_inp_addr_dict:", "            if chain_serial + '-' + str(msg[0]) not in self.inp_addr_dict:", "TABLE-5"),
        M("matrix reports accepted by the direct-input card table", OP, "            if chain_serial + '-' + str(msg[0]) not in self.matrix_inp_addr_dict:", "            if chain_serial + '-' + str(msg[0]) not in self.inp_addr_dict:", "TABLE-5", nth=1),
        M("only the last OPP chain registered", OP, "            await comm.connect()\n            self.serial_connections.add(comm)\n", "            await comm.connect()\n\n        self.serial_connections.add(comm)\n", "LASTONLY-0"),
        M("second writer", FB, "        self.send_queue.put_nowait((msg, None, log_msg))", "        self.write_to_port(msg, log_msg)", "OWN-15"),
        M("lifo send queue", FB, "self.send_queue = asyncio.Queue()", "self.send_queue = asyncio.LifoQueue()", "OWN-15"),
        M("retry loop off by one", FB, "while max_retries == -1 or retries <= max_retries:", "while max_retries == -1 or retries < max_retries:", "DOM-27"),
        M("timeout aborts", FB, "                self.log.error(\"Timeout waiting for response to %s. Retrying...\", msg)\n                retries += 1", "                self.log.error(\"Timeout waiting for response to %s. Retrying...\", msg)\n                break", "DOM-27"),
        M("response never re-arms", FB, "            self.message_processors[msg_header](msg[3:])\n            self.no_response_waiting.set()", "            self.message_processors[msg_header](msg[3:])", "DOM-27"),
        M("FAST keeps delimiter", FB, "self.received_msg = self.received_msg[pos + 1:]", "self.received_msg = self.received_msg[pos:]", "PAIR-15"),
        M("FAST drops buffer on incomplete", FB, "            if pos == -1:\n                break\n\n            msg = self.received_msg[:pos]", "            if pos == -1:\n                self.received_msg = b''\n                break\n\n            msg = self.received_msg[:pos]", "PAIR-15"),
        M("FAST overwrites buffer", FB, "        \"\"\"Parse a bytestring from the serial communicator.\"\"\"\n        self.received_msg += msg", "        \"\"\"Parse a bytestring from the serial communicator.\"\"\"\n        self.received_msg = msg", "PAIR-15"),
        M("PKONE frame slice off", PK, "            msg = self.received_msg[:pos]\n            self.received_msg = self.received_msg[pos + 1:]\n\n            self.messages_in_flight", "            msg = self.received_msg[:pos + 1]\n            self.received_msg = self.received_msg[pos + 1:]\n\n            self.messages_in_flight", "PAIR-15"),
        M("OPP matrix frame completeness 7", OS_, "                    if strlen >= 11:", "                    if strlen >= 7:", "PAIR-15"),
        M("OPP keeps 7 after 11 byte frame", OS_, "                        self.part_msg = self.part_msg[11:]", "                        self.part_msg = self.part_msg[7:]", "PAIR-15"),
        M("OPP count mismatch", OS_, "                        self.part_msg = self.part_msg[7:]\n                        strlen -= 7", "                        self.part_msg = self.part_msg[7:]\n                        strlen -= 6", "PAIR-15"),
        M("OPP handler length constant", OP, "        if len(msg) < 11:\n            self.log.warning(\"Msg too short: %s.\"", "        if len(msg) < 10:\n            self.log.warning(\"Msg too short: %s.\"", "TABLE-4"),
        M("OPP crc range short", OP, "crc8 = OppRs232Intf.calc_crc8_part_msg(msg, 0, 6)\n        if msg[6] != ord(crc8):\n            self._bad_crc(chain_serial, msg)\n        else:\n            if chain_serial + '-' + str(msg[0]) not in self.inp_addr_dict:\n                self.log.warning(\"Got input response for invalid card: ", "crc8 = OppRs232Intf.calc_crc8_part_msg(msg, 0, 5)\n        if msg[6] != ord(crc8):\n            self._bad_crc(chain_serial, msg)\n        else:\n            if chain_serial + '-' + str(msg[0]) not in self.inp_addr_dict:\n                self.log.warning(\"Got input response for invalid card: ", "TABLE-4"),
        M("OPP bad crc still applied", OP, "        if msg[10] != ord(crc8):\n            self._bad_crc(chain_serial, msg)\n        else:\n            if chain_serial + '-' + str(msg[0]) not in self.matrix_inp_addr_dict:\n                self.log.warning(\"Got input response for invalid matrix card: ", "        if msg[10] != ord(crc8):\n            self._bad_crc(chain_serial, msg)\n        if True:\n            if chain_serial + '-' + str(msg[0]) not in self.matrix_inp_addr_dict:\n                self.log.warning(\"Got input response for invalid matrix card: ", "DOM-28"),
        M("OPP old state not updated", OP, "                    curr_bit <<= 1\n            opp_inp.old_state = new_state\n\n        # we can continue to poll\n        self._poll_response_received[chain_serial].set()\n\n    def read_matrix_inp_resp_initial", "                    curr_bit <<= 1\n\n        # we can continue to poll\n        self._poll_response_received[chain_serial].set()\n\n    def read_matrix_inp_resp_initial", "DOM-28"),
        M("CRC table entry", OI, "0x00, 0x07, 0x0e, 0x09, 0x1c, 0x1b, 0x12, 0x15,", "0x00, 0x07, 0x0e, 0x09, 0x1c, 0x1b, 0x12, 0x16,", "TABLE-5"),
        M("CRC init 0", OI, "        crc8_byte = 0xff\n        index = 0", "        crc8_byte = 0x00\n        index = 0", "TABLE-5"),
        M("resync on any byte", OS_, "                    if (self.part_msg[0] & 0xe0) == 0x20:\n                        self._lost_synch = False\n                        break", "                    if self.part_msg[0] != 0xff:\n                        self._lost_synch = False\n                        break", "DOM-29"),
        M("SA applied later", NN, "        self.update_switches_from_hw_data()\n        self.done_processing_msg_response()", "        self.machine.clock.loop.call_soon(self.update_switches_from_hw_data)\n        self.done_processing_msg_response()", "SYNC-1"),
        M("open reports active", NN, "        self.machine.switch_controller.process_switch_by_num(state=0,\n                                                             num=int(msg, 16),", "        self.machine.switch_controller.process_switch_by_num(state=1,\n                                                             num=int(msg, 16),", "SYNC-1", nth=0),
        M("shared incomplete check uses 7 for all frames", OS_, '                if self.part_msg[1] == ord(OppRs232Intf.READ_GEN2_INP_CMD):\n                    if strlen >= 7:\n                        self.platform.process_received_message(self.chain_serial, self.part_msg[:7])\n                        message_found += 1\n                        self.part_msg = self.part_msg[7:]\n                        strlen -= 7\n                    else:\n                        # message not complete yet\n                        break\n                # Check if read matrix input\n                elif self.part_msg[1] == ord(OppRs232Intf.READ_MATRIX_INP):\n                    if strlen >= 11:\n                        self.platform.process_received_message(self.chain_serial, self.part_msg[:11])\n                        message_found += 1\n                        self.part_msg = self.part_msg[11:]\n                        strlen -= 11\n                    else:\n                        # message not complete yet\n                        break\n                else:\n                    # Lost synch\n                    self.part_msg = self.part_msg[2:]\n                    strlen -= 2\n                    self._lost_synch = True\n', '                if self.part_msg[1] == ord(OppRs232Intf.READ_GEN2_INP_CMD):\n                    msg_len = 7\n                # Check if read matrix input\n                elif self.part_msg[1] == ord(OppRs232Intf.READ_MATRIX_INP):\n                    msg_len = 11\n                else:\n                    # Lost synch\n                    self.part_msg = self.part_msg[2:]\n                    strlen -= 2\n                    self._lost_synch = True\n                    continue\n\n                if strlen < 7:\n                    # message not complete yet\n                    break\n\n                self.platform.process_received_message(self.chain_serial, self.part_msg[:msg_len])\n                message_found += 1\n                self.part_msg = self.part_msg[msg_len:]\n                strlen -= msg_len\n', "PAIR-15"),
        M("twin: msg_len refactor with the right completeness test", OS_, '                if self.part_msg[1] == ord(OppRs232Intf.READ_GEN2_INP_CMD):\n                    if strlen >= 7:\n                        self.platform.process_received_message(self.chain_serial, self.part_msg[:7])\n                        message_found += 1\n                        self.part_msg = self.part_msg[7:]\n                        strlen -= 7\n                    else:\n                        # message not complete yet\n                        break\n                # Check if read matrix input\n                elif self.part_msg[1] == ord(OppRs232Intf.READ_MATRIX_INP):\n                    if strlen >= 11:\n                        self.platform.process_received_message(self.chain_serial, self.part_msg[:11])\n                        message_found += 1\n                        self.part_msg = self.part_msg[11:]\n                        strlen -= 11\n                    else:\n                        # message not complete yet\n                        break\n                else:\n                    # Lost synch\n                    self.part_msg = self.part_msg[2:]\n                    strlen -= 2\n                    self._lost_synch = True\n', '                if self.part_msg[1] == ord(OppRs232Intf.READ_GEN2_INP_CMD):\n                    msg_len = 7\n                # Check if read matrix input\n                elif self.part_msg[1] == ord(OppRs232Intf.READ_MATRIX_INP):\n                    msg_len = 11\n                else:\n                    # Lost synch\n                    self.part_msg = self.part_msg[2:]\n                    strlen -= 2\n                    self._lost_synch = True\n                    continue\n\n                if strlen < msg_len:\n                    # message not complete yet\n                    break\n\n                self.platform.process_received_message(self.chain_serial, self.part_msg[:msg_len])\n                message_found += 1\n                self.part_msg = self.part_msg[msg_len:]\n                strlen -= msg_len\n', None),
        # twins
        M("twin: partition style unchanged semantics", FB, "            if not msg:\n                continue\n\n            try:\n                msg = msg.decode()", "            if len(msg) == 0:\n                continue\n\n            try:\n                msg = msg.decode()", None),
        M("twin: extra log in OPP parser", OS_, "        message_found = 0\n", "        message_found = 0\n        first = self.part_msg[:1]\n", None),
        M("OPP input bytes assembled little-endian", OP, "            new_state = (msg[2] << 24) | \\\n                (msg[3] << 16) | \\\n                (msg[4] << 8) | \\\n                msg[5]\n\n            # Update the state which holds inputs that are active", "            new_state = (msg[5] << 24) | \\\n                (msg[4] << 16) | \\\n                (msg[3] << 8) | \\\n                msg[2]\n\n            # Update the state which holds inputs that are active", "BYTES-1"),
        M("OPP matrix byte dropped", OP, "(msg[6] << 24) | (msg[7] << 16) | (msg[8] << 8) | msg[9])\n\n            changes", "(msg[6] << 24) | (msg[7] << 16) | (msg[8] << 8))\n\n            changes", "BYTES-1"),
        M("OPP bit polarity inverted", OP, "                        if (curr_bit & new_state) == 0:\n                            self.machine.switch_controller.process_switch_by_num(\n                                state=1,", "                        if (curr_bit & new_state) != 0:\n                            self.machine.switch_controller.process_switch_by_num(\n                                state=1,", "BITS-1"),
        M("OPP mask advances only for changed bits", OP, "                                platform=self)\n                    curr_bit <<= 1\n            opp_inp.old_state = new_state\n\n        # we can continue to poll\n        self._poll_response_received[chain_serial].set()\n\n    def read_matrix_inp_resp_initial", "                                platform=self)\n                        curr_bit <<= 1\n            opp_inp.old_state = new_state\n\n        # we can continue to poll\n        self._poll_response_received[chain_serial].set()\n\n    def read_matrix_inp_resp_initial", "BITS-1"),
        M("OPP lost-sync byte counted but not dropped", OS_, "                    self.part_msg = self.part_msg[1:]\n                    strlen -= 1\n            # Check if this is a gen2 card address", "                    strlen -= 1\n            # Check if this is a gen2 card address", "PAIR-15"),
        M("OPP EOM byte never consumed", OS_, "            elif self.part_msg[0] == ord(OppRs232Intf.EOM_CMD):\n                self.part_msg = self.part_msg[1:]\n                strlen -= 1", "            elif self.part_msg[0] == ord(OppRs232Intf.EOM_CMD):\n                pass", "PROGRESS-1"),
        M("PKONE buffer never cut", PK, "            self.received_msg = self.received_msg[pos + 1:]\n", "", "PROGRESS-1"),
        M("PKONE frames decoded but dropped", PK, "            if msg.decode() not in self.ignored_messages:\n                self.platform.process_received_message(msg.decode())", "            if msg.decode() not in self.ignored_messages:\n                pass", "PAIR-15"),
        M("OPP matrix frames never dispatched", OS_, "                        self.platform.process_received_message(self.chain_serial, self.part_msg[:11])\n", "", "PAIR-15"),
        M("FAST delimiter search skips the carried-over bytes", FB, "            pos = self.received_msg.find(b'\\r')", "            pos = self.received_msg.find(b'\\r', len(msg))", "PAIR-15"),
        M("twin: unrelated statement before the append", FB, "        self.received_msg += msg\n", "        n_new = len(msg)\n        self.received_msg += msg\n", None),
        M("OPP changes of some inputs are not reported", OP, "                    if (curr_bit & changes) != 0:\n                        if (curr_bit & new_state) == 0:\n                            self.machine.switch_controller.process_switch_by_num(\n                                state=1,\n                                num=opp_inp.chain_serial + '-' + opp_inp.card_num + '-' + str(index),", "                    if (curr_bit & changes) != 0 and index < 24:\n                        if (curr_bit & new_state) == 0:\n                            self.machine.switch_controller.process_switch_by_num(\n                                state=1,\n                                num=opp_inp.chain_serial + '-' + opp_inp.card_num + '-' + str(index),", "BITS-1"),
        M("FAST full report: bit numbering off by one byte", NN, "                num = (offset * 8) + i", "                num = ((offset + 1) * 8) + i", "BITS-2"),
        M("FAST full report: only seven bits per byte", NN, "            for i in range(8):\n\n                num = (offset * 8) + i", "            for i in range(7):\n\n                num = (offset * 8) + i", "BITS-2"),
        M("FAST full report: polarity inverted", NN, "                if byte & (2**i):\n                    hw_states[num] = 1\n                else:\n                    hw_states[num] = 0", "                if byte & (2**i):\n                    hw_states[num] = 0\n                else:\n                    hw_states[num] = 1", "BITS-2"),
        M("resync only on direct-input frames", OS_, "                    if (self.part_msg[0] & 0xe0) == 0x20:\n                        self._lost_synch = False", "                    if (self.part_msg[0] & 0xe0) == 0x20 and strlen > 1 and self.part_msg[1] == ord(OppRs232Intf.READ_GEN2_INP_CMD):\n                        self._lost_synch = False", "DOM-29"),
        M("twin: resync scan bounded by strlen > 1", OS_, "                while strlen > 0:\n                    # wait for next gen2 card message", "                while strlen >= 1:\n                    # wait for next gen2 card message", None),
        M("twin: resync also checks the command byte, for every dispatched command", OS_, "                while strlen > 0:\n                    # wait for next gen2 card message\n                    if (self.part_msg[0] & 0xe0) == 0x20:\n                        self._lost_synch = False", "                while strlen > 1:\n                    # wait for next gen2 card message\n                    if (self.part_msg[0] & 0xe0) == 0x20 and (self.part_msg[1] == ord(OppRs232Intf.READ_GEN2_INP_CMD) or self.part_msg[1] == ord(OppRs232Intf.READ_MATRIX_INP)):\n                        self._lost_synch = False", None),
        M("OPP poll loop sends nothing after a timed-out wait", OP, "                self.log.warning(\"Poll took more than %sms for %s\", timeout * 1000, chain_serial)\n            else:\n                self._poll_response_received[chain_serial].clear()", "                self.log.warning(\"Poll took more than %sms for %s\", timeout * 1000, chain_serial)\n                continue\n\n            self._poll_response_received[chain_serial].clear()", "POLL-14"),
        M("OPP poll flag cleared although no answer came", OP, "                self.log.warning(\"Poll took more than %sms for %s\", timeout * 1000, chain_serial)\n            else:\n                self._poll_response_received[chain_serial].clear()", "                self.log.warning(\"Poll took more than %sms for %s\", timeout * 1000, chain_serial)\n                self._poll_response_received[chain_serial].clear()", "POLL-14"),
        M("PKONE decoder stops at an ignored frame", PK, "            if msg.decode() not in self.ignored_messages:\n                self.platform.process_received_message(msg.decode())", "            if msg.decode() in self.ignored_messages:\n                return\n\n            self.platform.process_received_message(msg.decode())", "PAIR-15"),
        M("snapshot reports the raw level as the logical state", NN, "process_switch_obj(switch, logical_state, True)", "process_switch_obj(switch, hw_state, True)", "SNAP-14"),
    ]


def thorough(chk):
    from sa.battery import run_battery
    run_battery(chk, battery())
